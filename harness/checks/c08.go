package checks

import (
	"fmt"
	"math/rand"
	"sort"
	"strings"
	"sync"
	"time"

	"github.com/anishathalye/porcupine"
	"github.com/enbility/spine-go/api"
	"github.com/enbility/spine-go/model"
	"github.com/enbility/spine-go/util"

	"verifharness/rig"
)

// C08 — subscriptions: exact registry and exactly-once notification fan-out.
//
// Sequential part: one case = one World (local device with the server features S0 [1]/1, S1 [2]/1 and S3 [1,1]/1 of
// the same type - sibling and parent/sub entities reuse the feature number -, S2 [1]/2 of another type, NodeManagement
// as the special-role target, one local client feature as wrong-role target; three peers that announce the *same*
// tree; in every second case a "mute" peer (x_mute.go: every send to it fails) that subscribed to every server
// feature before them) and one history of 10-25 operations out of
// {subscribe, unsubscribe, SetData, UpdateData, remote write, registry read}. A reference registry = set of
// (server feature, peer, client feature) is driven by the same calls with the grant rule of the statement
// evaluated on the harness's own trees; after every operation the result datagram, all taps, the core event
// sink and SubscriptionManager.Subscriptions(peer) of every peer are compared with it.
//
// Foreign device parts (both parts): a share of the requests carries, in the client and/or server address, the device
// of somebody else (another connected peer, the local device, nobody). Whatever the stack answers: exactly one result,
// the entries, ids and fan-out of every OTHER connection unchanged; for the sender's own entry see the assumptions.
//
// Concurrent part: peer goroutines subscribe/unsubscribe, API goroutines publish unique values; the recorded
// history (call/return stamps from rig.Seq, outputs from the taps) is checked with porcupine against a
// set + publish model per server feature.
//
// conc-rmw part (regkit.go, shared with C09): actor goroutines with their own connections toggle their own pairs on a
// registry pre-filled with 50-250 bystander entries; every answer and the registry at the quiescent point after every
// round must be what the acknowledged calls leave (calls on different pairs commute). Aimed at deletes that are
// non-atomic read-modify-write cycles of the whole registry.
//
// dup part (c08_dup.go; plain and race build): 2-4 goroutines send the identical subscribe / delete of ONE peer for ONE pair at
// the same time (over the wire and through the manager API) on a pre-filled registry: exactly one grant / one removal.
//
// Function announcement (seq, conc, dup): how a data function of a server feature is announced with AddFunctionType
// (read+write, read-only, write-only, neither, not at all, announced late) is drawn per case; the fan-out never depends on it.
//
// early part (regkit.go, shared with C09): a peer that subscribes [0]/0 -> local NodeManagement before its own detailed
// discovery reply was processed; life cycle of that entry (duplicate, list, fan-out, delete with and without device
// part, second delete, fresh peers / other peers leaving, own disconnect and reconnect).

func init() {
	rig.Register(&rig.Check{
		ID:    "C08",
		Floor: 600,
		Rule: "sequential case = one World (5 local server features incl. NodeManagement, one of them in the sub-entity [1,1] with the type and feature number of the one in its parent [1]; 1 local client feature; 3 identically numbered peers; " +
			"in every second case a peer without write handler, to which every send fails, is the first subscriber of every server feature) and a seeded history of 10-25 operations " +
			"{subscribe (valid / duplicate / wrong role / wrong type / requested type Generic for concretely typed features / unknown entity / unknown feature / the peer's NodeManagement [0]/0 or a client feature [0]/1 of the device information entity as client, device part omitted in client and/or server address), unsubscribe (present / absent / another peer's pair / unknown), " +
			"a fresh peer that connects and is removed again before it announced anything (registry, events and the fan-out of the local NodeManagement and of one more server feature are judged right after it), " +
			"a re-announcement without reconnect (detailed discovery reply once more, or partial notify lastStateChange=added for the known entity [0], [1] or [1,1]; same addresses, roles and types, in every second one new description texts: registry with ids, events and fan-out unchanged; followed by the same request again - refused -, or the delete of a held pair - granted -, and a fan-out probe), " +
			"a fifth of the requests and a third of the deletes aimed at a pair that another peer holds with a FOREIGN device part in the client and/or server address (client address: the device of another connected peer - preferably the holder of the same-numbered pair -, of the mute peer, of the local device, or of nobody; " +
			"server address: the device of a peer or of nobody), each followed by a SetData on the addressed server feature whose fan-out is judged, " +
			"SetData (with a freshly built object, or - 3 of 5 - with an object the application holds already: the one DataCopy returned or the one it passed to the previous SetData of that function, one list element / pointed-to scalar changed IN PLACE; list values carry the identifiers {1,2} or {1,3}), UpdateData, remote write (a quarter of them aimed at the feature with the same number in the parent / sub / sibling entity of a subscribed one), registry read}; " +
			"every data function of the server features S0-S3 (two per DeviceClassification feature, the list of Identification) is announced per case as read+write (4 of 10), read-only, write-only (2), neither, or not at all (2: AddFunctionType never called; a fifth of the changes of such a function announce it only then, with subscribers present) - the fan-out does not depend on it; remote writes prefer a function announced as writable; non-trivial if it saw at least one grant, one rejection and one fan-out to >= 1 subscriber that was judged. " +
			"Replica oracle: every subscribed remote feature keeps a copy of each function, fed ONLY by the notifications written to its connection and folded with the harness's own restricted-exchange rules on the decoded filters (no filter = replace; delete filter first; partial filter = merge by identifier / into the selected item); after every change the copy must equal the harness's model of the function's data (the operations folded with the same rules). " +
			"concurrent case = 3 peer goroutines x 3-4 subscribe/unsubscribe calls and one publisher goroutine per server feature (1-3 of [1]/1, [1,1]/1, [2]/1; mute first subscriber in every second case; in every third case two fifths of the calls carry a foreign device part, " +
			"mostly the device of a fourth, identically numbered bystander peer that is subscribed to everything and silent during the concurrent phase: its entries and ids must be the same afterwards and every publish must reach it), checked with porcupine; non-trivial if at least one publish reached a subscriber and the check returned Ok or Illegal. " +
			"rmw case (shared with C09, regkit.go) = a registry pre-filled with 50-250 entries of a silent bystander connection on as many server features; 3-4 actor goroutines, each with its own connection and its own 1-2 (client, server feature) pairs, " +
			"toggle subscribe / unsubscribe (now and then a repeated call) for 6 (thorough 12) rounds of 8-16 calls each; every call's answer must be the one its own pair's history demands (calls on different pairs commute), and at the quiescent point after every round " +
			"SubscriptionsOnFeature, Subscriptions(peer) with ids, one nodeManagementSubscriptionData read, the bystander's entries and the add/remove events must equal what the acknowledged calls leave; non-trivial if in some round a call overlapped an acknowledged delete of another connection (call/return stamps). " +
			"dup case (c08_dup.go) = requests of ONE peer for ONE AND THE SAME pair that overlap: 1-16 local entities x 12 server features, a registry pre-filled with 0-200 entries of 1-2 bystander connections and of the actor (same client on other servers, other clients and the bystanders' same-numbered clients on the duelled server); " +
			"12 (thorough 32; race build 8 / 16) rounds in which 2-4 goroutines, released together, send the identical subscribe or the identical delete (a sixth of the rounds: a mix; a quarter: spread over two neighbouring pairs) for the actor's pair X or Y, each over the wire (marshalled call on the actor's connection; a fifth without the device part in the client address) or through SubscriptionManager.AddSubscription / RemoveSubscription " +
			"(the manager calls of a round share a device object whose answers - Ski, Address, FeatureByAddress, Entity - are bounded rendezvous points: they align the callers in front of the manager's lock and let a second caller into a check that is not one critical section with its modification; a rendezvous that finds no partner expires once per round); " +
			"judged per round: one result per wire call; an absent pair is granted exactly once and a present one never, a present pair is removed exactly once and an absent one never, the calls and the registry afterwards linearize against a register model per pair (porcupine); add/remove events = granted requests / successful deletes; Subscriptions(actor) = its other entries + the present pairs, each once, distinct ids; the bystanders' entries and ids untouched; " +
			"one SetData on the duelled server feature (function announced as drawn above) = exactly one notification per entry on its own connection; non-trivial if the case had a subscribe duel for an absent pair and a delete duel for a present pair whose calls overlapped (call/return stamps). " +
			"early case = two announced peers and one that subscribes [0]/0 to the local NodeManagement BEFORE its own discovery reply; 3-6 steps of {discovery reply, the same request again, delete, a fresh peer connects and leaves, an announced peer leaves, registry read}, each followed by a change of the local NodeManagement data, then the subscriber's own disconnect / reconnect; non-trivial if a fan-out was judged. " +
			"distinct = hash of the operation shapes (kinds, features, outcomes) without payload values.",
		Assumptions: []string{
			"message handling and notification sending are synchronous, so the taps are complete when the call into the stack has returned",
			"a request that omits the device part of an address, or whose feature lookup ignores it, is judged by the entity/feature part on the sender's (client) resp. the local (server) tree, as the statement's 'omitted device address' case says",
			"a special-role client feature (the peer's own NodeManagement) is outside the statement: both outcomes of a request that is otherwise justified are accepted, the reference follows the observed one; once acknowledged, the pair is an entry like any other (duplicate rule, delete, fan-out, list)",
			"a requested serverFeatureType Generic is not 'the requested type' of a concretely typed feature: such a request must be refused; nothing is asserted about features whose own type is Generic (none exists in these worlds)",
			"early part: the device part of the CLIENT address in the notifications and list entries of a pair that was acknowledged before the peer's discovery reply may be absent; notifications are attributed by the connection they are written to",
			"a request whose client (server) address names a device other than the sender (the local device): the statement does not say whether that device part is ignored - the stack's feature lookups ignore it - or makes the request invalid. " +
				"If the entity/feature numbers, read on the sender's resp. the local tree, justify the request, both outcomes are accepted for the SENDER's own entry (result, event, registry and fan-out must agree with each other); if they do not, it must be refused; " +
				"in no case may it add, remove or renumber an entry of another connection (pinned tree: requests are served by the numbers; a delete compares the client device literally and is refused; a foreign server device is ignored)",
			"registry reads over the wire that stay unanswered are counted, not judged (that is C01's subject)",
			"a SetData call whose object has the content the feature reports already is not a 'change' (never generated: every call carries a new token); a SetData call with an object that aliases the stored data and was modified in place IS a change of the feature's data through SetData",
			"replica oracle: FeatureLocal.UpdateData without a partial selector announces the complete data under an empty partial filter, also when its own filters were 'delete' only or absent (DESIGN.md D36 row: outside the given properties); a subscriber copy that diverges after UpdateData(delete) or a filter-less UpdateData that removes identifiers is counted as an observation, not a violation, and re-synchronised",
			"whether and how the changed function is announced in the feature's possible operations (AddFunctionType read / write flags, or not announced at all) is not a condition of 'a change of a local server feature's data sends one notification ... to each remote feature currently subscribed': every function of the feature's type holds data that SetData / UpdateData change",
			"dup part: requests of one peer for one pair may overlap - the registry calls are exported API that take the remote device as a parameter, and SHIP delivers the messages buffered during its handshake from another goroutine than its reader; 'granted exactly when ... not subscribed already' and 'fails if it does not exist' then mean: the answers and the registry have an order in which each call is answered by the registry state it meets (linearizability per pair)",
			"concurrent part: one publisher goroutine per server feature (two overlapping SetData calls on one function may legitimately both notify the later value)",
			"'each remote feature currently subscribed' includes those whose entry follows that of a peer with a broken connection: the mute peer (SetupRemoteDevice with a nil writer) is not observed itself (no tap, not in the compared registries), only its effect on the others",
		},
		Parts: []rig.Part{
			{Name: "seq", Cases: func(t rig.Tier) int { return map[rig.Tier]int{rig.Quick: 1200, rig.Thorough: 48000}[t] }, Run: c08Seq, Procs: 2},
			{Name: "conc", Cases: func(t rig.Tier) int { return map[rig.Tier]int{rig.Quick: 900, rig.Thorough: 30000}[t] }, Run: c08Conc, Procs: 4, Quiet: 90 * time.Second},
			{Name: "conc-race", Race: true, Cases: func(t rig.Tier) int { return map[rig.Tier]int{rig.Quick: 240, rig.Thorough: 4800}[t] }, Run: c08Conc, Procs: 4, Quiet: 120 * time.Second},
			{Name: "conc-rmw", Cases: func(t rig.Tier) int { return map[rig.Tier]int{rig.Quick: 24, rig.Thorough: 600}[t] }, Run: func(c *rig.Ctx) { rkRmwCase(c, c08RegKind) }, Procs: 4, Quiet: 120 * time.Second},
			{Name: "dup", Cases: func(t rig.Tier) int { return map[rig.Tier]int{rig.Quick: 48, rig.Thorough: 1600}[t] }, Run: c08Dup, Procs: 4, Quiet: 120 * time.Second},
			{Name: "dup-race", Race: true, Cases: func(t rig.Tier) int { return map[rig.Tier]int{rig.Quick: 8, rig.Thorough: 240}[t] }, Run: c08Dup, Procs: 4, Quiet: 150 * time.Second},
			{Name: "early", Cases: func(t rig.Tier) int { return map[rig.Tier]int{rig.Quick: 160, rig.Thorough: 4000}[t] }, Run: func(c *rig.Ctx) { rkEarlyCase(c, c08RegKind) }, Procs: 2},
		},
	})
}

// c08RegKind: the subscription registry as seen by the shared "rmw" part (regkit.go).
var c08RegKind = rkRegKind{
	name: "subscription", exclusive: false, evType: api.EventTypeSubscriptionChange,
	add: func(p *rig.Peer, ca, sa *model.FeatureAddressType, t model.FeatureTypeType) model.MsgCounterType {
		return p.Subscribe(ca, sa, t)
	},
	del: func(p *rig.Peer, ca, sa *model.FeatureAddressType) model.MsgCounterType { return p.Unsubscribe(ca, sa) },
	onFeature: func(w *rig.World, sa model.FeatureAddressType) []string {
		var ks []string
		for _, en := range w.Local.SubscriptionManager().SubscriptionsOnFeature(sa) {
			ks = append(ks, rkFeatKey(en.ClientFeature))
		}
		sort.Strings(ks)
		return ks
	},
	ofPeer: func(w *rig.World, p *rig.Peer) []string {
		var es []string
		for _, en := range w.Local.SubscriptionManager().Subscriptions(p.RD) {
			es = append(es, fmt.Sprintf("#%d %s>%s", en.Id, rkFeatKey(en.ClientFeature), rkFeatKey(en.ServerFeature)))
		}
		sort.Strings(es)
		return es
	},
	has: func(w *rig.World, sa, ca *model.FeatureAddressType) (bool, bool) { return false, false },
	readCmd: func() model.CmdType {
		return model.CmdType{NodeManagementSubscriptionData: &model.NodeManagementSubscriptionDataType{}}
	},
	readBack: func(cmd model.CmdType) ([]string, bool) {
		if cmd.NodeManagementSubscriptionData == nil {
			return nil, false
		}
		var ps []string
		for _, en := range cmd.NodeManagementSubscriptionData.SubscriptionEntry {
			ps = append(ps, rkKey(en.ClientAddress)+">"+rkKey(en.ServerAddress))
		}
		return ps, true
	},
}

// ---------------------------------------------------------------------------
// world

var c08PeerFeats = []rkPeerFeat{
	{Name: "nm", Ent: []uint{0}, Id: 0, Typ: model.FeatureTypeTypeNodeManagement, Role: model.RoleTypeSpecial},
	{Name: "a", Ent: []uint{1}, Id: 1, Typ: model.FeatureTypeTypeDeviceClassification, Role: model.RoleTypeClient},
	{Name: "b", Ent: []uint{1, 1}, Id: 1, Typ: model.FeatureTypeTypeDeviceClassification, Role: model.RoleTypeClient},
	{Name: "c", Ent: []uint{1}, Id: 2, Typ: model.FeatureTypeTypeIdentification, Role: model.RoleTypeClient},
	{Name: "d", Ent: []uint{1}, Id: 3, Typ: model.FeatureTypeTypeDeviceClassification, Role: model.RoleTypeServer},
	{Name: "e", Ent: []uint{1}, Id: 4, Typ: model.FeatureTypeTypeNodeManagement, Role: model.RoleTypeClient},
	{Name: "f", Ent: []uint{1}, Id: 5, Typ: model.FeatureTypeTypeMeasurement, Role: model.RoleTypeClient},
	// a client feature in the device information entity [0], next to the peer's NodeManagement [0]/0 (appended: c08Conc and
	// c09Duel pick their clients by index)
	{Name: "g", Ent: []uint{0}, Id: 1, Typ: model.FeatureTypeTypeDeviceClassification, Role: model.RoleTypeClient},
}

type c08Entry struct {
	peer     int
	cli, srv string // names
}

func (e c08Entry) key() string { return fmt.Sprintf("p%d|%s|%s", e.peer, e.cli, e.srv) }

type c08World struct {
	w       *rig.World
	locals  map[string]*rkLocalFeat // by name: S0 S1 S2 NM LC
	byShort map[string]*rkLocalFeat // by [ent]/id
	pfeat   map[string]rkPeerFeat   // by name
	pShort  map[string]rkPeerFeat   // by [ent]/id
	subs    map[string]c08Entry     // reference registry
	holder  map[string]c08Entry     // server name -> binding holder (for remote writes)
	val     int
	mute    *rig.Peer // first subscriber of every server feature, its connection cannot send (nil: none)
	muteErr string
	ann     map[string]string // "server.function" -> how the function was announced (c08AnnClasses); only filled by newC08WorldVaried
}

// c08AnnClasses: how a function of a local server feature is announced with AddFunctionType(fn, read, write). The
// statement speaks of "a change of a local server feature's data": whether and how the changed function is announced in
// the feature's possible operations is not a condition of the fan-out. "unannounced" = AddFunctionType is never called
// (the feature holds data for every function of its type all the same).
var c08AnnClasses = []string{"read+write", "read+write", "read+write", "read+write", "read-only", "write-only", "write-only", "neither", "unannounced", "unannounced"}

func c08Announce(f api.FeatureLocalInterface, fn model.FunctionType, class string) {
	switch class {
	case "read+write":
		f.AddFunctionType(fn, true, true)
	case "read-only":
		f.AddFunctionType(fn, true, false)
	case "write-only":
		f.AddFunctionType(fn, false, true)
	case "neither":
		f.AddFunctionType(fn, false, false)
	}
}

func c08Writable(class string) bool { return class == "read+write" || class == "write-only" }

// c08Twins: server features that carry the same feature number in the parent, sub or sibling entity.
var c08Twins = map[string][]string{"S0": {"S3", "S3", "S1"}, "S3": {"S0", "S0", "S1"}, "S1": {"S0", "S3"}}

func (cw *c08World) dropMute() {
	if cw.mute != nil {
		cw.w.Local.RemoveRemoteDeviceConnection(cw.mute.Ski)
	}
}

// newC08World: every data function is announced the way applications usually do (readable; UserData and the list writable).
// C09 builds on this world too.
func newC08World(c *rig.Ctx) *c08World { return newC08WorldOpt(c, false) }

// newC08WorldVaried draws, per (server feature, function), how the function is announced (c08AnnClasses, from c.Rand) and
// gives S1 the second function of its type as well.
func newC08WorldVaried(c *rig.Ctx) *c08World { return newC08WorldOpt(c, true) }

func newC08WorldOpt(c *rig.Ctx, varied bool) *c08World {
	cw := &c08World{w: rig.NewWorld(c.Tag()), locals: map[string]*rkLocalFeat{}, byShort: map[string]*rkLocalFeat{}, pfeat: map[string]rkPeerFeat{},
		pShort: map[string]rkPeerFeat{}, subs: map[string]c08Entry{}, holder: map[string]c08Entry{}, ann: map[string]string{}}
	w := cw.w
	e1 := w.AddEntity(model.EntityTypeTypeCEM, []uint{1}, 4*time.Second)
	e2 := w.AddEntity(model.EntityTypeTypeCEM, []uint{2}, 4*time.Second)
	e11 := w.AddEntity(model.EntityTypeTypeEV, []uint{1, 1}, 4*time.Second)
	add := func(name string, f api.FeatureLocalInterface, fns ...model.FunctionType) {
		l := &rkLocalFeat{Name: name, F: f, Typ: f.Type(), Role: f.Role(), Fns: fns}
		cw.locals[name] = l
		a := f.Address()
		cw.byShort[rkEnt(a.Entity)+"/"+fmt.Sprint(uint(*a.Feature))] = l
		if varied && name != "NM" { // the library announces the functions of NodeManagement itself
			for _, fn := range fns {
				class := c08AnnClasses[c.Rand.Intn(len(c08AnnClasses))]
				cw.ann[name+"."+string(fn)] = class
				c08Announce(f, fn, class)
			}
		}
	}
	s0 := e1.GetOrAddFeature(model.FeatureTypeTypeDeviceClassification, model.RoleTypeServer)
	s2 := e1.GetOrAddFeature(model.FeatureTypeTypeIdentification, model.RoleTypeServer)
	lc := e1.GetOrAddFeature(model.FeatureTypeTypeMeasurement, model.RoleTypeClient)
	s1 := e2.GetOrAddFeature(model.FeatureTypeTypeDeviceClassification, model.RoleTypeServer)
	// the sub-entity [1,1] restarts the feature numbering: S3 is [1,1]/1 as S0 is [1]/1
	s3 := e11.GetOrAddFeature(model.FeatureTypeTypeDeviceClassification, model.RoleTypeServer)
	if !varied {
		s0.AddFunctionType(model.FunctionTypeDeviceClassificationUserData, true, true)
		s0.AddFunctionType(model.FunctionTypeDeviceClassificationManufacturerData, true, false)
		s2.AddFunctionType(model.FunctionTypeIdentificationListData, true, true)
		s1.AddFunctionType(model.FunctionTypeDeviceClassificationUserData, true, true)
		s3.AddFunctionType(model.FunctionTypeDeviceClassificationUserData, true, true)
		s3.AddFunctionType(model.FunctionTypeDeviceClassificationManufacturerData, true, false)
	}
	add("S0", s0, model.FunctionTypeDeviceClassificationUserData, model.FunctionTypeDeviceClassificationManufacturerData)
	add("S2", s2, model.FunctionTypeIdentificationListData)
	add("LC", lc)
	if varied {
		add("S1", s1, model.FunctionTypeDeviceClassificationUserData, model.FunctionTypeDeviceClassificationManufacturerData)
	} else {
		add("S1", s1, model.FunctionTypeDeviceClassificationUserData)
	}
	add("S3", s3, model.FunctionTypeDeviceClassificationUserData, model.FunctionTypeDeviceClassificationManufacturerData)
	add("NM", w.Local.NodeManagement(), model.FunctionTypeNodeManagementUseCaseData)
	for _, f := range c08PeerFeats {
		cw.pfeat[f.Name] = f
		cw.pShort[rkShort(f.Ent, f.Id)] = f
	}
	for i := 0; i < 3; i++ {
		p := w.AddPeer(i)
		p.Ctr = uint64(i+1) * 100000
		p.Announce(rkAnnounceList(c08PeerFeats))
		p.Tap.Take()
	}
	if c.Index%2 == 1 {
		cw.mute = addMutePeer(w, 0)
		var subs []muteSub
		for _, srv := range []string{"S0", "S1", "S2", "S3", "NM"} {
			cli := cw.compatibleClients(srv)[0]
			subs = append(subs, muteSub{cw.cliAddr(cw.mute, cli), cw.srvAddr(srv), cw.locals[srv].Typ})
		}
		cw.muteErr = muteSubscribeFirst(w, cw.mute, rkAnnounceList(c08PeerFeats), subs)
	}
	w.Core.Take()
	return cw
}

func (cw *c08World) srvAddr(name string) *model.FeatureAddressType {
	switch name {
	case "unkEnt":
		return rig.FA(rig.LocalAddr, []uint{7}, 1)
	case "unkFeat":
		return rig.FA(rig.LocalAddr, []uint{1}, 99)
	case "unkSub": // an entity below the existing sub-entity, feature number of its ancestors' features
		return rig.FA(rig.LocalAddr, []uint{1, 1, 1}, 1)
	}
	a := *cw.locals[name].F.Address()
	return &a
}

func (cw *c08World) cliAddr(p *rig.Peer, name string) *model.FeatureAddressType {
	switch name {
	case "unkEnt":
		return rig.FA(p.Addr, []uint{7}, 1)
	case "unkFeat":
		return rig.FA(p.Addr, []uint{1}, 99)
	}
	return cw.pfeat[name].Addr(p, true)
}

// expectGrant evaluates the statement's conjunction on the harness's own trees.
// verdict: "grant", "reject" or "either" (statement silent); reason names the first failing clause.
func (cw *c08World) expectGrant(peer int, cli, srv string, typ model.FeatureTypeType) (verdict, reason string) {
	s, ok := cw.locals[srv]
	if !ok {
		return "reject", "unknown-server"
	}
	if s.Role != model.RoleTypeServer && s.Role != model.RoleTypeSpecial {
		return "reject", "server-role"
	}
	if s.Typ != typ {
		return "reject", "server-type"
	}
	f, ok := cw.pfeat[cli]
	if !ok {
		return "reject", "unknown-client"
	}
	if f.Typ != typ {
		return "reject", "client-type"
	}
	if f.Role == model.RoleTypeServer {
		return "reject", "client-role"
	}
	if _, dup := cw.subs[c08Entry{peer, cli, srv}.key()]; dup {
		return "reject", "duplicate"
	}
	if f.Role == model.RoleTypeSpecial {
		return "either", "special-role-client"
	}
	return "grant", "valid"
}

func (cw *c08World) compatibleClients(srv string) []string {
	switch cw.locals[srv].Typ {
	case model.FeatureTypeTypeDeviceClassification:
		return []string{"a", "b", "a", "b", "g"}
	case model.FeatureTypeTypeIdentification:
		return []string{"c"}
	case model.FeatureTypeTypeNodeManagement:
		return []string{"e", "e", "e", "nm"}
	}
	return nil
}

// c08Foreign replaces the device part of the client and/or the server address of a registry request by a device
// the address does not belong to. Client address: the device of another connected peer (peer `prefer` when
// >= 0: the peer that holds the same-numbered pair), the local device, one of `extra` (the mute peer) or a device
// nobody has. Server address: the device of a connected peer (the sender's own included) or a device nobody has.
// dim names which address was changed, tag is its short form for reasons, desc renders the devices.
func c08Foreign(r *rand.Rand, w *rig.World, pi, prefer int, extra []string, ca, sa *model.FeatureAddressType) (nca, nsa *model.FeatureAddressType, dim, tag, desc string) {
	which := r.Intn(20)
	nca, nsa = ca, sa
	with := func(a *model.FeatureAddressType, dev string) *model.FeatureAddressType {
		c := *a
		c.Device = util.Ptr(model.AddressDeviceType(dev))
		return &c
	}
	if which < 15 { // client address
		dev, cls := "", ""
		switch k := r.Intn(20); {
		case k < 13:
			q := (pi + 1 + r.Intn(len(w.Peers)-1)) % len(w.Peers)
			if prefer >= 0 && prefer != pi && r.Intn(4) > 0 {
				q = prefer
			}
			dev, cls = w.Peers[q].Addr, "peer"
		case k < 15 && len(extra) > 0:
			dev, cls = extra[r.Intn(len(extra))], "mute-peer"
		case k < 17:
			dev, cls = rig.LocalAddr, "local"
		default:
			dev, cls = "nowhere", "unknown"
		}
		nca = with(ca, dev)
		dim, tag, desc = "foreign-client-device", "foreign-cdev", "cdev="+cls
	}
	if which >= 12 { // server address (12..14: both)
		dev, cls := "nowhere", "unknown"
		if r.Intn(4) > 0 {
			q := r.Intn(len(w.Peers))
			dev, cls = w.Peers[q].Addr, "peer"
			if q == pi {
				cls = "sender"
			}
		}
		nsa = with(sa, dev)
		if dim == "" {
			dim, tag, desc = "foreign-server-device", "foreign-sdev", "sdev="+cls
		} else {
			dim, tag, desc = "foreign-client-and-server-device", "foreign-csdev", desc+",sdev="+cls
		}
	}
	return
}

// c08CountForeign records what the stack did with a request that carried a foreign device part (calibration evidence).
func c08CountForeign(c *rig.Ctx, what, ftag, fdesc string, justified, otherHolds, accepted bool) {
	k := "foreign-device:" + what + ":" + ftag
	if justified {
		k += ":sender's-numbers-justify-it"
	} else {
		k += ":sender's-numbers-do-not-justify-it"
	}
	if otherHolds {
		k += ":another-peer-holds-that-pair"
	}
	if accepted {
		k += " -> accepted"
	} else {
		k += " -> refused"
	}
	c.Count(k, 1)
	for _, d := range strings.Split(fdesc, ",") {
		c.Count("foreign-device:"+strings.NewReplacer("cdev=", "client-address-names:", "sdev=", "server-address-names:").Replace(d), 1)
	}
	c.Count("foreign_device_requests_judged", 1)
}

// c08RegSnap renders the subscription entries (with their ids) of every connection but that of peer pi.
func (cw *c08World) regSnapOthers(pi int) map[string]string {
	snap := map[string]string{}
	one := func(name string, p *rig.Peer) {
		var es []string
		for _, en := range cw.w.Local.SubscriptionManager().Subscriptions(p.RD) {
			es = append(es, fmt.Sprintf("#%d %s>%s", en.Id, rkFeatKey(en.ClientFeature), rkFeatKey(en.ServerFeature)))
		}
		sort.Strings(es)
		snap[name] = strings.Join(es, " ")
	}
	for qi, q := range cw.w.Peers {
		if qi != pi {
			one(fmt.Sprintf("peer %d", qi), q)
		}
	}
	if cw.mute != nil {
		one("the mute peer", cw.mute)
	}
	return snap
}

// c08SnapDiff names how the entries of other connections changed: "" if they did not.
func c08SnapDiff(before, after map[string]string) (how, detail string) {
	for _, k := range rkSortedKeys(before) {
		b, a := before[k], after[k]
		if a == b {
			continue
		}
		nb, na := len(strings.Fields(b)), len(strings.Fields(a))
		switch {
		case na < nb:
			how = "removes-entry-of-other-peer"
		case na > nb:
			how = "creates-entry-for-other-peer"
		default:
			how = "changes-entry-of-other-peer"
		}
		detail += fmt.Sprintf("%s: {%s} -> {%s}; ", k, b, a)
	}
	return
}

func rkSortedKeys(m map[string]string) []string {
	var ks []string
	for k := range m {
		ks = append(ks, k)
	}
	sort.Strings(ks)
	return ks
}

// otherHolder returns a peer other than pi that holds the subscription (cli, srv) in the reference (lowest index), or -1.
func (cw *c08World) otherHolder(pi int, cli, srv string) int {
	for q := range cw.w.Peers {
		if _, ok := cw.subs[c08Entry{q, cli, srv}.key()]; ok && q != pi {
			return q
		}
	}
	return -1
}

func (cw *c08World) muteDevs() []string {
	if cw.mute != nil {
		return []string{cw.mute.Addr}
	}
	return nil
}

func (cw *c08World) entriesOfPeer(peer int) []c08Entry {
	var es []c08Entry
	for _, e := range cw.subs {
		if e.peer == peer {
			es = append(es, e)
		}
	}
	sort.Slice(es, func(i, j int) bool { return es[i].key() < es[j].key() })
	return es
}

func (cw *c08World) entriesOnServer(srv string) []c08Entry {
	var es []c08Entry
	for _, e := range cw.subs {
		if e.srv == srv {
			es = append(es, e)
		}
	}
	sort.Slice(es, func(i, j int) bool { return es[i].key() < es[j].key() })
	return es
}

// ---------------------------------------------------------------------------
// sequential part

func c08Seq(c *rig.Ctx) {
	cw := newC08WorldVaried(c)
	w := cw.w
	defer w.Close()
	defer cw.dropMute()
	if cw.muteErr != "" {
		c.Inconclusive("setup of the mute peer: %s", cw.muteErr)
		return
	}
	r := c.Rand
	var hist, shape []string
	log := func(format string, a ...any) { hist = append(hist, fmt.Sprintf(format, a...)) }
	fail := func(sig, format string, a ...any) {
		c.Violate(sig, "%s\n history:\n  %s", fmt.Sprintf(format, a...), strings.Join(hist, "\n  "))
	}
	grants, rejects, fanouts, fresh, reann := 0, 0, 0, 0, 0
	servers := []string{"S0", "S1", "S2", "S3", "NM"}
	kept := map[string]any{} // "server.function" -> the object the application passed to its last SetData call
	// replica oracle: exp = the harness's own model of every function's data (what the operations so far leave, folded with
	// the harness's rules); replicas = the copy each subscribed remote feature keeps, fed ONLY by the notifications it
	// receives (folded with the same rules on the decoded filters). After every change each subscriber's copy must be the
	// changed function's data.
	exp := map[string]any{}
	replicas := map[string]any{}
	if cw.mute != nil {
		hist = append(hist, "peer 'mute0' (its connection has no write handler) subscribed to S0, S1, S2, S3 and NM before everybody else")
		c.Count("cases_with_a_mute_first_subscriber", 1)
	}

	{
		var as []string
		for _, k := range rkSortedKeys(cw.ann) {
			as = append(as, k+"="+cw.ann[k])
			c.Count("functions_announced_as:"+cw.ann[k], 1)
		}
		hist = append(hist, "functions of the local server features announced with AddFunctionType as: "+strings.Join(as, ", "))
	}

	takeAll := func() [][]model.DatagramType {
		outs := make([][]model.DatagramType, len(w.Peers))
		for i, p := range w.Peers {
			outs[i] = p.Tap.Take()
		}
		return outs
	}

	// the request's own result, nothing else on any tap
	judgeResult := func(what string, pi int, mc model.MsgCounterType, outs [][]model.DatagramType, wantOK string) (granted bool) {
		ok, bad, rest := rkResultOf(outs[pi], mc)
		c.Events(int64(ok + bad))
		switch {
		case ok+bad != 1:
			fail(what+"/result-count", "%s: %d success and %d other responses (want exactly one result)", what, ok, bad)
		case wantOK == "grant" && ok != 1:
			fail(what+"/valid-request-rejected", "%s: the reference grants this request, the stack answered with an error: %s", what, rig.JS(outs[pi]))
		case wantOK == "reject" && ok == 1:
			fail(what+"/invalid-request-granted", "%s: the reference rejects this request, the stack acknowledged it", what)
		}
		for qi, o := range outs {
			extra := o
			if qi == pi {
				extra = rest
			}
			if len(extra) > 0 {
				fail(what+"/unexpected-datagram", "%s: peer %d received %s", what, qi, rig.JS(extra))
			}
		}
		return ok == 1
	}

	// events of a registry operation
	judgeEvents := func(what string, change api.ElementChangeType, want bool, pi int, cliKey, srvKey string) {
		evs := w.Core.Take()
		var got []rig.Ev
		for _, e := range evs {
			if e.P.EventType == api.EventTypeSubscriptionChange {
				got = append(got, e)
			}
		}
		c.Events(int64(len(got)))
		n := 0
		if want {
			n = 1
		}
		if len(got) != n {
			var ss []string
			for _, e := range got {
				ss = append(ss, e.String())
			}
			sig := what + "/event-missing"
			if len(got) > n {
				sig = what + "/event-unexpected"
			}
			fail(sig, "%s: %d subscription change events, want %d: %v", what, len(got), n, ss)
			return
		}
		if want {
			e := got[0]
			if e.P.ChangeType != change || e.P.Ski != w.Peers[pi].Ski || rkFeatKey(e.P.Feature) != cliKey || rkFeatKey(e.P.LocalFeature) != srvKey {
				fail(what+"/event-content", "%s: event %s does not describe (ski %s, client %s, server %s, change %d)", what, e.String(), w.Peers[pi].Ski, cliKey, srvKey, change)
			}
		}
	}

	// Subscriptions(peer) of every peer equals the reference
	judgeRegistry := func(what string) {
		for qi, q := range w.Peers {
			want := map[string]bool{}
			for _, e := range cw.entriesOfPeer(qi) {
				want[cw.pfeat[e.cli].Key(q)+">"+cw.locals[e.srv].Key()] = true
			}
			got := map[string]bool{}
			ids := map[uint64]bool{}
			entries := w.Local.SubscriptionManager().Subscriptions(q.RD)
			for _, en := range entries {
				got[rkFeatKey(en.ClientFeature)+">"+rkFeatKey(en.ServerFeature)] = true
				ids[en.Id] = true
			}
			c.Events(1)
			if fmt.Sprint(rkSorted(want)) != fmt.Sprint(rkSorted(got)) || len(got) != len(entries) {
				sig := "registry/entry-missing"
				for k := range got {
					if !want[k] {
						sig = "registry/foreign-or-stale-entry"
					}
				}
				if len(got) != len(entries) {
					sig = "registry/entry-listed-twice"
				}
				fail(what+"/"+sig, "after %s: Subscriptions(peer %d) = %v (%d entries), reference %v", what, qi, rkSorted(got), len(entries), rkSorted(want))
			} else if len(ids) != len(entries) {
				fail(what+"/registry/ids-not-distinct", "after %s: Subscriptions(peer %d) has %d entries with %d distinct ids", what, qi, len(entries), len(ids))
			}
		}
	}

	// fan-out of one data change on server feature srv, function fn, marker v; exempt = datagrams that belong to the request itself
	judgeFanout := func(what, srv string, fn model.FunctionType, v int, changed bool, outs [][]model.DatagramType, newExp any) {
		l := cw.locals[srv]
		after := l.F.DataCopy(fn)
		subsHere := cw.entriesOnServer(srv)
		ek := srv + "." + string(fn)
		rkOf := func(e c08Entry) string { return e.key() + "|" + string(fn) }
		notModelled := map[string]bool{}
		if changed {
			for qi, q := range w.Peers {
				ns, _ := rkNotifies(outs[qi])
				for _, n := range ns {
					if n.Fn != fn || len(n.Raw.Payload.Cmd) != 1 {
						continue
					}
					for _, e := range subsHere {
						if e.peer != qi || cw.pfeat[e.cli].Key(q) != n.Dst {
							continue
						}
						if _, ok := replicas[rkOf(e)]; !ok {
							replicas[rkOf(e)] = rkClone(exp[ek]) // subscribed since the last change: it holds what a read at that time returned
						}
						out, shape, modelled := rkReplicaApply(fn, replicas[rkOf(e)], n.Value, n.Raw.Payload.Cmd[0].Filter)
						c.Count("notify_filters:"+what+":"+shape, 1)
						if modelled {
							replicas[rkOf(e)] = out
						} else {
							notModelled[rkOf(e)] = true
						}
					}
				}
			}
			exp[ek] = newExp
			if rig.CanonAny(exp[ek]) != rig.CanonAny(after) {
				// what the operation itself does to the data is C02's and C04's subject: follow the stack
				c.Count("replica:harness_model_of_the_data_differs_from_DataCopy:"+what, 1)
				exp[ek] = rkClone(after)
			}
		}
		for qi, q := range w.Peers {
			ns, _ := rkNotifies(outs[qi])
			c.Events(int64(len(ns)))
			wantDst := map[string]int{}
			if changed {
				for _, e := range subsHere {
					if e.peer == qi {
						wantDst[cw.pfeat[e.cli].Key(q)]++
					}
				}
			}
			gotDst := map[string]int{}
			for _, n := range ns {
				gotDst[n.Dst]++
				if !changed {
					continue
				}
				if n.Src != l.Key() {
					fail(what+"/fanout/wrong-source", "%s on %s: notify to peer %d comes from %s", what, l.Key(), qi, n.Src)
				}
				if n.Fn != fn {
					fail(what+"/fanout/wrong-function", "%s of %s: notify to peer %d is recognised as %q: %s", what, fn, qi, n.Fn, rig.JS(n.Raw.Payload))
				} else if rig.CanonAny(n.Value) != rig.CanonAny(after) {
					fail(what+"/fanout/wrong-data", "%s of %s: notify to peer %d carries %s, the function data is %s", what, fn, qi, rig.JS(n.Value), rig.JS(after))
				} else if v > 0 && !rkHas(n.Value, v) {
					fail(what+"/fanout/stale-data", "%s of %s: notify to peer %d does not carry the value just written (%s): %s", what, fn, qi, rkToken(v), rig.JS(n.Value))
				}
			}
			for dst, n := range wantDst {
				switch g := gotDst[dst]; {
				case g == 0:
					fail(what+"/fanout/missing-notify", "%s on %s (%s): subscriber %s of peer %d received no notify; reference subscribers %v; peer's tap: %s", what, srv, fn, dst, qi, subsHere, rig.JS(outs[qi]))
				case g > n:
					fail(what+"/fanout/duplicate-notify", "%s on %s (%s): subscriber %s of peer %d received %d notifies", what, srv, fn, dst, qi, g)
				}
			}
			for dst, g := range gotDst {
				if wantDst[dst] == 0 {
					sig := what + "/fanout/notify-to-non-subscriber"
					if !changed {
						sig = what + "/fanout/notify-without-change"
					}
					fail(sig, "%s on %s (%s): %s of peer %d received %d notifies but is not subscribed to that feature; reference subscribers %v", what, srv, fn, dst, qi, g, subsHere)
				}
			}
		}
		if changed && !c.Failed() {
			live := map[string]bool{}
			for _, e := range subsHere {
				live[rkOf(e)] = true
				rep, ok := replicas[rkOf(e)]
				if !ok {
					continue
				}
				c.Events(1)
				switch {
				case notModelled[rkOf(e)]:
					c.Count("replica:notify_with_filters_the_harness_rules_do_not_cover:"+what, 1)
					replicas[rkOf(e)] = rkClone(exp[ek])
				case rig.CanonAny(rep) == rig.CanonAny(exp[ek]):
					c.Count("replica:subscriber_copy_equals_the_changed_data:"+what, 1)
				case what == "UpdateData" || what == "UpdateData-delete":
					// known observation (DESIGN.md D36 row, outside the given properties): FeatureLocal.UpdateData without a partial
					// selector announces the complete remaining data under an empty partial filter - also when its own filters were
					// "delete" or none at all -, so a subscriber that merges by identifier keeps what the server dropped
					c.Count("observation:replica_diverges_after_"+what+"_(complete_data_under_an_empty_partial_filter)", 1)
					replicas[rkOf(e)] = rkClone(exp[ek])
				default:
					fail(what+"/fanout/replica-diverges", "%s of %s on %s: subscriber %s of peer %d folds the notifications it received into %s, the function's data is %s; last notify to that peer: %s",
						what, fn, srv, cw.pfeat[e.cli].Key(w.Peers[e.peer]), e.peer, rig.JS(rep), rig.JS(exp[ek]), rig.JS(outs[e.peer]))
				}
			}
			for k := range replicas { // who is not subscribed while the data changes has to read it again
				if strings.HasSuffix(k, "|"+srv+"|"+string(fn)) && !live[k] {
					delete(replicas, k)
				}
			}
		}
		if changed {
			if cw.mute != nil {
				c.Count("fanouts_judged_behind_a_mute_subscriber", 1)
				c.Count("fanout_notifies_expected_behind_a_mute_subscriber", int64(len(subsHere)))
			}
			if srv == "S0" || srv == "S3" {
				// the parent/sub-entity pair with one feature number: who is subscribed to the other one only?
				other := map[string]string{"S0": "S3", "S3": "S0"}[srv]
				here := map[string]bool{}
				for _, e := range subsHere {
					here[fmt.Sprint(e.peer, e.cli)] = true
				}
				only := 0
				for _, e := range cw.entriesOnServer(other) {
					if !here[fmt.Sprint(e.peer, e.cli)] {
						only++
					}
				}
				if only > 0 {
					c.Count(fmt.Sprintf("nested_fanout:change_on_%s_while_%s_has_subscribers_that_%s_has_not", srv, other, srv), 1)
				}
			}
			fanouts += len(subsHere)
			c.Count("fanout_notifies_expected", int64(len(subsHere)))
			c.Count(fmt.Sprintf("fanout_width_%d", len(subsHere)), 1)
		}
	}

	// after a request that carried a foreign device part: one data change on the addressed server feature, so that
	// "the fan-out of everybody is as the reference says" is asserted right away and not only by a later step
	probeFanout := func(what, srv string) {
		l, ok := cw.locals[srv]
		if !ok || len(l.Fns) == 0 || c.Failed() {
			return
		}
		fn := l.Fns[0]
		cw.val++
		takeAll()
		l.F.SetData(fn, rkPayload(fn, cw.val))
		outs := takeAll()
		log("   SetData %s %s %s (fan-out probe)", srv, fn, rkToken(cw.val))
		judgeFanout(what+"/SetData-after", srv, fn, cw.val, true, outs, rkClone(rkPayload(fn, cw.val)))
		w.Core.Take()
		switch {
		case strings.Contains(what, "foreign"):
			c.Count("foreign_device_fanout_probes", 1)
		case strings.Contains(what, "re-announcement"):
			c.Count("fanout_probes_after_a_re-announcement", 1)
		default:
			c.Count("fanout_probes_after_a_fresh_peer_left", 1)
		}
	}

	nOps := 10 + r.Intn(16)
	pre := r.Intn(6) // the history opens with some valid requests so that data changes meet subscribers
	for step := 0; step < nOps; step++ {
		pi := r.Intn(3)
		p := w.Peers[pi]
		roll := r.Intn(100)
		if step < pre {
			roll = 0
		}
		switch {
		case roll < 36: // ---------------- subscribe
			var cli, srv, kind string
			var typ model.FeatureTypeType
			k := r.Intn(100)
			if step < pre {
				k = 0
			}
			switch {
			case k < 45:
				kind = "valid"
				srv = servers[r.Intn(len(servers))]
				cs := cw.compatibleClients(srv)
				cli = cs[r.Intn(len(cs))]
				typ = cw.locals[srv].Typ
			case k < 58:
				kind = "duplicate"
				es := cw.entriesOfPeer(pi)
				if len(es) == 0 {
					for _, e := range cw.subs { // another peer's pair: identical numbers, must still be granted
						es = append(es, e)
					}
					sort.Slice(es, func(i, j int) bool { return es[i].key() < es[j].key() })
					kind = "same-numbers-as-other-peer"
				}
				if len(es) == 0 {
					srv, cli, kind = "S0", "a", "valid"
				} else {
					e := es[r.Intn(len(es))]
					srv, cli = e.srv, e.cli
				}
				typ = cw.locals[srv].Typ
			case k < 66:
				// the peer's NodeManagement feature [0]/0 as client: towards the local NodeManagement (the standard EEBUS
				// subscription; special-role client, see the assumptions) or towards a server feature of another type
				kind, cli, srv = "nodemanagement-client", "nm", "NM"
				if r.Intn(4) == 0 {
					srv = []string{"S0", "S2", "S3"}[r.Intn(3)]
				}
				typ = cw.locals[srv].Typ
			default:
				switch r.Intn(12) {
				case 10, 11:
					// the requested type is Generic while the addressed server feature (and the client) has a concrete type:
					// that is not "the requested type"
					pr := [][2]string{{"a", "S0"}, {"b", "S3"}, {"a", "S1"}, {"c", "S2"}, {"e", "NM"}, {"g", "S0"}}[r.Intn(6)]
					kind, cli, srv, typ = "generic-type-requested", pr[0], pr[1], model.FeatureTypeTypeGeneric
				case 9:
					kind, cli, srv, typ = "unknown-subentity-server", "a", "unkSub", model.FeatureTypeTypeDeviceClassification
				case 0:
					kind, cli, srv, typ = "wrong-role-server", "f", "LC", model.FeatureTypeTypeMeasurement
				case 1:
					kind, cli, srv, typ = "wrong-role-client", "d", []string{"S0", "S1", "S3"}[r.Intn(3)], model.FeatureTypeTypeDeviceClassification
				case 2:
					kind, cli, srv, typ = "wrong-type-requested", "a", "S0", model.FeatureTypeTypeIdentification
				case 3:
					kind, cli, srv, typ = "wrong-type-client", "c", []string{"S0", "S1", "S3"}[r.Intn(3)], model.FeatureTypeTypeDeviceClassification
				case 4:
					kind, cli, srv, typ = "wrong-type-server", []string{"a", "b"}[r.Intn(2)], "S2", model.FeatureTypeTypeDeviceClassification
				case 5:
					kind, cli, srv, typ = "unknown-entity-server", "a", "unkEnt", model.FeatureTypeTypeDeviceClassification
				case 6:
					kind, cli, srv, typ = "unknown-feature-server", "a", "unkFeat", model.FeatureTypeTypeDeviceClassification
				case 7:
					kind, cli, srv, typ = "unknown-entity-client", "unkEnt", []string{"S0", "S1", "S3"}[r.Intn(3)], model.FeatureTypeTypeDeviceClassification
				default:
					kind, cli, srv, typ = "unknown-feature-client", "unkFeat", []string{"S0", "S1", "S3"}[r.Intn(3)], model.FeatureTypeTypeDeviceClassification
				}
			}
			ca, sa := cw.cliAddr(p, cli), cw.srvAddr(srv)
			omitC, omitS := r.Intn(4) == 0, r.Intn(4) == 0
			fdim, ftag, fdesc := "", "", ""
			if r.Intn(5) == 0 { // a device part that names somebody else
				ca, sa, fdim, ftag, fdesc = c08Foreign(r, w, pi, cw.otherHolder(pi, cli, srv), cw.muteDevs(), ca, sa)
			}
			omit := ""
			if omitC && !strings.Contains(fdim, "client") {
				ca = rkStripDevice(ca)
				omit += "-cdev"
			}
			if omitS && !strings.Contains(fdim, "server") {
				sa = rkStripDevice(sa)
				omit += "-sdev"
			}
			verdict, reason := cw.expectGrant(pi, cli, srv, typ)
			if fdim != "" {
				// the statement does not say whether a foreign device part is ignored (the feature lookups ignore it) or makes
				// the request invalid: a request that the entity/feature numbers justify may be granted (as the sender's own
				// entry) or refused; one that they do not justify must be refused
				if verdict == "grant" {
					verdict = "either"
				}
				reason = ftag + ":" + reason
			}
			what := "subscribe"
			log("#%d subscribe peer%d %s(%s) -> %s(%s) type=%s kind=%s%s %s expect=%s(%s)", step, pi, cli, rkKey(ca), srv, rkKey(sa), typ, kind, omit, fdesc, verdict, reason)
			takeAll()
			w.Core.Take()
			var othersBefore map[string]string
			if fdim != "" {
				othersBefore = cw.regSnapOthers(pi)
			}
			mc := p.Subscribe(ca, sa, typ)
			c.Events(1)
			outs := takeAll()
			if fdim != "" {
				if how, detail := c08SnapDiff(othersBefore, cw.regSnapOthers(pi)); how != "" {
					ok, bad, _ := rkResultOf(outs[pi], mc)
					fail(what+"/"+fdim+"/"+how, "a subscription request of peer %d (%s; answered with %d success and %d error results) changed the entries of another connection: %s", pi, fdesc, ok, bad, detail)
					break // the narrow signature says it all
				}
			}
			granted := judgeResult(what+"/"+reason, pi, mc, outs, verdict)
			hist[len(hist)-1] += fmt.Sprintf(" -> granted=%v", granted)
			if fdim != "" {
				c08CountForeign(c, "subscribe", ftag, fdesc, verdict != "reject", false, granted)
			}
			if granted {
				// follow the stack for the registry so that one deviation is reported once, not at every later step
				if _, ok1 := cw.pfeat[cli]; ok1 {
					if _, ok2 := cw.locals[srv]; ok2 {
						cw.subs[c08Entry{pi, cli, srv}.key()] = c08Entry{pi, cli, srv}
					}
				}
				grants++
			} else {
				rejects++
			}
			cliKey, srvKey := "", ""
			if _, ok := cw.pfeat[cli]; ok {
				cliKey = cw.pfeat[cli].Key(p)
			}
			if l, ok := cw.locals[srv]; ok {
				srvKey = l.Key()
			}
			judgeEvents(what, api.ElementChangeAdd, granted, pi, cliKey, srvKey)
			judgeRegistry(what + "/" + reason)
			if fdim != "" {
				probeFanout(what+"/"+fdim, srv)
			}
			c.Count("subscribe:"+strings.TrimPrefix(reason, ftag+":"), 1)
			if kind == "generic-type-requested" || kind == "nodemanagement-client" {
				c.Count(fmt.Sprintf("subscribe:%s:%s>%s granted=%v", kind, cli, srv, granted), 1)
			}
			if granted && len(cw.pfeat[cli].Ent) == 1 && cw.pfeat[cli].Ent[0] == 0 {
				c.Count("grants_to_a_client_feature_in_entity_[0]", 1)
			}
			if omit != "" {
				c.Count("subscribe:device-omitted"+omit, 1)
			}
			shape = append(shape, fmt.Sprintf("sub:%s:%s>%s%s:%v", reason, cli, srv, omit, granted))

		case roll < 55: // ---------------- unsubscribe
			var cli, srv, kind string
			k := r.Intn(100)
			es := cw.entriesOfPeer(pi)
			var others []c08Entry
			for _, e := range cw.subs {
				if e.peer != pi {
					others = append(others, e)
				}
			}
			sort.Slice(others, func(i, j int) bool { return others[i].key() < others[j].key() })
			switch {
			case k < 62 && len(es) > 0:
				e := es[r.Intn(len(es))]
				kind, cli, srv = "present", e.cli, e.srv
			case k < 80 && len(others) > 0:
				e := others[r.Intn(len(others))]
				kind, cli, srv = "pair-of-other-peer", e.cli, e.srv
			case k < 90:
				kind = "random-pair"
				srv = servers[r.Intn(len(servers))]
				cs := cw.compatibleClients(srv)
				cli = cs[r.Intn(len(cs))]
			default:
				switch r.Intn(4) {
				case 0:
					kind, cli, srv = "unknown-entity-server", "a", "unkEnt"
				case 1:
					kind, cli, srv = "unknown-feature-server", "a", "unkFeat"
				case 2:
					kind, cli, srv = "unknown-entity-client", "unkEnt", "S0"
				default:
					kind, cli, srv = "unknown-feature-client", "unkFeat", "S0"
				}
			}
			ca, sa := cw.cliAddr(p, cli), cw.srvAddr(srv)
			omitC, omitS := r.Intn(3) == 0, r.Intn(3) == 0
			fdim, ftag, fdesc := "", "", ""
			oh := cw.otherHolder(pi, cli, srv)
			if r.Intn(5) == 0 || (oh >= 0 && r.Intn(3) == 0) { // a device part that names somebody else, preferably the peer that holds this pair
				ca, sa, fdim, ftag, fdesc = c08Foreign(r, w, pi, oh, cw.muteDevs(), ca, sa)
			}
			omit := ""
			if omitC && !strings.Contains(fdim, "client") {
				ca = rkStripDevice(ca)
				omit += "-cdev"
			}
			if omitS && !strings.Contains(fdim, "server") {
				sa = rkStripDevice(sa)
				omit += "-sdev"
			}
			ent := c08Entry{pi, cli, srv}
			_, present := cw.subs[ent.key()]
			verdict, reason := "reject", "absent"
			if present {
				verdict, reason = "grant", "present"
			}
			if kind != "present" && !present {
				reason = "absent:" + kind
			}
			if fdim != "" {
				// see subscribe: the sender's own pair may or may not go; a pair the sender does not hold must be refused,
				// whoever the device part names
				if verdict == "grant" {
					verdict = "either"
				}
				reason = ftag + ":" + reason
			}
			what := "unsubscribe"
			log("#%d unsubscribe peer%d %s(%s) -> %s(%s) kind=%s%s %s expect=%s", step, pi, cli, rkKey(ca), srv, rkKey(sa), kind, omit, fdesc, verdict)
			takeAll()
			w.Core.Take()
			var othersBefore map[string]string
			if fdim != "" {
				othersBefore = cw.regSnapOthers(pi)
			}
			mc := p.Unsubscribe(ca, sa)
			c.Events(1)
			outs := takeAll()
			if fdim != "" {
				if how, detail := c08SnapDiff(othersBefore, cw.regSnapOthers(pi)); how != "" {
					ok, bad, _ := rkResultOf(outs[pi], mc)
					fail(what+"/"+fdim+"/"+how, "a subscription delete of peer %d (%s; answered with %d success and %d error results) changed the entries of another connection: %s", pi, fdesc, ok, bad, detail)
					break // the narrow signature says it all
				}
			}
			removed := judgeResult(what+"/"+reason, pi, mc, outs, verdict)
			hist[len(hist)-1] += fmt.Sprintf(" -> removed=%v", removed)
			if fdim != "" {
				c08CountForeign(c, "unsubscribe", ftag, fdesc, verdict != "reject", oh >= 0, removed)
			}
			if removed {
				delete(cw.subs, ent.key())
				grants++
			} else {
				rejects++
			}
			cliKey, srvKey := "", ""
			if f, ok := cw.pfeat[cli]; ok {
				cliKey = f.Key(p)
			}
			if l, ok := cw.locals[srv]; ok {
				srvKey = l.Key()
			}
			judgeEvents(what, api.ElementChangeRemove, removed, pi, cliKey, srvKey)
			judgeRegistry(what + "/" + reason)
			if fdim != "" {
				probeFanout(what+"/"+fdim, srv)
			}
			c.Count("unsubscribe:"+strings.TrimPrefix(reason, ftag+":"), 1)
			if omit != "" {
				c.Count("unsubscribe:device-omitted"+omit, 1)
			}
			shape = append(shape, fmt.Sprintf("unsub:%s:%s>%s%s:%v", reason, cli, srv, omit, removed))

		case roll >= 88 && roll < 93: // ---------------- a fresh peer connects and leaves before it announced anything
			// SetupRemoteDevice creates the connection's device object with its NodeManagement entity [0] (no device address
			// yet, the detailed discovery reply never comes); removing it again concerns nobody else
			fresh++
			ski := fmt.Sprintf("%s-fresh%d", w.Tag, fresh)
			tap := &rig.Tap{}
			takeAll()
			w.Core.Take()
			w.Local.SetupRemoteDevice(ski, tap)
			how := "RemoveRemoteDeviceConnection"
			if r.Intn(3) == 0 {
				how = "RemoveRemoteDevice"
				w.Local.RemoveRemoteDevice(ski)
			} else {
				w.Local.RemoveRemoteDeviceConnection(ski)
			}
			c.Events(1)
			what := "fresh-peer-connect-disconnect"
			nZero := 0
			for _, e := range cw.subs {
				if f := cw.pfeat[e.cli]; len(f.Ent) == 1 && f.Ent[0] == 0 {
					nZero++
				}
			}
			log("#%d a fresh peer connects and is removed (%s) before it announced anything; the reference holds %d entries, %d of them of clients in entity [0]", step, how, len(cw.subs), nZero)
			for qi, o := range takeAll() {
				if len(o) > 0 {
					fail(what+"/unexpected-datagram", "peer %d received %s", qi, rig.JS(o))
				}
			}
			judgeRegistry(what)
			var sev []string
			for _, e := range w.Core.Take() {
				if e.P.EventType == api.EventTypeSubscriptionChange {
					sev = append(sev, e.String())
				}
			}
			c.Events(1)
			if len(sev) > 0 {
				fail(what+"/event-unexpected", "the peer had no subscription, yet %d subscription change events were published: %v", len(sev), sev)
			}
			if nZero > 0 {
				probeFanout(what, "NM")
				c.Count("fresh_peer_removed_while_clients_in_entity_[0]_are_subscribed", 1)
			}
			probeFanout(what, servers[r.Intn(len(servers))])
			c.Count("op:"+what, 1)
			shape = append(shape, fmt.Sprintf("fresh:%s:%d", how, nZero))

		case roll >= 84 && roll < 88: // ---------------- re-announcement without reconnect
			// A peer announces again what it has announced before, with unchanged content: the whole detailed discovery reply
			// or a partial notify lastStateChange=added for a known entity. The stack may rebuild its objects; that is neither
			// a subscribe nor an unsubscribe call: the registry, the ids and the fan-out stay as they are, and a pair that is
			// subscribed already is still "subscribed already".
			how, ent := "reply", []uint(nil)
			if r.Intn(2) == 0 {
				how, ent = "added", [][]uint{{1}, {1, 1}, {0}, {1}}[r.Intn(4)]
			}
			takeAll()
			w.Core.Take()
			regBefore := cw.regSnapOthers(-1)
			// in every second one the features carry a new description text: addresses, roles and types - what makes a
			// feature "the same" - are unchanged
			tree := rkAnnounceList(c08PeerFeats)
			if r.Intn(2) == 0 {
				reann++
				how += "+new-descriptions"
				for i := range tree {
					tree[i].Desc = fmt.Sprintf("revision %d", reann)
				}
			}
			if strings.HasPrefix(how, "reply") {
				p.Announce(tree)
			} else {
				var feats []rig.FS
				for _, f := range tree {
					if fmt.Sprint(f.Ent) == fmt.Sprint(ent) {
						feats = append(feats, f)
					}
				}
				p.NotifyDiscovery(true, p.Discovery(feats, map[string]model.NetworkManagementStateChangeType{fmt.Sprint(ent): model.NetworkManagementStateChangeTypeAdded}, nil))
			}
			c.Events(1)
			what := "re-announcement"
			mine := cw.entriesOfPeer(pi)
			log("#%d peer%d announces itself again (%s %v, same addresses, roles and types); it holds %d entries", step, pi, how, ent, len(mine))
			for qi, o := range takeAll() {
				if ns, _ := rkNotifies(o); len(ns) > 0 {
					fail(what+"/unexpected-notify", "peer %d received %s", qi, rig.JS(ns[0].Raw))
				} else if qi != pi && len(o) > 0 {
					fail(what+"/unexpected-datagram", "peer %d received %s", qi, rig.JS(o))
				}
			}
			if how, detail := c08SnapDiff(regBefore, cw.regSnapOthers(-1)); how != "" {
				fail(what+"/registry-changed", "a re-announcement with unchanged content changed the registry (%s): %s", how, detail)
			}
			judgeRegistry(what)
			var sev []string
			for _, e := range w.Core.Take() {
				if e.P.EventType == api.EventTypeSubscriptionChange {
					sev = append(sev, e.String())
				}
			}
			c.Events(1)
			if len(sev) > 0 {
				fail(what+"/event-unexpected", "nobody subscribed or unsubscribed, yet %d subscription change events were published: %v", len(sev), sev)
			}
			c.Count("op:re-announcement:"+how, 1)
			shape = append(shape, fmt.Sprintf("reann:%s:%v:%d", how, ent, len(mine)))
			if len(mine) > 0 && !c.Failed() {
				e := mine[r.Intn(len(mine))]
				switch r.Intn(3) {
				case 0: // the same request again
					ca, sa := cw.cliAddr(p, e.cli), cw.srvAddr(e.srv)
					log("   peer%d subscribes %s -> %s again", pi, e.cli, e.srv)
					mc := p.Subscribe(ca, sa, cw.locals[e.srv].Typ)
					c.Events(1)
					granted := judgeResult("subscribe/duplicate-after-re-announcement", pi, mc, takeAll(), "reject")
					judgeEvents("subscribe", api.ElementChangeAdd, granted, pi, cw.pfeat[e.cli].Key(p), cw.locals[e.srv].Key())
					if granted {
						rejects-- // keep the books straight: this was no rejection
					}
					rejects++
					c.Count("subscribe:duplicate-after-re-announcement", 1)
				case 1: // the delete still finds the pair
					ca, sa := cw.cliAddr(p, e.cli), cw.srvAddr(e.srv)
					log("   peer%d unsubscribes %s -> %s", pi, e.cli, e.srv)
					mc := p.Unsubscribe(ca, sa)
					c.Events(1)
					removed := judgeResult("unsubscribe/present-after-re-announcement", pi, mc, takeAll(), "grant")
					if removed {
						delete(cw.subs, e.key())
						grants++
					}
					judgeEvents("unsubscribe", api.ElementChangeRemove, removed, pi, cw.pfeat[e.cli].Key(p), cw.locals[e.srv].Key())
					c.Count("unsubscribe:present-after-re-announcement", 1)
				}
				judgeRegistry(what + "/follow-up")
				probeFanout(what, e.srv)
			}

		case roll < 84: // ---------------- data change
			srv := servers[r.Intn(len(servers))]
			if r.Intn(3) > 0 { // prefer a feature that has subscribers
				var busy []string
				for _, s := range servers {
					if len(cw.entriesOnServer(s)) > 0 {
						busy = append(busy, s)
					}
				}
				if len(busy) > 0 {
					srv = busy[r.Intn(len(busy))]
				}
			}
			if r.Intn(4) == 0 {
				// the feature that carries the same number in the parent, sub or sibling entity of a subscribed one:
				// its change must not reach that one's subscribers
				var tw []string
				for _, s := range servers {
					if len(cw.entriesOnServer(s)) > 0 {
						tw = append(tw, c08Twins[s]...)
					}
				}
				if len(tw) > 0 {
					srv = tw[r.Intn(len(tw))]
				}
			}
			if r.Intn(6) == 0 {
				srv = "S2" // the list function: partial and delete updates
			}
			l := cw.locals[srv]
			fn := l.Fns[r.Intn(len(l.Fns))]
			cw.val++
			v := cw.val
			mode := r.Intn(3)
			if srv == "NM" && mode == 2 {
				mode = 0
			}
			if mode == 2 && srv != "NM" && !c08Writable(cw.ann[srv+"."+string(fn)]) && r.Intn(3) > 0 {
				// a remote write needs a function announced as writable: mostly take one (the others are C03's subject; here the
				// oracle follows what the stack does with the write)
				for _, g := range l.Fns {
					if c08Writable(cw.ann[srv+"."+string(g)]) {
						fn = g
					}
				}
			}
			if srv != "NM" && cw.ann[srv+"."+string(fn)] == "unannounced" && r.Intn(5) == 0 {
				// the application announces the function only now, while remote features are subscribed already
				class := c08AnnClasses[r.Intn(8)]
				takeAll()
				c08Announce(l.F, fn, class)
				cw.ann[srv+"."+string(fn)] = class
				log("   AddFunctionType %s %s: announced as %s only now (%d subscribers)", srv, fn, class, len(cw.entriesOnServer(srv)))
				n := 0
				for _, o := range takeAll() {
					n += len(o)
				}
				c.Count(fmt.Sprintf("late_announcement_of_a_function:%s:datagrams_sent=%d", class, n), 1)
			}
			annClass := cw.ann[srv+"."+string(fn)]
			if srv == "NM" {
				annClass = "announced-by-the-library"
			}
			before := rig.CanonAny(l.F.DataCopy(fn))
			takeAll()
			w.Core.Take()
			what := ""
			var outs [][]model.DatagramType
			changed := false
			var newExp any
			ek := srv + "." + string(fn)
			// a complete value: mostly the identifiers {1, 2}, now and then {1, 3} (one element goes, a new one comes)
			full := func() any {
				if alt, ok := rkPayloadAlt(fn, v); ok && r.Intn(3) == 0 {
					c.Count("complete_values_with_another_identifier_set", 1)
					return alt
				}
				return rkPayload(fn, v)
			}
			switch mode {
			case 0:
				what = "SetData"
				// the object handed to SetData: freshly built, or one the application holds already - what DataCopy returned, or
				// what it passed to the previous SetData of this function - with one element changed IN PLACE. Whatever object
				// carries it: the feature's data changes through this SetData call, every subscriber gets one notification.
				obj, reuse := full(), ""
				switch r.Intn(5) {
				case 0, 1:
					if d := l.F.DataCopy(fn); rkMutateInPlace(fn, d, v, r.Intn(2) == 0) {
						obj, reuse = d, "the object returned by DataCopy, one element changed in place"
						what = "SetData-reused-DataCopy-object"
					}
				case 2:
					if d, ok := kept[srv+"."+string(fn)]; ok && rkMutateInPlace(fn, d, v, r.Intn(2) == 0) {
						obj, reuse = d, "the object passed to the previous SetData, one element changed in place"
						what = "SetData-reused-previous-object"
					}
				}
				kept[srv+"."+string(fn)] = obj
				newExp = rkClone(obj)
				log("#%d SetData %s %s %s %s: %s", step, srv, fn, rkToken(v), reuse, rig.JS(obj))
				l.F.SetData(fn, obj)
				outs = takeAll()
				changed = rig.CanonAny(l.F.DataCopy(fn)) != before
				if !changed {
					fail("SetData/no-effect", "SetData(%s, %s) on %s left the data unchanged", fn, rkToken(v), srv)
				}
			case 1:
				what = "UpdateData"
				var errT *model.ErrorType
				if rkIsList(fn) && strings.Contains(rig.JS(l.F.DataCopy(fn)), `"identificationId":2`) && r.Intn(4) == 0 {
					what, v = "UpdateData-delete", 0 // the notify carries the remaining elements, no new value
					log("#%d UpdateData(delete id 2) %s %s", step, srv, fn)
					fd := &model.FilterType{CmdControl: &model.CmdControlType{Delete: &model.ElementTagType{}},
						IdentificationListDataSelectors: &model.IdentificationListDataSelectorsType{IdentificationId: util.Ptr(model.IdentificationIdType(2))}}
					newExp, _, _ = rkReplicaApply(fn, exp[ek], &model.IdentificationListDataType{}, []model.FilterType{*fd})
					errT = l.F.UpdateData(fn, &model.IdentificationListDataType{}, nil, fd)
				} else if rkIsList(fn) && !rig.IsNil(l.F.DataCopy(fn)) && r.Intn(3) > 0 {
					what = "UpdateData-partial"
					log("#%d UpdateData(partial) %s %s %s", step, srv, fn, rkToken(v))
					newExp, _, _ = rkReplicaApply(fn, exp[ek], rkPartial(fn, v), []model.FilterType{*model.NewFilterTypePartial()})
					errT = l.F.UpdateData(fn, rkPartial(fn, v), model.NewFilterTypePartial(), nil)
				} else {
					obj := full()
					newExp = rkClone(obj)
					log("#%d UpdateData(full) %s %s %s: %s", step, srv, fn, rkToken(v), rig.JS(obj))
					errT = l.F.UpdateData(fn, obj, nil, nil)
				}
				outs = takeAll()
				changed = rig.CanonAny(l.F.DataCopy(fn)) != before
				if errT != nil || !changed {
					fail("UpdateData/no-effect", "%s(%s, %s) on %s: error %v, changed=%v", what, fn, rkToken(v), srv, errT, changed)
					changed = false
				}
			default:
				what = "remote-write"
				h, held := cw.holder[srv]
				if !held {
					cs := cw.compatibleClients(srv)
					h = c08Entry{pi, cs[r.Intn(len(cs))], srv}
					q := w.Peers[h.peer]
					mc := q.Bind(cw.cliAddr(q, h.cli), cw.srvAddr(srv), l.Typ)
					if ok, _, _ := rkResultOf(q.Tap.Take(), mc); ok == 1 {
						cw.holder[srv] = h
						held = true
					}
					w.Core.Take()
				}
				writer := h
				if r.Intn(4) == 0 { // somebody who does not hold the binding
					writer = c08Entry{(h.peer + 1 + r.Intn(2)) % 3, h.cli, srv}
				}
				q := w.Peers[writer.peer]
				log("#%d remote write by peer%d %s to %s %s %s (binding held by peer%d %s: %v)", step, writer.peer, writer.cli, srv, fn, rkToken(v), h.peer, h.cli, held)
				takeAll()
				wobj := full()
				newExp = rkClone(wobj)
				mc := q.Send(model.CmdClassifierTypeWrite, cw.cliAddr(q, writer.cli), cw.srvAddr(srv), true, nil, rig.CmdFor(fn, wobj))
				outs = takeAll()
				ok, bad, rest := rkResultOf(outs[writer.peer], mc)
				outs[writer.peer] = rest
				changed = rig.CanonAny(l.F.DataCopy(fn)) != before
				hist[len(hist)-1] += fmt.Sprintf(" -> ok=%d err=%d changed=%v", ok, bad, changed)
				if changed {
					c.Count("remote_writes_accepted", 1)
				} else {
					c.Count("remote_writes_refused", 1)
				}
			}
			c.Events(1)
			judgeFanout(what, srv, fn, v, changed, outs, newExp)
			if changed {
				c.Count("datachange_of_a_function_announced_as:"+annClass, 1)
				if n := len(cw.entriesOnServer(srv)); n > 0 {
					c.Count("fanouts_to_subscribers_judged_for_a_function_announced_as:"+annClass, 1)
				}
			}
			if evs := w.Core.Take(); rig.CountEv(evs, api.EventTypeSubscriptionChange, api.ElementChangeAdd)+rig.CountEv(evs, api.EventTypeSubscriptionChange, api.ElementChangeRemove) > 0 {
				fail(what+"/event-unexpected", "%s published subscription change events", what)
			}
			judgeRegistry(what)
			c.Count("datachange:"+what, 1)
			shape = append(shape, fmt.Sprintf("%s:%s:%s:%s:w%d", what, srv, fn, annClass, len(cw.entriesOnServer(srv))))

		default: // ---------------- registry read over the wire
			cl := model.CmdClassifierTypeCall
			if r.Intn(2) == 0 {
				cl = model.CmdClassifierTypeRead
			}
			takeAll()
			log("#%d %s nodeManagementSubscriptionData by peer%d", step, cl, pi)
			mc := p.Send(cl, p.NM(), rig.LNM, false, nil, model.CmdType{NodeManagementSubscriptionData: &model.NodeManagementSubscriptionDataType{}})
			outs := takeAll()
			res := rig.Classify(outs[pi], mc)
			if res.Replies != 1 {
				c.Count("registry_read_unanswered", 1)
			} else {
				for _, d := range res.All {
					if rkClassifier(d) != model.CmdClassifierTypeReply || len(d.Payload.Cmd) != 1 || d.Payload.Cmd[0].NodeManagementSubscriptionData == nil {
						continue
					}
					want := map[string]bool{}
					for _, e := range cw.entriesOfPeer(pi) {
						want[cw.pfeat[e.cli].Key(p)+">"+cw.locals[e.srv].Key()] = true
					}
					got := map[string]bool{}
					ids := map[uint]bool{}
					es := d.Payload.Cmd[0].NodeManagementSubscriptionData.SubscriptionEntry
					for _, en := range es {
						got[rkKey(en.ClientAddress)+">"+rkKey(en.ServerAddress)] = true
						if en.SubscriptionId != nil {
							ids[uint(*en.SubscriptionId)] = true
						}
					}
					c.Events(1)
					if fmt.Sprint(rkSorted(want)) != fmt.Sprint(rkSorted(got)) || len(es) != len(got) {
						fail("registry-read/entries-differ", "peer %d was told %v (%d entries), reference %v", pi, rkSorted(got), len(es), rkSorted(want))
					} else if len(ids) != len(es) {
						fail("registry-read/ids-not-distinct", "peer %d was told %d entries with %d distinct ids", pi, len(es), len(ids))
					}
					c.Count("registry_read_judged", 1)
				}
			}
			for qi, o := range outs {
				if qi != pi && len(o) > 0 {
					fail("registry-read/unexpected-datagram", "peer %d received %s", qi, rig.JS(o))
				}
			}
			shape = append(shape, fmt.Sprintf("read:%s:%d", cl, len(cw.entriesOfPeer(pi))))
		}
		for _, q := range w.Peers {
			if n := q.PanicCount(); n > 0 {
				fail("panic", "the stack panicked: %s", q.Panics[n-1])
				q.Panics = nil
			}
			if len(q.Tap.Broken) > 0 {
				fail("undecodable-datagram", "%v", q.Tap.Broken)
			}
		}
		if c.Failed() {
			break
		}
	}
	if c.Failed() {
		c.Witness(map[string]any{"history": hist})
	}
	c.Shape(rkHash(shape...))
	c.NonTrivial(grants > 0 && rejects > 0 && fanouts > 0)
	c.Count("grants_and_removals", int64(grants))
	c.Count("rejections", int64(rejects))
	c.Sample(map[string]any{"history": hist, "grants_and_removals": grants, "rejections": rejects, "notifies_judged": fanouts})
}

// ---------------------------------------------------------------------------
// concurrent part

type c08In struct {
	Op  string // sub | unsub | publish | snapshot
	Cli string // client key for sub/unsub
}
type c08Out struct {
	OK  bool
	Set string // publish/snapshot: sorted, blank-separated client keys
}

func c08SetDecode(s string) map[string]bool {
	m := map[string]bool{}
	for _, x := range strings.Split(s, " ") {
		if x != "" {
			m[x] = true
		}
	}
	return m
}
func c08SetEncode(m map[string]bool) string { return strings.Join(rkSorted(m), " ") }

var c08Model = porcupine.Model{
	Init: func() any { return "" },
	Step: func(st, in, out any) (bool, any) {
		s, i, o := st.(string), in.(c08In), out.(c08Out)
		switch i.Op {
		case "sub":
			set := c08SetDecode(s)
			if set[i.Cli] {
				return !o.OK, s
			}
			if !o.OK {
				return false, s
			}
			set[i.Cli] = true
			return true, c08SetEncode(set)
		case "unsub":
			set := c08SetDecode(s)
			if !set[i.Cli] {
				return !o.OK, s
			}
			if !o.OK {
				return false, s
			}
			delete(set, i.Cli)
			return true, c08SetEncode(set)
		case "fsub":
			// a request with a foreign device part whose numbers name the sender's own pair: the statement does not say whether
			// it is served; if it is acknowledged it must have been the sender's own, absent pair that was entered
			if !o.OK {
				return true, s
			}
			set := c08SetDecode(s)
			if set[i.Cli] {
				return false, s
			}
			set[i.Cli] = true
			return true, c08SetEncode(set)
		case "funsub":
			// ... and an acknowledged delete must have removed the sender's own, present pair
			if !o.OK {
				return true, s
			}
			set := c08SetDecode(s)
			if !set[i.Cli] {
				return false, s
			}
			delete(set, i.Cli)
			return true, c08SetEncode(set)
		case "publish", "snapshot":
			return o.Set == s, s
		}
		return false, s
	},
	DescribeOperation: func(in, out any) string {
		i, o := in.(c08In), out.(c08Out)
		if i.Op == "publish" || i.Op == "snapshot" {
			return fmt.Sprintf("%s -> {%s}", i.Op, o.Set)
		}
		return fmt.Sprintf("%s(%s) -> %v", i.Op, i.Cli, o.OK)
	},
}

type c08Rec struct {
	gor       int
	in        c08In
	foreign   string
	srv       int
	call, ret int64
	peer      int
	mc        model.MsgCounterType
	v         int
	set       string
}

func (r c08Rec) String() string {
	if r.in.Op == "publish" {
		return fmt.Sprintf("[%d,%d] g%d publish S%d %s", r.call, r.ret, r.gor, r.srv, rkToken(r.v))
	}
	return fmt.Sprintf("[%d,%d] g%d %s S%d %s%s", r.call, r.ret, r.gor, r.in.Op, r.srv, r.in.Cli, r.foreign)
}

func c08ForeignDims(desc string) string {
	d := ""
	if strings.Contains(desc, "client-device=") {
		d += ":client-device"
	}
	if strings.Contains(desc, "server-device=") {
		d += ":server-device"
	}
	return d
}

func c08Conc(c *rig.Ctx) {
	w := rig.NewWorld(c.Tag())
	defer w.Close()
	r := c.Rand
	e1 := w.AddEntity(model.EntityTypeTypeCEM, []uint{1}, 4*time.Second)
	e2 := w.AddEntity(model.EntityTypeTypeCEM, []uint{2}, 4*time.Second)
	e11 := w.AddEntity(model.EntityTypeTypeEV, []uint{1, 1}, 4*time.Second)
	fn := model.FunctionTypeDeviceClassificationUserData
	// S0 [1]/1, S1 [1,1]/1 (sub-entity of S0's entity, same feature number), S2 [2]/1 (sibling, same feature number)
	srvF := []api.FeatureLocalInterface{e1.GetOrAddFeature(model.FeatureTypeTypeDeviceClassification, model.RoleTypeServer),
		e11.GetOrAddFeature(model.FeatureTypeTypeDeviceClassification, model.RoleTypeServer), e2.GetOrAddFeature(model.FeatureTypeTypeDeviceClassification, model.RoleTypeServer)}
	nSrv := 1 + r.Intn(3)
	srvF = srvF[:nSrv]
	annShape := ""
	for si, s := range srvF {
		// how the published function is announced is no condition of the fan-out (see c08AnnClasses)
		class := c08AnnClasses[r.Intn(len(c08AnnClasses))]
		c08Announce(s, fn, class)
		c.Count("conc_published_function_announced_as:"+class, 1)
		annShape += fmt.Sprint(si, class)
	}
	clients := []rkPeerFeat{c08PeerFeats[1], c08PeerFeats[2]} // a [1]/1 and b [1,1]/1
	for i := 0; i < 3; i++ {
		p := w.AddPeer(i)
		p.Ctr = uint64(i+1) * 100000
		p.Announce(rkAnnounceList(clients))
		p.Tap.Take()
	}
	// in every second case a peer whose connection cannot send is the first subscriber of every server feature
	var mute *rig.Peer
	if c.Index%2 == 1 {
		mute = addMutePeer(w, 0)
		defer w.Local.RemoveRemoteDeviceConnection(mute.Ski)
		var subs []muteSub
		for _, sf := range srvF {
			subs = append(subs, muteSub{clients[0].Addr(mute, true), sf.Address(), model.FeatureTypeTypeDeviceClassification})
		}
		if why := muteSubscribeFirst(w, mute, rkAnnounceList(clients), subs); why != "" {
			c.Inconclusive("setup of the mute peer: %s", why)
			return
		}
		c.Count("conc_cases_with_a_mute_first_subscriber", 1)
	}
	// in every third case a share of the requests carries a foreign device part, and a bystander peer (identical
	// numbering, subscribed to every server feature, silent during the concurrent phase) is what most of them name
	foreign := c.Index%3 == 0
	var bystander *rig.Peer
	if foreign {
		bystander = w.AddPeer(3)
		bystander.Ctr = 400000
		bystander.Announce(rkAnnounceList(clients))
		bystander.Tap.Take()
		c.Count("conc_cases_with_foreign_device_requests", 1)
	}
	w.Core.Take()

	type plan struct {
		op       string // sub | unsub | fsub | funsub
		cli, srv int
		fc, fs   string // foreign device part of the client / server address ("" = the real one)
	}
	perPeer := 3 + r.Intn(c.Pick(1, 2))
	plans := make([][]plan, 3)
	var recs []c08Rec
	var mu sync.Mutex
	record := func(x c08Rec) { mu.Lock(); recs = append(recs, x); mu.Unlock() }
	do := func(gor, pi int, pl plan) {
		p := w.Peers[pi]
		f := clients[pl.cli]
		rec := c08Rec{gor: gor, in: c08In{Op: pl.op, Cli: f.Key(p)}, srv: pl.srv, peer: pi}
		ca, sa := f.Addr(p, true), srvF[pl.srv].Address()
		if pl.fc != "" {
			ca = rig.FA(pl.fc, f.Ent, f.Id)
			rec.foreign += " client-device=" + pl.fc
		}
		if pl.fs != "" {
			a := *sa
			a.Device = util.Ptr(model.AddressDeviceType(pl.fs))
			sa = &a
			rec.foreign += " server-device=" + pl.fs
		}
		rec.call = rig.Seq()
		if pl.op == "sub" || pl.op == "fsub" {
			rec.mc = p.Subscribe(ca, sa, model.FeatureTypeTypeDeviceClassification)
		} else {
			rec.mc = p.Unsubscribe(ca, sa)
		}
		rec.ret = rig.Seq()
		record(rec)
	}
	// a sequential prefix so that publishes meet a non-empty registry
	nClients := 1 + r.Intn(2)
	for i := 0; i < r.Intn(4); i++ {
		do(9, r.Intn(3), plan{op: "sub", cli: r.Intn(nClients), srv: r.Intn(nSrv)})
	}
	bystanderBefore := ""
	bystanderSnap := func() string {
		var es []string
		for _, en := range w.Local.SubscriptionManager().Subscriptions(bystander.RD) {
			es = append(es, fmt.Sprintf("#%d %s>%s", en.Id, rkFeatKey(en.ClientFeature), rkFeatKey(en.ServerFeature)))
		}
		sort.Strings(es)
		return strings.Join(es, " ")
	}
	if foreign {
		for si := 0; si < nSrv; si++ {
			for ci := 0; ci < nClients; ci++ {
				do(9, 3, plan{op: "sub", cli: ci, srv: si})
			}
		}
		bystanderBefore = bystanderSnap()
	}
	nForeign := 0
	for pi := range plans {
		for k := 0; k < perPeer; k++ {
			op := "sub"
			if r.Intn(5) < 2 {
				op = "unsub"
			}
			pl := plan{op: op, cli: r.Intn(nClients), srv: r.Intn(nSrv)}
			if foreign && r.Intn(5) < 2 {
				pl.op = "f" + op
				which := r.Intn(10)
				if which < 8 { // client address: mostly the bystander's device, which holds every pair
					switch d := r.Intn(10); {
					case d < 6:
						pl.fc = bystander.Addr
					case d < 8:
						pl.fc = w.Peers[(pi+1+r.Intn(2))%3].Addr
					case d < 9:
						pl.fc = rig.LocalAddr
					default:
						pl.fc = "nowhere"
					}
				}
				if which >= 6 { // server address (6, 7: both)
					pl.fs = []string{w.Peers[r.Intn(4)].Addr, "nowhere"}[r.Intn(2)]
				}
				nForeign++
			}
			plans[pi] = append(plans[pi], pl)
		}
	}
	nPub := 2 + r.Intn(2)
	start := make(chan struct{})
	var wg sync.WaitGroup
	for pi := range plans {
		wg.Add(1)
		go func(pi int) {
			defer wg.Done()
			<-start
			for _, pl := range plans[pi] {
				do(pi, pi, pl)
			}
		}(pi)
	}
	for si := range srvF {
		wg.Add(1)
		go func(si int) {
			defer wg.Done()
			<-start
			for k := 0; k < nPub; k++ {
				v := 1000*(si+1) + k + 1
				rec := c08Rec{gor: 3 + si, in: c08In{Op: "publish"}, srv: si, v: v}
				rec.call = rig.Seq()
				srvF[si].SetData(fn, rkPayload(fn, v))
				rec.ret = rig.Seq()
				record(rec)
			}
		}(si)
	}
	close(start)
	done := make(chan struct{})
	go func() { wg.Wait(); close(done) }()
	select {
	case <-done:
	case <-time.After(60 * time.Second):
		c.Inconclusive("concurrent workload did not finish within 60s (the progress watchdog decides whether this is a hang)")
		<-done
	}

	// outputs from the taps
	results := map[int]map[model.MsgCounterType]int{} // peer -> mc -> +1 success / -1 error
	seenV := map[int]map[string]int{}                 // publish value -> client key -> notifies
	srvOfV := map[int]int{}
	for _, x := range recs {
		if x.in.Op == "publish" {
			srvOfV[x.v] = x.srv
			seenV[x.v] = map[string]int{}
		}
	}
	var hist []string
	for pi, p := range w.Peers {
		results[pi] = map[model.MsgCounterType]int{}
		for _, d := range p.Tap.Take() {
			switch rkClassifier(d) {
			case model.CmdClassifierTypeResult:
				if d.Header.MsgCounterReference == nil || len(d.Payload.Cmd) != 1 || d.Payload.Cmd[0].ResultData == nil || d.Payload.Cmd[0].ResultData.ErrorNumber == nil {
					c.Violate("conc/malformed-result", "peer %d: %s", pi, rig.JS(d))
					continue
				}
				ref := *d.Header.MsgCounterReference
				if _, dup := results[pi][ref]; dup {
					c.Violate("conc/result-count", "peer %d received two results for request %d", pi, ref)
				}
				if *d.Payload.Cmd[0].ResultData.ErrorNumber == 0 {
					results[pi][ref] = 1
				} else {
					results[pi][ref] = -1
				}
				c.Events(1)
			case model.CmdClassifierTypeNotify:
				ns, _ := rkNotifies([]model.DatagramType{d})
				n := ns[0]
				c.Events(1)
				matched := false
				for v, si := range srvOfV {
					if rkHas(n.Value, v) {
						matched = true
						seenV[v][n.Dst]++
						if n.Src != rkKey(srvF[si].Address()) || n.Fn != fn {
							c.Violate("conc/fanout/wrong-source-or-function", "notify for %s published on S%d comes from %s as %q", rkToken(v), si, n.Src, n.Fn)
						}
						if !strings.HasPrefix(n.Dst, p.Addr+":") {
							c.Violate("conc/fanout/notify-on-wrong-connection", "notify addressed to %s was written to the connection of peer %d", n.Dst, pi)
						}
					}
				}
				if !matched {
					c.Violate("conc/fanout/unattributable-notify", "peer %d received a notify that carries no published value: %s", pi, rig.JS(d.Payload))
				}
			}
		}
	}
	hist0 := make([][]porcupine.Operation, len(srvF))
	sort.Slice(recs, func(i, j int) bool { return recs[i].call < recs[j].call })
	reached := 0
	for _, x := range recs {
		out := c08Out{}
		switch x.in.Op {
		case "publish":
			m := map[string]bool{}
			for k, n := range seenV[x.v] {
				m[k] = true
				if n > 1 {
					c.Violate("conc/fanout/duplicate-notify", "%s received %d notifies for one SetData (%s)", k, n, rkToken(x.v))
				}
			}
			out.Set = c08SetEncode(m)
			reached += len(m)
			hist = append(hist, fmt.Sprintf("%s -> {%s}", x, out.Set))
		default:
			res, ok := results[x.peer][x.mc]
			if !ok {
				c.Violate("conc/result-count", "%s: no result datagram", x)
			}
			out.OK = res == 1
			hist = append(hist, fmt.Sprintf("%s -> %v", x, out.OK))
		}
		hist0[x.srv] = append(hist0[x.srv], porcupine.Operation{ClientId: x.gor, Input: x.in, Call: x.call, Output: out, Return: x.ret})
	}
	decided := true
	for si := range srvF {
		// final snapshot: the registry itself
		m := map[string]bool{}
		entries := w.Local.SubscriptionManager().SubscriptionsOnFeature(*srvF[si].Address())
		nMute := 0
		for _, en := range entries {
			if mute != nil && en.ClientFeature != nil && en.ClientFeature.Device() == mute.RD {
				nMute++ // not part of the model: it never shows up in a publish set either
				continue
			}
			m[rkFeatKey(en.ClientFeature)] = true
		}
		if mute != nil && nMute != 1 {
			c.Violate("conc/registry/entry-of-uninvolved-peer-changed", "S%d holds %d entries of the mute peer, which subscribed once before the concurrent phase and never unsubscribed", si, nMute)
		}
		if len(m)+nMute != len(entries) {
			c.Violate("conc/registry/entry-listed-twice", "S%d holds %d entries for %d distinct clients", si, len(entries), len(m))
		}
		t := rig.Seq()
		ops := append(hist0[si], porcupine.Operation{ClientId: 8, Input: c08In{Op: "snapshot"}, Call: t, Output: c08Out{Set: c08SetEncode(m)}, Return: rig.Seq()})
		hist = append(hist, fmt.Sprintf("final registry S%d = {%s}", si, c08SetEncode(m)))
		res, _ := porcupine.CheckOperationsVerbose(c08Model, ops, 20*time.Second)
		c.Count("porcupine:"+string(res), 1)
		c.Events(int64(len(ops)))
		switch res {
		case porcupine.Illegal:
			c.Violate("conc/not-linearizable", "the history on server feature S%d has no linearization in the set+publish model:\n  %s", si, strings.Join(hist, "\n  "))
		case porcupine.Unknown:
			c.Inconclusive("porcupine timed out on S%d (%d operations)", si, len(ops))
			decided = false
		}
	}
	if foreign {
		c.Events(1)
		c.Count("conc_foreign_device_requests", int64(nForeign))
		if after := bystanderSnap(); after != bystanderBefore {
			c.Violate("conc/foreign-device/entry-of-other-peer-changed", "the bystander peer 3 did nothing during the concurrent phase; its entries were {%s} before and are {%s} after it:\n  %s", bystanderBefore, after, strings.Join(hist, "\n  "))
		}
		for _, x := range recs {
			if strings.HasPrefix(x.in.Op, "f") {
				if results[x.peer][x.mc] == 1 {
					c.Count("conc_foreign:"+x.in.Op+c08ForeignDims(x.foreign)+" -> accepted", 1)
				} else {
					c.Count("conc_foreign:"+x.in.Op+c08ForeignDims(x.foreign)+" -> refused", 1)
				}
			}
		}
	}
	// Subscriptions(peer): distinct ids, own entries only
	for pi, p := range w.Peers {
		ids := map[uint64]bool{}
		es := w.Local.SubscriptionManager().Subscriptions(p.RD)
		for _, en := range es {
			ids[en.Id] = true
			if !strings.HasPrefix(rkFeatKey(en.ClientFeature), p.Addr+":") {
				c.Violate("conc/registry/foreign-entry", "Subscriptions(peer %d) lists %s", pi, rkFeatKey(en.ClientFeature))
			}
		}
		if len(ids) != len(es) {
			c.Violate("conc/registry/ids-not-distinct", "Subscriptions(peer %d): %d entries, %d distinct ids", pi, len(es), len(ids))
		}
	}
	for _, q := range w.Peers {
		if n := q.PanicCount(); n > 0 {
			c.Violate("conc/panic", "the stack panicked: %s", q.Panics[n-1])
		}
	}
	if c.Failed() {
		c.Witness(map[string]any{"history": hist})
	}
	// shape: the planned operations (not the schedule)
	var sh []string
	for pi := range plans {
		for _, pl := range plans[pi] {
			sh = append(sh, fmt.Sprintf("%d:%s:%d:%d:%v:%v", pi, pl.op, pl.cli, pl.srv, pl.fc != "", pl.fs != ""))
		}
	}
	c.Shape(rkHash(append(sh, fmt.Sprint(nSrv, nPub, len(recs), mute != nil), annShape)...))
	c.NonTrivial(decided && reached > 0)
	c.Count("conc_notifies_attributed", int64(reached))
	if nSrv >= 2 {
		c.Count("conc_cases_with_servers_in_parent_and_sub_entity", 1)
	}
	var st []rkStamp
	for _, x := range recs {
		if x.gor != 9 {
			st = append(st, rkStamp{x.call, fmt.Sprintf("g%d(", x.gor)}, rkStamp{x.ret, fmt.Sprintf(")g%d", x.gor)})
		}
	}
	il := rkInterleaving(st)
	c.Seen("conc_interleavings", rkHash(il)[:10])
	depth, overl := 0, false
	for _, x := range st { // st is sorted by rkInterleaving
		if strings.HasSuffix(x.Label, "(") {
			depth++
			overl = overl || depth > 1
		} else {
			depth--
		}
	}
	if overl {
		c.Count("conc_cases_with_overlapping_calls", 1)
	}
	c.Sample(map[string]any{"history": hist})
}
