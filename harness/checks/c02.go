package checks

import (
	"fmt"
	"hash/fnv"
	"reflect"
	"strings"

	"github.com/enbility/spine-go/api"
	"github.com/enbility/spine-go/model"

	"verifharness/rig"
)

// C02 — replicated function data follows the restricted-exchange update rules.
//
// Oracle: the reflective reference fold of rig (written from the statement, independent of
// model/update.go and of the per-type UpdateList methods) against DataCopy after every update, for every
// list function the stack registers, all eight update shapes, three delivery paths:
//
//	remote-api  FeatureRemote.UpdateData(persist=true) on the peer's feature (the reply/notify path of the API)
//	datagram    a real reply or notify datagram from the peer to a local client feature (one fifth of the histories)
//	local-api   FeatureLocal.UpdateData / SetData on a local server feature
//
// Two peers announce identical entity and feature numbers; each history addresses one store (one peer's
// feature, or the local feature) and the same function's data of the other stores must not move.
//
// After each update: content equals the fold (as a multiset), identifiers unique, ordered by numeric
// identifier (after a merge by identifier always, even if an earlier full update listed its identifiers
// out of order; after selector, identifier-less and delete updates whenever the list was ordered before;
// not after a full update, which replaces verbatim), and the same update applied a second time changes nothing.

const c02Dom = 4

func init() {
	nl := len(rig.DiscoverLists())
	rig.Register(&rig.Check{
		ID:    "C02",
		Floor: 150,
		Rule: "case = (list function, block): a block of histories on one World; every history starts from no data, an empty list or a generated list and applies 4-6 updates of shapes drawn from " +
			"{full, partial with identifiers, identifier-less item, partial+selector, delete+selector, delete+elements, delete+selector+elements, delete combined with partial} over an identifier domain of 4 " +
			"(multi-key types: no single key field is unique), delivered through FeatureRemote.UpdateData, real reply/notify datagrams (a fifth of the histories) or FeatureLocal.UpdateData/SetData; two identically numbered peers, each history addresses one store. " +
			"After every update the stored list is compared with the reference fold, checked for unique identifiers and numeric order, the same function's data of the other stores must not have moved, and the update is applied again (idempotence). " +
			"A case is non-trivial if at least 100 comparisons were made, every delivery path was used and at least three different shapes (two for the list type without key fields) changed the data; distinct = distinct (function, sequence of (path, shape) of the block).",
		Assumptions: []string{
			"well-formed updates only: identifiers unique within one update, selectors built on all key fields so that 'the matching item' is unique; a third of the full updates list their identifiers out of order",
			"order is demanded after every merge by identifier and, after selector / identifier-less / delete updates, whenever the list was ordered before the update; that such an update leaves a list unordered which an unordered full update had left unordered is counted (not-judged:...), not judged",
			"for the list type without key fields only 'replace' and 'clear the named fields' are judged; selector shapes are skipped for selector types that do not cover all key fields of the item",
			"for items whose second key is not numeric the order among equal numeric keys is not fixed: multiset equality plus non-decreasing numeric identifiers is demanded",
			"the items of a datagram are taken as the receiver decodes them (JSON fidelity is C18's subject)",
		},
		Parts: []rig.Part{{
			Name: "fold",
			Cases: func(t rig.Tier) int {
				if t == rig.Thorough {
					return nl * 40
				}
				return nl * 12
			},
			Run:   c02Case,
			Procs: 2,
		}},
	})
}

type c02Store struct {
	lw         *listWorld
	path       string
	peer       *rig.Peer                  // the peer whose feature is the store (remote-api, datagram)
	remote     api.FeatureRemoteInterface // its feature
	remoteAddr *model.FeatureAddressType
}

func (s *c02Store) read() []reflect.Value {
	if s.path == "local-api" {
		return rig.CloneItems(s.lw.li.Items(s.lw.local.DataCopy(s.lw.li.Fn)))
	}
	return rig.CloneItems(s.lw.li.Items(s.remote.DataCopy(s.lw.li.Fn)))
}

// others fingerprints the stores this history does not address: the same function of the other
// peer's identically numbered feature, of the local feature, of this peer's feature.
func (s *c02Store) others() string {
	lw, fn := s.lw, s.lw.li.Fn
	var parts []string
	if s.path != "local-api" {
		parts = append(parts, "local:"+rig.CanonAny(lw.local.DataCopy(fn)))
	}
	for _, rf := range []api.FeatureRemoteInterface{lw.remote, lw.remote2} {
		if rf != nil && (s.path == "local-api" || rf != s.remote) {
			parts = append(parts, string(*rf.Address().Device)+":"+rig.CanonAny(rf.DataCopy(fn)))
		}
	}
	return strings.Join(parts, "\n")
}

// set puts the store into a start state (no data / a list) through the path's own full update.
func (s *c02Store) set(data any) string {
	li := s.lw.li
	if s.path == "local-api" {
		s.lw.local.SetData(li.Fn, data)
		return ""
	}
	if _, err := s.remote.UpdateData(true, li.Fn, data, nil, nil); err != nil {
		return err.String()
	}
	return ""
}

// apply delivers u; it returns the update as the store's owner received it, an error text if the
// update was reported as failed, and the data the API call returned (nil if the path returns none).
func (s *c02Store) apply(c *rig.Ctx, u rig.Update, variant int) (rig.Update, string, any) {
	lw, li := s.lw, s.lw.li
	fp, fd, _ := li.Filters(u)
	switch s.path {
	case "remote-api":
		var data any = li.MkList(rig.CloneItems(u.Items))
		if strings.HasPrefix(u.Kind, "delete") && variant%2 == 1 {
			data = nil // a delete filter carries all the information a delete needs
		}
		ret, err := s.remote.UpdateData(true, li.Fn, data, fp, fd)
		if err != nil {
			return u, "UpdateData: " + err.String(), nil
		}
		return u, "", ret
	case "local-api":
		var data any = li.MkList(rig.CloneItems(u.Items))
		if strings.HasPrefix(u.Kind, "delete") && variant%2 == 1 {
			data = nil
		}
		if u.Kind == "full" && variant%2 == 0 {
			lw.local.SetData(li.Fn, data)
			return u, "", nil
		}
		if err := lw.local.UpdateData(li.Fn, data, fp, fd); err != nil {
			return u, "UpdateData: " + err.String(), nil
		}
		return u, "", nil
	default: // datagram
		cl := model.CmdClassifierTypeNotify
		if variant%2 == 0 {
			cl = model.CmdClassifierTypeReply
		}
		ack := variant%4 < 2
		b, u2, mc, err := lw.wireFrom(s.peer, u, cl, s.remoteAddr, lw.localCli.Address(), ack)
		if err != nil {
			return u, "harness: " + err.Error(), nil
		}
		s.peer.Tap.Take()
		if rec := s.peer.Raw(b); rec != "" {
			return u2, "panic: " + rec, nil
		}
		res := rig.Classify(s.peer.Tap.Take(), mc)
		if res.Errors > 0 {
			return u2, string(cl) + " answered with an error result: " + rig.JS(res.All), nil
		}
		c.Count("datagrams:"+string(cl), 1)
		return u2, "", nil
	}
}

// c02MaybeShuffle turns a third of the full updates with two or more items into full updates whose
// identifiers are not in order (a full update is stored as received).
func c02MaybeShuffle(c *rig.Ctx, u *rig.Update) bool {
	if u.Kind != "full" || len(u.Items) < 2 || c.Rand.Intn(3) != 0 {
		return false
	}
	c.Rand.Shuffle(len(u.Items), func(a, b int) { u.Items[a], u.Items[b] = u.Items[b], u.Items[a] })
	return true
}

// c02OrderDemanded: a merge by identifier (partial, delete combined with partial) always yields a list
// ordered by numeric identifier; selector, identifier-less and delete updates keep the order of the
// list they are applied to, so order is demanded if the list was ordered before; a full update
// replaces verbatim.
func c02OrderDemanded(kind string, orderedBefore bool) bool {
	switch kind {
	case "full":
		return false
	case "partial", "del+partial":
		return true
	}
	return orderedBefore
}

// itemsOfResult extracts list items from what UpdateData returned: the list struct or the bare slice.
func itemsOfResult(li *rig.ListInfo, ret any) ([]reflect.Value, bool) {
	if ret == nil {
		return nil, false
	}
	v := reflect.ValueOf(ret)
	switch {
	case v.Type() == li.PtrT:
		return li.Items(ret), true
	case v.Kind() == reflect.Slice && v.Type().Elem() == li.ElemT:
		var out []reflect.Value
		for i := 0; i < v.Len(); i++ {
			out = append(out, v.Index(i))
		}
		return out, true
	}
	return nil, false
}

func c02Case(c *rig.Ctx) {
	lists := rig.DiscoverLists()
	li := &lists[c.Index%len(lists)]
	r := c.Rand
	lw, err := newListWorld(c.Tag(), li, li.FeatureType, false)
	if err != nil {
		c.Violate("harness-world", "%v", err)
		return
	}
	defer lw.close()
	if err := lw.addPeer2(); err != nil {
		c.Violate("harness-world", "%v", err)
		return
	}

	histories := c.Pick(60, 150)
	var shapeSeq strings.Builder
	var sample []string
	comparisons, changedShapes := 0, map[string]bool{}
	paths := map[string]int{}
	for h := 0; h < histories && !c.Failed(); h++ {
		st := &c02Store{lw: lw, peer: lw.p, remote: lw.remote, remoteAddr: lw.remoteAddr}
		if r.Intn(2) == 0 {
			st.peer, st.remote, st.remoteAddr = lw.p2, lw.remote2, lw.remote2Addr
		}
		switch x := r.Intn(20); {
		case x < 4:
			st.path = "datagram"
		case x < 12:
			st.path = "remote-api"
		default:
			st.path = "local-api"
		}
		paths[st.path]++
		var ref []reflect.Value
		var hist []string
		start := r.Intn(5)
		if start > 2 {
			start = 2
		}
		switch start {
		case 0:
			if e := st.set(typedNil(li)); e != "" {
				c.Violate("reset/error", "%s %s: clearing the data failed: %s", li.Fn, st.path, e)
			}
			hist = append(hist, "start: no data")
		case 1:
			st.set(li.MkList(nil))
			hist = append(hist, "start: empty list")
		default:
			u, _ := li.GenUpdate(r, 0, c02Dom)
			c02MaybeShuffle(c, &u)
			st.set(li.MkList(rig.CloneItems(u.Items)))
			ref = rig.CloneItems(u.Items)
			hist = append(hist, "start: "+u.String())
		}
		if got := st.read(); rig.Multiset(got) != rig.Multiset(ref) {
			c.Violate("start/content-differs", "%s %s: after %s the store holds %s", li.Fn, st.path, hist[0], renderItems(got))
			ref = got
		}
		fmt.Fprintf(&shapeSeq, "|%s:%d", st.path[:1], start)
		steps := 4 + r.Intn(3)
		for s := 0; s < steps; s++ {
			u, ok := genUpdate(c, li, c02Dom)
			if !ok {
				continue
			}
			// "a delete filter removes the matching items": every ninth update is a delete whose selector names
			// only a part of the identifier or a non-identifier field of a stored item and may match several items
			if r.Intn(9) == 0 {
				if mu, mok := li.GenMultiDelete(r, ref); mok {
					u = mu
					matched := len(ref) - len(li.RefApply(ref, u))
					c.Count(fmt.Sprintf("delete-sel-multi:items-matched=%d", min(matched, 3)), 1)
				}
			}
			variant := r.Intn(4)
			if c02MaybeShuffle(c, &u) {
				c.Count("full-updates-with-unordered-identifiers", 1)
			}
			shapeSeq.WriteString("," + u.Kind)
			c.Count("updates:"+st.path+":"+u.Kind, 1)
			before := rig.Multiset(ref)

			// the value a non-persisting partial or delete update returns is the fold as well (the store is
			// C11's subject; a non-persisting filter-less update is a merge by design and not judged)
			if st.path == "remote-api" && variant == 3 && u.Kind != "full" {
				fp, fd, _ := li.Filters(u)
				ret, e := st.remote.UpdateData(false, li.Fn, li.MkList(rig.CloneItems(u.Items)), fp, fd)
				if e != nil {
					c.Violate(u.Kind+"/nonpersist-error", "%s: UpdateData(persist=false) failed: %s\n update: %s\n history: %s", li.Fn, e.String(), u, strings.Join(hist, "\n   "))
				} else if items, ok := itemsOfResult(li, ret); ok {
					comparisons++
					if want := li.RefApply(ref, u); rig.Multiset(items) != rig.Multiset(want) {
						c.Violate(u.Kind+"/nonpersist-result-differs", "%s: UpdateData(persist=false) returned %s\n fold: %s\n update: %s\n history: %s", li.Fn, renderItems(items), renderItems(want), u, strings.Join(hist, "\n   "))
					}
				}
			}

			othersBefore := st.others()
			orderedBefore := orderedByNumericId(li, ref)
			ur, errText, ret := st.apply(c, u, variant)
			hist = append(hist, st.path+" "+ur.String())
			if now := st.others(); now != othersBefore {
				c.Violate(u.Kind+"/other-store-changed", "%s via %s (peer %s): an update of one store changed the same function's data of another feature (the local one, or the identically numbered feature of the other peer)\n update: %s\n before:\n%s\n after:\n%s", li.Fn, st.path, st.peer.Addr, ur, othersBefore, now)
			}
			ref = li.RefApply(ref, ur)
			got := st.read()
			comparisons++
			dev := ""
			switch {
			case errText != "":
				dev = "error"
			case rig.Multiset(got) != rig.Multiset(ref):
				dev = "content-differs"
			case duplicateId(li, got) != "":
				dev = "duplicate-identifier"
			case c02OrderDemanded(u.Kind, orderedBefore) && !orderedByNumericId(li, got):
				dev = "not-ordered"
			}
			if dev == "" && u.Kind != "full" && !orderedByNumericId(li, got) {
				// a selector, identifier-less or delete update applied to a list that an unordered full update
				// left unordered: the fold keeps the order, nothing re-sorts; counted, not judged
				c.Count("not-judged:list-left-unordered-by-"+u.Kind+"-after-unordered-full", 1)
			}
			if dev == "" && ret != nil {
				if items, ok := itemsOfResult(li, ret); ok && rig.Multiset(items) != rig.Multiset(ref) {
					dev = "result-differs"
					got = items
				}
			}
			if dev == "" {
				// idempotence: the same update once more
				if again := li.RefApply(ref, ur); rig.Multiset(again) != rig.Multiset(ref) {
					c.Violate("harness-fold-not-idempotent", "%s %s", li.Fn, ur)
				}
				_, errText, _ = st.apply(c, u, variant)
				got = st.read()
				comparisons++
				switch {
				case errText != "":
					dev = "error-on-repeat"
				case rig.Multiset(got) != rig.Multiset(ref):
					dev = "not-idempotent"
				case duplicateId(li, got) != "":
					dev = "duplicate-identifier-on-repeat"
				case c02OrderDemanded(u.Kind, orderedBefore) && !orderedByNumericId(li, got):
					dev = "not-ordered-on-repeat"
				}
			}
			if dev != "" {
				c.Violate(u.Kind+"/"+dev, "%s via %s: %s %s\n update:  %s\n store:   %s\n fold:    %s\n history:\n   %s", li.Fn, st.path, dev, errText, ur, renderItems(got), renderItems(ref), strings.Join(hist, "\n   "))
				c.Witness(map[string]any{"function": li.Fn, "path": st.path, "history": hist, "store": renderItems(got), "fold": renderItems(ref), "deviation": dev, "detail": errText})
				ref = st.read() // resynchronise so that one deviation is reported once
			}
			if rig.Multiset(ref) != before {
				changedShapes[u.Kind] = true
			}
		}
		if len(sample) == 0 && h == 1 {
			sample = append(hist, "final: "+renderItems(st.read()))
		}
	}
	c.Events(int64(comparisons))
	c.Count("comparisons", int64(comparisons))
	c.Count("histories", int64(histories))
	for p, n := range paths {
		c.Count("histories:"+p, int64(n))
	}
	c.Seen("functions", string(li.Fn))
	hs := fnv.New64a()
	hs.Write([]byte(shapeSeq.String()))
	c.Shape(fmt.Sprintf("%s/%x", li.Fn, hs.Sum64()))
	needShapes := 3
	if len(li.Keys) == 0 {
		needShapes = 2
	}
	c.NonTrivial(comparisons >= 100 && len(paths) == 3 && len(changedShapes) >= needShapes)
	c.Sample(map[string]any{"function": li.Fn, "keys": len(li.Keys), "histories": histories, "comparisons": comparisons, "one_history": sample})
}
