package checks

import (
	"fmt"
	"hash/fnv"
	"reflect"
	"sort"
	"strings"

	"github.com/enbility/spine-go/api"
	"github.com/enbility/spine-go/model"

	"verifharness/rig"
)

// C02 — replicated function data follows the restricted-exchange update rules.
//
// Oracle: the reflective reference fold of rig (written from the statement, independent of
// model/update.go and of the per-type UpdateList methods) against DataCopy after every update, for every
// list function the stack registers, all eight update shapes, three delivery paths:
//
//	remote-api  FeatureRemote.UpdateData(persist=true) on the peer's feature (the reply/notify path of the API)
//	datagram    a real reply or notify datagram from the peer to a local client feature (one fifth of the histories)
//	local-api   FeatureLocal.UpdateData / SetData on a local server feature
//
// Two peers announce identical entity and feature numbers; each history addresses one store (one peer's
// feature, or the local feature) and the same function's data of the other stores must not move.
//
// After each update: content equals the fold (as a multiset), identifiers unique, ordered by numeric
// identifier (after a merge by identifier always, even if an earlier full update listed its identifiers
// out of order; after selector, identifier-less and delete updates whenever the list was ordered before;
// not after a full update, which replaces verbatim), and the same update applied a second time changes nothing.

const c02Dom = 4

func init() {
	nl := len(rig.DiscoverLists())
	rig.Register(&rig.Check{
		ID:    "C02",
		Floor: 150,
		Rule: "case = (list function, block): a block of histories on one World; every history starts from no data, an empty list or a generated list and applies 4-6 updates of shapes drawn from " +
			"{full, partial with identifiers, identifier-less item, partial+selector, delete+selector, delete+elements, delete+selector+elements, delete combined with partial} over an identifier domain of 4 " +
			"(multi-key types: no single key field is unique), delivered through FeatureRemote.UpdateData, real reply/notify datagrams (a fifth of the histories) or FeatureLocal.UpdateData/SetData; two identically numbered peers, each history addresses one store. " +
			"Every sixth update carries a selector that is a conjunction of two to five elements (partial+selector, delete+selector, delete+selector+elements, delete combined with partial): the complete identifier plus one or two further elements the selector type can name, or - delete filters only - any two or three elements (parts of a multi-key identifier, elements outside the identifier); the values are those of one stored item in all elements, or in all but one (an element outside the identifier differs, or an identifier element differs: the value of another stored item or a fresh one), or the stored item lacks a named element; an item matches iff it has every named element with the named value. " +
			"The data features are Generic ones in even rounds and of the function's own feature type in odd rounds; every store also holds a sentinel list or value in a SECOND function, which no update may move; a delete filter with elements names one to three fields; " +
			"A third of the full updates (start states included) also list one to three items WITHOUT identifier or - multi-key types - with an incomplete identifier (merges by identifier keep them, selectors naming the complete identifier do not match them); " +
			"every eighth update is a partial+selector update whose DATA names identifier elements (the selected identifier again, a complete new identifier no stored item holds, or one element of a multi-key identifier with a new value; identifiers stay unique): the matching item takes every element the data mentions. " +
			"the identifier fields of every list function, the set of list functions and the set of selector types that do not cover the identifier are compared with tables pinned in the check. " +
			"After every update the stored list is compared with the reference fold, checked for unique identifiers and numeric order, the same function's data of the other stores must not have moved, and the update is applied again (idempotence). " +
			"A case is non-trivial if at least 100 comparisons were made, every delivery path was used and at least three different shapes (two for the list type without key fields) changed the data; distinct = distinct (function, sequence of (path, shape) of the block).",
		Assumptions: []string{
			"well-formed updates only: identifiers unique within one update, selectors built on all key fields so that 'the matching item' is unique; a third of the full updates list their identifiers out of order",
			"order is demanded after every merge by identifier and, after selector / identifier-less / delete updates, whenever the list was ordered before the update; that such an update leaves a list unordered which an unordered full update had left unordered is counted (not-judged:...), not judged",
			"for the list type without key fields only 'replace' and 'clear the named fields' are judged; selector shapes are skipped for selector types that do not cover all key fields of the item",
			"for items whose second key is not numeric the order among equal numeric keys is not fixed: multiset equality plus non-decreasing numeric identifiers is demanded",
			"the items of a datagram are taken as the receiver decodes them (JSON fidelity is C18's subject)",
			"selectors naming several elements: only elements for which the item has a single-valued field of the same name and kind are named (not timestampInterval and the like, not elements referring to a list-valued item field); a partial update always names the complete identifier, so 'the matching item' is unique; an item that lacks a named element does not match",
			"idempotence is not demanded of a delete combined with partial whose merge gives an item exactly the value its own delete selector names for an element outside the identifier (the fold of that update is itself not idempotent; counted not-judged:idempotence...): the second application is compared with the fold of the sequence holding the update twice",
			"order by numeric identifier is not judged while the list holds an item without complete identifier, nor after a partial+selector update that renumbers the selected item out of its place (the overlay of the statement keeps the item where it is; counted not-judged:order-after-renumbering...); uniqueness is judged for the items with a complete identifier",
			"a non-persisting update (FeatureRemote.UpdateData with persist=false: the update that follows, or a different one) returns the fold and leaves the store as it was",
		},
		Parts: []rig.Part{{
			Name: "fold",
			Cases: func(t rig.Tier) int {
				if t == rig.Thorough {
					return nl * 40
				}
				return nl * 12
			},
			Run:   c02Case,
			Procs: 2,
		}},
	})
}

// c02PinnedKeys: the IDENTITY of every list function, i.e. the Go names of the item fields that make up the
// identifier, generated once from the unchanged tree. The reference fold reads the identifier fields from the
// same eebus:"key" tags the library reads, so a tag that silently disappears (or appears) would change the fold
// and the library alike; the table makes the difference visible. Likewise pinned: the set of list functions, the
// one list type without identifier, and the list types whose selector type does not cover the identifier with
// fields of the same name and type (for these the selector shapes are not generated).
var c02PinnedKeys = map[model.FunctionType][]string{
	"alarmListData":           {"AlarmId"},
	"billConstraintsListData": {"BillId"},
	"billDescriptionListData": {"BillId"},
	"billListData":            {"BillId"},
	"deviceConfigurationKeyValueConstraintsListData":   {"KeyId"},
	"deviceConfigurationKeyValueDescriptionListData":   {"KeyId"},
	"deviceConfigurationKeyValueListData":              {"KeyId"},
	"electricalConnectionCharacteristicListData":       {"ElectricalConnectionId", "ParameterId", "CharacteristicId"},
	"electricalConnectionDescriptionListData":          {"ElectricalConnectionId"},
	"electricalConnectionParameterDescriptionListData": {"ElectricalConnectionId", "ParameterId"},
	"electricalConnectionPermittedValueSetListData":    {"ElectricalConnectionId", "ParameterId"},
	"electricalConnectionStateListData":                {"ElectricalConnectionId"},
	"hvacOperationModeDescriptionListData":             {"OperationModeId"},
	"hvacOverrunDescriptionListData":                   {"OverrunId"},
	"hvacOverrunListData":                              {"OverrunId"},
	"hvacSystemFunctionDescriptionListData":            {"SystemFunctionId"},
	"hvacSystemFunctionListData":                       {"SystemFunctionId"},
	"hvacSystemFunctionOperationModeRelationListData":  {"SystemFunctionId"},
	"hvacSystemFunctionPowerSequenceRelationListData":  {"SystemFunctionId"},
	"hvacSystemFunctionSetpointRelationListData":       {"SystemFunctionId"},
	"identificationListData":                           {"IdentificationId"},
	"incentiveDescriptionListData":                     {"IncentiveId"},
	"incentiveListData":                                {"IncentiveId"},
	"loadControlEventListData":                         {"EventId"},
	"loadControlLimitConstraintsListData":              {"LimitId"},
	"loadControlLimitDescriptionListData":              {"LimitId"},
	"loadControlLimitListData":                         {"LimitId"},
	"loadControlStateListData":                         {"EventId"},
	"measurementConstraintsListData":                   {"MeasurementId"},
	"measurementDescriptionListData":                   {"MeasurementId"},
	"measurementListData":                              {"MeasurementId", "ValueType"},
	"measurementSeriesListData":                        {"MeasurementId", "ValueType"},
	"measurementThresholdRelationListData":             {"MeasurementId"},
	"messagingListData":                                {"MessagingNumber"},
	"networkManagementDeviceDescriptionListData":       {"DeviceAddress"},
	"networkManagementEntityDescriptionListData":       {"EntityAddress"},
	"networkManagementFeatureDescriptionListData":      {"FeatureAddress"},
	"nodeManagementDestinationListData":                {},
	"operatingConstraintsDurationListData":             {"SequenceId"},
	"operatingConstraintsInterruptListData":            {"SequenceId"},
	"operatingConstraintsPowerDescriptionListData":     {"SequenceId"},
	"operatingConstraintsPowerLevelListData":           {"SequenceId"},
	"operatingConstraintsPowerRangeListData":           {"SequenceId"},
	"operatingConstraintsResumeImplicationListData":    {"SequenceId"},
	"powerSequenceAlternativesRelationListData":        {"AlternativesId"},
	"powerSequenceDescriptionListData":                 {"SequenceId"},
	"powerSequencePriceListData":                       {"SequenceId"},
	"powerSequenceScheduleConstraintsListData":         {"SequenceId"},
	"powerSequenceScheduleListData":                    {"SequenceId"},
	"powerSequenceSchedulePreferenceListData":          {"SequenceId"},
	"powerSequenceStateListData":                       {"SequenceId"},
	"powerTimeSlotScheduleConstraintsListData":         {"SequenceId"},
	"powerTimeSlotScheduleListData":                    {"SequenceId"},
	"powerTimeSlotValueListData":                       {"SequenceId"},
	"sessionIdentificationListData":                    {"SessionId"},
	"sessionMeasurementRelationListData":               {"SessionId"},
	"setpointDescriptionListData":                      {"SetpointId", "MeasurementId", "TimeTableId"},
	"setpointListData":                                 {"SetpointId"},
	"stateInformationListData":                         {"StateInformationId"},
	"supplyConditionDescriptionListData":               {"ConditionId"},
	"supplyConditionListData":                          {"ConditionId"},
	"supplyConditionThresholdRelationListData":         {"ConditionId"},
	"tariffBoundaryRelationListData":                   {"TariffId"},
	"tariffDescriptionListData":                        {"TariffId"},
	"tariffListData":                                   {"TariffId"},
	"tariffTierRelationListData":                       {"TariffId"},
	"taskManagementJobDescriptionListData":             {"JobId"},
	"taskManagementJobListData":                        {"JobId"},
	"taskManagementJobRelationListData":                {"JobId"},
	"thresholdConstraintsListData":                     {"ThresholdId"},
	"thresholdDescriptionListData":                     {"ThresholdId"},
	"thresholdListData":                                {"ThresholdId"},
	"tierBoundaryDescriptionListData":                  {"BoundaryId"},
	"tierBoundaryListData":                             {"BoundaryId"},
	"tierDescriptionListData":                          {"TierId"},
	"tierIncentiveRelationListData":                    {"TierId"},
	"tierListData":                                     {"TierId"},
	"timeSeriesConstraintsListData":                    {"TimeSeriesId"},
	"timeSeriesDescriptionListData":                    {"TimeSeriesId"},
	"timeSeriesListData":                               {"TimeSeriesId"},
	"timeTableConstraintsListData":                     {"TimeTableId"},
	"timeTableDescriptionListData":                     {"TimeTableId"},
	"timeTableListData":                                {"TimeTableId"},
}

// c02PinnedFeatureType: the specific feature type whose function table registers the list function (unchanged tree).
// Looked up from the library it would silently fall back to Generic when a type's table loses the function.
var c02PinnedFeatureType = map[model.FunctionType]model.FeatureTypeType{
	"alarmListData":           "Alarm",
	"billConstraintsListData": "Bill",
	"billDescriptionListData": "Bill",
	"billListData":            "Bill",
	"deviceConfigurationKeyValueConstraintsListData":   "DeviceConfiguration",
	"deviceConfigurationKeyValueDescriptionListData":   "DeviceConfiguration",
	"deviceConfigurationKeyValueListData":              "DeviceConfiguration",
	"electricalConnectionCharacteristicListData":       "ElectricalConnection",
	"electricalConnectionDescriptionListData":          "ElectricalConnection",
	"electricalConnectionParameterDescriptionListData": "ElectricalConnection",
	"electricalConnectionPermittedValueSetListData":    "ElectricalConnection",
	"electricalConnectionStateListData":                "ElectricalConnection",
	"hvacOperationModeDescriptionListData":             "HVAC",
	"hvacOverrunDescriptionListData":                   "HVAC",
	"hvacOverrunListData":                              "HVAC",
	"hvacSystemFunctionDescriptionListData":            "HVAC",
	"hvacSystemFunctionListData":                       "HVAC",
	"hvacSystemFunctionOperationModeRelationListData":  "HVAC",
	"hvacSystemFunctionPowerSequenceRelationListData":  "HVAC",
	"hvacSystemFunctionSetpointRelationListData":       "HVAC",
	"identificationListData":                           "Identification",
	"incentiveDescriptionListData":                     "TariffInformation",
	"incentiveListData":                                "TariffInformation",
	"loadControlEventListData":                         "LoadControl",
	"loadControlLimitConstraintsListData":              "LoadControl",
	"loadControlLimitDescriptionListData":              "LoadControl",
	"loadControlLimitListData":                         "LoadControl",
	"loadControlStateListData":                         "LoadControl",
	"measurementConstraintsListData":                   "Measurement",
	"measurementDescriptionListData":                   "Measurement",
	"measurementListData":                              "Measurement",
	"measurementSeriesListData":                        "Measurement",
	"measurementThresholdRelationListData":             "Measurement",
	"messagingListData":                                "Messaging",
	"networkManagementDeviceDescriptionListData":       "NetworkManagement",
	"networkManagementEntityDescriptionListData":       "NetworkManagement",
	"networkManagementFeatureDescriptionListData":      "NetworkManagement",
	"nodeManagementDestinationListData":                "NodeManagement",
	"operatingConstraintsDurationListData":             "OperatingConstraints",
	"operatingConstraintsInterruptListData":            "OperatingConstraints",
	"operatingConstraintsPowerDescriptionListData":     "OperatingConstraints",
	"operatingConstraintsPowerLevelListData":           "OperatingConstraints",
	"operatingConstraintsPowerRangeListData":           "OperatingConstraints",
	"operatingConstraintsResumeImplicationListData":    "OperatingConstraints",
	"powerSequenceAlternativesRelationListData":        "PowerSequences",
	"powerSequenceDescriptionListData":                 "PowerSequences",
	"powerSequencePriceListData":                       "PowerSequences",
	"powerSequenceScheduleConstraintsListData":         "PowerSequences",
	"powerSequenceScheduleListData":                    "PowerSequences",
	"powerSequenceSchedulePreferenceListData":          "PowerSequences",
	"powerSequenceStateListData":                       "PowerSequences",
	"powerTimeSlotScheduleConstraintsListData":         "PowerSequences",
	"powerTimeSlotScheduleListData":                    "PowerSequences",
	"powerTimeSlotValueListData":                       "PowerSequences",
	"sessionIdentificationListData":                    "Identification",
	"sessionMeasurementRelationListData":               "Identification",
	"setpointDescriptionListData":                      "Setpoint",
	"setpointListData":                                 "Setpoint",
	"stateInformationListData":                         "StateInformation",
	"supplyConditionDescriptionListData":               "SupplyCondition",
	"supplyConditionListData":                          "SupplyCondition",
	"supplyConditionThresholdRelationListData":         "SupplyCondition",
	"tariffBoundaryRelationListData":                   "TariffInformation",
	"tariffDescriptionListData":                        "TariffInformation",
	"tariffListData":                                   "TariffInformation",
	"tariffTierRelationListData":                       "TariffInformation",
	"taskManagementJobDescriptionListData":             "TaskManagement",
	"taskManagementJobListData":                        "TaskManagement",
	"taskManagementJobRelationListData":                "TaskManagement",
	"thresholdConstraintsListData":                     "Threshold",
	"thresholdDescriptionListData":                     "Threshold",
	"thresholdListData":                                "Threshold",
	"tierBoundaryDescriptionListData":                  "TariffInformation",
	"tierBoundaryListData":                             "TariffInformation",
	"tierDescriptionListData":                          "TariffInformation",
	"tierIncentiveRelationListData":                    "TariffInformation",
	"tierListData":                                     "TariffInformation",
	"timeSeriesConstraintsListData":                    "TimeSeries",
	"timeSeriesDescriptionListData":                    "TimeSeries",
	"timeSeriesListData":                               "TimeSeries",
	"timeTableConstraintsListData":                     "TimeTable",
	"timeTableDescriptionListData":                     "TimeTable",
	"timeTableListData":                                "TimeTable",
}

var c02PinnedKeyless = []model.FunctionType{"nodeManagementDestinationListData"}

var c02PinnedNonCoveringSelectors = []model.FunctionType{"hvacSystemFunctionListData", "hvacSystemFunctionOperationModeRelationListData",
	"nodeManagementDestinationListData", "powerSequenceDescriptionListData", "setpointDescriptionListData"}

func c02KeyNames(li *rig.ListInfo) []string {
	ks := []string{}
	for _, k := range li.Keys {
		ks = append(ks, li.ElemT.Field(k).Name)
	}
	return ks
}

// c02CheckPinned compares what the library's tags yield with the pinned tables (all functions: once per round).
func c02CheckPinned(c *rig.Ctx, li *rig.ListInfo, all bool) {
	cmp := func(li *rig.ListInfo) {
		want, ok := c02PinnedKeys[li.Fn]
		if !ok {
			c.Violate("identity/list-functions-differ-from-pinned", "%s supports partial updates but is not in the pinned table of list functions", li.Fn)
			return
		}
		if got := c02KeyNames(li); strings.Join(got, ",") != strings.Join(want, ",") {
			c.Violate("identity/key-fields-differ-from-pinned", "%s: the item type %s has identifier fields %v (eebus:\"key\" tags), pinned: %v", li.Fn, li.ElemT.Name(), got, want)
		}
	}
	if !all {
		cmp(li)
		return
	}
	lists := rig.DiscoverLists()
	seen := map[model.FunctionType]bool{}
	var keyless, noncov []string
	for i := range lists {
		l := &lists[i]
		cmp(l)
		seen[l.Fn] = true
		if len(l.Keys) == 0 {
			keyless = append(keyless, string(l.Fn))
		}
		if !l.SelCoversKeys {
			noncov = append(noncov, string(l.Fn))
		}
		if l.SelT == nil || (l.ElT == nil && l.Fn != "setpointDescriptionListData") {
			c.Violate("identity/selector-coverage-differs-from-pinned", "%s: selector type %v, elements type %v in model.FilterType", l.Fn, l.SelT, l.ElT)
		}
	}
	for fn := range c02PinnedKeys {
		if !seen[fn] {
			c.Violate("identity/list-functions-differ-from-pinned", "%s is pinned as a list function supporting partial updates; the function table does not yield it", fn)
		}
	}
	if len(lists) != len(c02PinnedKeys) {
		c.Violate("identity/list-functions-differ-from-pinned", "%d list functions, pinned %d", len(lists), len(c02PinnedKeys))
	}
	str := func(fs []model.FunctionType) string {
		var ss []string
		for _, f := range fs {
			ss = append(ss, string(f))
		}
		sort.Strings(ss)
		return strings.Join(ss, ",")
	}
	sort.Strings(keyless)
	sort.Strings(noncov)
	if strings.Join(keyless, ",") != str(c02PinnedKeyless) {
		c.Violate("identity/key-fields-differ-from-pinned", "list types without identifier: %v, pinned: %v", keyless, c02PinnedKeyless)
	}
	if strings.Join(noncov, ",") != str(c02PinnedNonCoveringSelectors) {
		c.Violate("identity/selector-coverage-differs-from-pinned", "list types whose selector type does not cover the identifier (same field names and types): %v, pinned: %v", noncov, c02PinnedNonCoveringSelectors)
	}
}

// c02Sentinel: a SECOND function holding data on every store of the World. An update of the function under test
// must not move it (on the addressed store or anywhere else).
type c02Sentinel struct {
	fn rig.FnInfo
	ok bool
}

func c02SetupSentinel(c *rig.Ctx, lw *listWorld) c02Sentinel {
	ft := lw.T
	if lw.li.FeatureType == model.FeatureTypeTypeNodeManagement {
		ft = model.FeatureTypeTypeNodeManagement
	}
	var cand []rig.FnInfo
	for _, f := range rig.FunctionsOf(ft) {
		if f.Fn != lw.li.Fn && f.Fn != model.FunctionTypeNodeManagementDetailedDiscoveryData {
			cand = append(cand, f)
		}
	}
	if len(cand) == 0 {
		c.Count("worlds-without-sentinel(feature type has one function)", 1)
		return c02Sentinel{}
	}
	s := c02Sentinel{fn: cand[c.Rand.Intn(len(cand))], ok: true}
	gen := func() any {
		for i := 0; ; i++ {
			v := rig.GenVal(c.Rand, reflect.PtrTo(s.fn.T), 0).Interface()
			if rig.CanonAny(v) != rig.CanonAny(reflect.New(s.fn.T).Interface()) || i > 20 {
				return v
			}
		}
	}
	if ft != model.FeatureTypeTypeNodeManagement {
		lw.local.AddFunctionType(s.fn.Fn, true, true)
	}
	lw.local.SetData(s.fn.Fn, gen())
	for _, rf := range []api.FeatureRemoteInterface{lw.remote, lw.remote2} {
		if rf != nil {
			if _, err := rf.UpdateData(true, s.fn.Fn, gen(), nil, nil); err != nil {
				c.Violate("harness-world", "sentinel %s on %s: %s", s.fn.Fn, rf.Address(), err.String())
				return c02Sentinel{}
			}
		}
	}
	lw.p.Tap.Take()
	if lw.p2 != nil {
		lw.p2.Tap.Take()
	}
	c.Count("worlds-with-sentinel", 1)
	return s
}

func (s c02Sentinel) print(lw *listWorld) string {
	if !s.ok {
		return ""
	}
	parts := []string{"local " + string(s.fn.Fn) + ": " + rig.CanonAny(lw.local.DataCopy(s.fn.Fn))}
	for _, rf := range []api.FeatureRemoteInterface{lw.remote, lw.remote2} {
		if rf != nil {
			parts = append(parts, string(*rf.Address().Device)+" "+string(s.fn.Fn)+": "+rig.CanonAny(rf.DataCopy(s.fn.Fn)))
		}
	}
	return strings.Join(parts, "\n")
}

// c02NonCoveringProbe: the list types whose selector type does not cover the identifier with fields of the same name
// AND type (the generic generator builds no selector for them) still have a selector naming the identifier: a
// list-valued field of the same name (hvacSystemFunction*, powerSequenceDescription) or fields of the same name
// whose Go type differs from the item's (setpointDescription). "A delete filter removes the matching items": a
// delete whose selector names the complete identifier of ONE stored item removes exactly that item.
func c02NonCoveringProbe(c *rig.Ctx, lw *listWorld) {
	li := lw.li
	if li.SelCoversKeys || len(li.Keys) == 0 || li.SelT == nil {
		return
	}
	r := c.Rand
	var items []reflect.Value
	for id := 0; id < c02Dom; id++ {
		items = append(items, li.NewItem(r, id))
	}
	x := r.Intn(c02Dom)
	sel := reflect.New(li.SelT)
	form := "selector-field-type-differs-from-item"
	for _, k := range li.Keys {
		sf := sel.Elem().FieldByName(li.ElemT.Field(k).Name)
		kv := items[x].Field(k).Elem()
		switch {
		case sf.IsValid() && sf.Kind() == reflect.Slice && kv.Type().ConvertibleTo(sf.Type().Elem()):
			form = "list-valued-selector"
			sl := reflect.MakeSlice(sf.Type(), 1, 1)
			sl.Index(0).Set(kv.Convert(sf.Type().Elem()))
			sf.Set(sl)
		case sf.IsValid() && sf.Kind() == reflect.Ptr && kv.Type().ConvertibleTo(sf.Type().Elem()):
			pv := reflect.New(sf.Type().Elem())
			pv.Elem().Set(kv.Convert(sf.Type().Elem()))
			sf.Set(pv)
		default:
			c.Count("not-judged:selector-type-cannot-name-the-identifier", 1)
			return
		}
	}
	if _, err := lw.remote.UpdateData(true, li.Fn, li.MkList(rig.CloneItems(items)), nil, nil); err != nil {
		c.Violate("reset/error", "%s: %s", li.Fn, err.String())
		return
	}
	fd := &model.FilterType{CmdControl: &model.CmdControlType{Delete: &model.ElementTagType{}}}
	reflect.ValueOf(fd).Elem().Field(li.SelIdx).Set(sel)
	var want []reflect.Value
	for i, it := range items {
		if i != x {
			want = append(want, it)
		}
	}
	c.Count("delete-sel-on-non-covering-selector-type:"+form, 1)
	if _, err := lw.remote.UpdateData(true, li.Fn, li.MkList(nil), nil, fd); err != nil {
		c.Violate("delete-sel/"+form+"/error", "%s: %s", li.Fn, err.String())
		return
	}
	if got := rig.CloneItems(li.Items(lw.remote.DataCopy(li.Fn))); rig.Multiset(got) != rig.Multiset(want) {
		c.Violate("delete-sel/"+form+"/content-differs", "%s: the list holds identifiers 0..%d; a delete whose selector %s names the complete identifier of item %d must remove exactly that item\n store: %s\n fold:  %s",
			li.Fn, c02Dom-1, rig.JS(sel.Interface()), x, renderItems(got), renderItems(want))
		c.Witness(map[string]any{"function": li.Fn, "selector": rig.JS(sel.Interface()), "store": renderItems(got), "fold": renderItems(want)})
	}
}

// c02WidenElems lets a delete filter with elements name one to three non-identifier fields.
func c02WidenElems(c *rig.Ctx, li *rig.ListInfo, u *rig.Update) {
	if u.Kind != "delete-elem" && u.Kind != "delete-sel-elem" && u.Kind != "delete-sel-elem-conj" {
		return
	}
	extra := c.Rand.Intn(3)
	for _, i := range c.Rand.Perm(len(li.NonKeyPtr)) {
		if extra == 0 {
			break
		}
		f := li.NonKeyPtr[i]
		dup := false
		for _, e := range u.DelElem {
			if e == f {
				dup = true
			}
		}
		if dup {
			continue
		}
		try := *u
		try.DelElem = append(append([]int(nil), u.DelElem...), f)
		if _, _, ok := li.Filters(try); ok {
			u.DelElem = try.DelElem
			extra--
		}
	}
	c.Count(fmt.Sprintf("delete-elements:fields-named=%d", len(u.DelElem)), 1)
}

type c02Store struct {
	lw         *listWorld
	path       string
	peer       *rig.Peer                  // the peer whose feature is the store (remote-api, datagram)
	remote     api.FeatureRemoteInterface // its feature
	remoteAddr *model.FeatureAddressType
}

func (s *c02Store) read() []reflect.Value {
	if s.path == "local-api" {
		return rig.CloneItems(s.lw.li.Items(s.lw.local.DataCopy(s.lw.li.Fn)))
	}
	return rig.CloneItems(s.lw.li.Items(s.remote.DataCopy(s.lw.li.Fn)))
}

// others fingerprints the stores this history does not address: the same function of the other
// peer's identically numbered feature, of the local feature, of this peer's feature.
func (s *c02Store) others() string {
	lw, fn := s.lw, s.lw.li.Fn
	var parts []string
	if s.path != "local-api" {
		parts = append(parts, "local:"+rig.CanonAny(lw.local.DataCopy(fn)))
	}
	for _, rf := range []api.FeatureRemoteInterface{lw.remote, lw.remote2} {
		if rf != nil && (s.path == "local-api" || rf != s.remote) {
			parts = append(parts, string(*rf.Address().Device)+":"+rig.CanonAny(rf.DataCopy(fn)))
		}
	}
	return strings.Join(parts, "\n")
}

// set puts the store into a start state (no data / a list) through the path's own full update.
func (s *c02Store) set(data any) string {
	li := s.lw.li
	if s.path == "local-api" {
		s.lw.local.SetData(li.Fn, data)
		return ""
	}
	if _, err := s.remote.UpdateData(true, li.Fn, data, nil, nil); err != nil {
		return err.String()
	}
	return ""
}

// apply delivers u; it returns the update as the store's owner received it, an error text if the
// update was reported as failed, and the data the API call returned (nil if the path returns none).
func (s *c02Store) apply(c *rig.Ctx, u rig.Update, cj *c02Conj, variant int) (rig.Update, string, any) {
	lw, li := s.lw, s.lw.li
	fp, fd, _ := c02Filters(li, u, cj)
	switch s.path {
	case "remote-api":
		var data any = li.MkList(rig.CloneItems(u.Items))
		if strings.HasPrefix(u.Kind, "delete") && variant%2 == 1 {
			data = nil // a delete filter carries all the information a delete needs
		}
		ret, err := s.remote.UpdateData(true, li.Fn, data, fp, fd)
		if err != nil {
			return u, "UpdateData: " + err.String(), nil
		}
		return u, "", ret
	case "local-api":
		var data any = li.MkList(rig.CloneItems(u.Items))
		if strings.HasPrefix(u.Kind, "delete") && variant%2 == 1 {
			data = nil
		}
		if u.Kind == "full" && variant%2 == 0 {
			lw.local.SetData(li.Fn, data)
			return u, "", nil
		}
		if err := lw.local.UpdateData(li.Fn, data, fp, fd); err != nil {
			return u, "UpdateData: " + err.String(), nil
		}
		return u, "", nil
	default: // datagram
		cl := model.CmdClassifierTypeNotify
		if variant%2 == 0 {
			cl = model.CmdClassifierTypeReply
		}
		ack := variant%4 < 2
		b, u2, mc, err := c02WireFrom(lw, s.peer, u, cj, cl, s.remoteAddr, lw.localCli.Address(), ack)
		if err != nil {
			return u, "harness: " + err.Error(), nil
		}
		s.peer.Tap.Take()
		if rec := s.peer.Raw(b); rec != "" {
			return u2, "panic: " + rec, nil
		}
		res := rig.Classify(s.peer.Tap.Take(), mc)
		if res.Errors > 0 {
			return u2, string(cl) + " answered with an error result: " + rig.JS(res.All), nil
		}
		c.Count("datagrams:"+string(cl), 1)
		if fp, fd, _ := c02Filters(li, u2, cj); fp != nil && fd != nil {
			if u2.PartialFirst {
				c.Count("datagrams-with-two-filters:partial-filter-first", 1)
			} else {
				c.Count("datagrams-with-two-filters:delete-filter-first", 1)
			}
		}
		return u2, "", nil
	}
}

// c02MaybeShuffle turns a third of the full updates with two or more items into full updates whose
// identifiers are not in order (a full update is stored as received).
func c02MaybeShuffle(c *rig.Ctx, u *rig.Update) bool {
	if u.Kind != "full" || len(u.Items) < 2 || c.Rand.Intn(3) != 0 {
		return false
	}
	c.Rand.Shuffle(len(u.Items), func(a, b int) { u.Items[a], u.Items[b] = u.Items[b], u.Items[a] })
	return true
}

// c02OrderDemanded: a merge by identifier (partial, delete combined with partial) always yields a list
// ordered by numeric identifier; selector, identifier-less and delete updates keep the order of the
// list they are applied to, so order is demanded if the list was ordered before; a full update
// replaces verbatim.
func c02OrderDemanded(kind string, orderedBefore bool) bool {
	switch kind {
	case "full":
		return false
	case "partial", "del+partial", "del-conj+partial":
		return true
	}
	return orderedBefore
}

// itemsOfResult extracts list items from what UpdateData returned: the list struct or the bare slice.
func itemsOfResult(li *rig.ListInfo, ret any) ([]reflect.Value, bool) {
	if ret == nil {
		return nil, false
	}
	v := reflect.ValueOf(ret)
	switch {
	case v.Type() == li.PtrT:
		return li.Items(ret), true
	case v.Kind() == reflect.Slice && v.Type().Elem() == li.ElemT:
		var out []reflect.Value
		for i := 0; i < v.Len(); i++ {
			out = append(out, v.Index(i))
		}
		return out, true
	}
	return nil, false
}

func c02Case(c *rig.Ctx) {
	lists := rig.DiscoverLists()
	li := &lists[c.Index%len(lists)]
	r := c.Rand
	c02CheckPinned(c, li, c.Index%len(lists) == 0)
	// the data features are Generic ones (they hold every function) in even rounds and of the function's own feature
	// type in odd rounds (the per-type function tables are separate code)
	T := li.FeatureType
	if (c.Index/len(lists))%2 == 1 && li.FeatureType != model.FeatureTypeTypeNodeManagement {
		T = c02PinnedFeatureType[li.Fn]
		if T == "" {
			T = featureTypeOf(li.Fn)
		}
		if got := featureTypeOf(li.Fn); got != T {
			c.Violate("identity/list-functions-differ-from-pinned", "%s is pinned as a function of feature type %s; the function tables yield %s", li.Fn, T, got)
		}
	}
	lw, err := newListWorld(c.Tag(), li, T, false)
	if err != nil {
		c.Violate("harness-world", "%v", err)
		return
	}
	defer lw.close()
	if err := lw.addPeer2(); err != nil {
		c.Violate("harness-world", "%v", err)
		return
	}
	c.Seen("world_feature_types", string(T))
	sentinel := c02SetupSentinel(c, lw)

	histories := c.Pick(60, 150)
	var shapeSeq strings.Builder
	var sample []string
	comparisons, changedShapes := 0, map[string]bool{}
	paths := map[string]int{}
	for h := 0; h < histories && !c.Failed(); h++ {
		st := &c02Store{lw: lw, peer: lw.p, remote: lw.remote, remoteAddr: lw.remoteAddr}
		if r.Intn(2) == 0 {
			st.peer, st.remote, st.remoteAddr = lw.p2, lw.remote2, lw.remote2Addr
		}
		switch x := r.Intn(20); {
		case x < 4:
			st.path = "datagram"
		case x < 12:
			st.path = "remote-api"
		default:
			st.path = "local-api"
		}
		paths[st.path]++
		var ref []reflect.Value
		var hist []string
		sentinelStart := sentinel.print(lw)
		start := r.Intn(5)
		if start > 2 {
			start = 2
		}
		switch start {
		case 0:
			if e := st.set(typedNil(li)); e != "" {
				c.Violate("reset/error", "%s %s: clearing the data failed: %s", li.Fn, st.path, e)
			}
			hist = append(hist, "start: no data")
		case 1:
			st.set(li.MkList(nil))
			hist = append(hist, "start: empty list")
		default:
			u, _ := li.GenUpdate(r, 0, c02Dom)
			c02AddUnidentified(c, li, &u)
			c02MaybeShuffle(c, &u)
			st.set(li.MkList(rig.CloneItems(u.Items)))
			ref = rig.CloneItems(u.Items)
			hist = append(hist, "start: "+u.String())
		}
		if now := sentinel.print(lw); now != sentinelStart {
			c.Violate("start/other-function-changed", "%s %s: %s changed the data of another function (%s)\n before:\n%s\n after:\n%s", li.Fn, st.path, hist[0], sentinel.fn.Fn, sentinelStart, now)
			sentinel = c02Sentinel{}
		}
		if got := st.read(); rig.Multiset(got) != rig.Multiset(ref) {
			c.Violate("start/content-differs", "%s %s: after %s the store holds %s", li.Fn, st.path, hist[0], renderItems(got))
			ref = got
		}
		fmt.Fprintf(&shapeSeq, "|%s:%d", st.path[:1], start)
		steps := 4 + r.Intn(3)
		for s := 0; s < steps; s++ {
			u, ok := genUpdate(c, li, c02Dom)
			if !ok {
				continue
			}
			// "a delete filter removes the matching items": every ninth update is a delete whose selector names
			// only a part of the identifier or a non-identifier field of a stored item and may match several items
			if r.Intn(9) == 0 {
				if mu, mok := li.GenMultiDelete(r, ref); mok {
					u = mu
					matched := len(ref) - len(li.RefApply(ref, u))
					c.Count(fmt.Sprintf("delete-sel-multi:items-matched=%d", min(matched, 3)), 1)
				}
			}
			// a selector is a conjunction of ALL the elements it names: every sixth update carries a selector naming two
			// or more elements (the identifier plus further elements of the item, or a part of a multi-key identifier),
			// built from the stored items so that it agrees with one of them in all, or in all but one, of the elements
			var cj *c02Conj
			if r.Intn(6) == 0 {
				if cu, x, cok := c02GenConj(c, li, ref); cok {
					u, cj = cu, x
				}
			}
			// the data of a partial+selector update may name identifier elements as well (every eighth update): the
			// selected identifier again, a new identifier no stored item holds, one element of a multi-key identifier
			if cj == nil && r.Intn(8) == 0 {
				if su, sok := c02GenSelIdent(c, li, ref); sok {
					u = su
				}
			}
			// a full update may list items without (complete) identifier
			c02AddUnidentified(c, li, &u)
			if n := c02CountUnidentified(li, ref); n > 0 && (u.Kind == "partial" || u.Kind == "del+partial" || u.Kind == "del-conj+partial") {
				c.Count(fmt.Sprintf("merges-by-identifier-into-a-list-holding-items-without-complete-identifier:items=%d", min(n, 3)), 1)
			}
			c02WidenElems(c, li, &u)
			variant := r.Intn(4)
			if c02MaybeShuffle(c, &u) {
				c.Count("full-updates-with-unordered-identifiers", 1)
			}
			shapeSeq.WriteString("," + u.Kind)
			c.Count("updates:"+st.path+":"+u.Kind, 1)
			before := rig.Multiset(ref)

			// the value a non-persisting partial or delete update returns is the fold as well, and the store does not
			// move (a non-persisting filter-less update is a merge by design and not judged). The probe is the update
			// that follows or a DIFFERENT one (an update that is applied for real right afterwards would hide a probe
			// that wrote through).
			if st.path == "remote-api" && variant == 3 {
				up, upcj := u, cj
				if r.Intn(2) == 0 {
					for try := 0; try < 6; try++ {
						if x, ok := genUpdate(c, li, c02Dom); ok && x.Kind != "full" {
							up, upcj = x, nil
							c02WidenElems(c, li, &up)
							break
						}
					}
				}
				if up.Kind != "full" {
					upDesc := up.String()
					if upcj != nil {
						upDesc += " " + upcj.String(li)
					}
					fp, fd, _ := c02Filters(li, up, upcj)
					ret, e := st.remote.UpdateData(false, li.Fn, li.MkList(rig.CloneItems(up.Items)), fp, fd)
					c.Count("nonpersisting-probes", 1)
					if e != nil {
						c.Violate(up.Kind+"/nonpersist-error", "%s: UpdateData(persist=false) failed: %s\n update: %s\n history: %s", li.Fn, e.String(), upDesc, strings.Join(hist, "\n   "))
					} else if items, ok := itemsOfResult(li, ret); ok {
						comparisons++
						if want := c02Ref(li, ref, up, upcj); rig.Multiset(items) != rig.Multiset(want) {
							c.Violate(up.Kind+"/nonpersist-result-differs", "%s: UpdateData(persist=false) returned %s\n fold: %s\n update: %s\n history: %s", li.Fn, renderItems(items), renderItems(want), upDesc, strings.Join(hist, "\n   "))
						}
					}
					comparisons++
					if got := st.read(); rig.Multiset(got) != before {
						c.Violate(up.Kind+"/nonpersist-changed-store", "%s: UpdateData(persist=false) changed the stored data\n update: %s\n store before: %s\n store after:  %s\n history: %s", li.Fn, upDesc, renderItems(ref), renderItems(got), strings.Join(hist, "\n   "))
						c.Witness(map[string]any{"function": li.Fn, "history": hist, "nonpersisting_update": upDesc, "store": renderItems(got), "fold": renderItems(ref)})
						ref = got
						before = rig.Multiset(ref)
					}
				}
			}

			othersBefore := st.others()
			sentinelBefore := sentinel.print(lw)
			// "ordered before": the fold AND the stored list (the fold appends new identifiers where the store sorts
			// them in, so once an item has been renumbered by a selector update the two orders may differ)
			orderedBefore := orderedByNumericId(li, ref)
			var storeBefore []reflect.Value
			if orderedBefore || u.Kind == "partial-sel-ident" {
				storeBefore = st.read()
				orderedBefore = orderedBefore && orderedByNumericId(li, storeBefore)
			}
			ur, errText, ret := st.apply(c, u, cj, variant)
			if cj != nil {
				hist = append(hist, st.path+" "+ur.String()+" "+cj.String(li))
			} else {
				hist = append(hist, st.path+" "+ur.String())
			}
			if now := sentinel.print(lw); now != sentinelBefore {
				c.Violate(u.Kind+"/other-function-changed", "%s via %s (peer %s): an update of this function changed the data of ANOTHER function (%s) of a feature\n update: %s\n before:\n%s\n after:\n%s", li.Fn, st.path, st.peer.Addr, sentinel.fn.Fn, ur, sentinelBefore, now)
				sentinel = c02Sentinel{} // reported once
			}
			if now := st.others(); now != othersBefore {
				c.Violate(u.Kind+"/other-store-changed", "%s via %s (peer %s): an update of one store changed the same function's data of another feature (the local one, or the identically numbered feature of the other peer)\n update: %s\n before:\n%s\n after:\n%s", li.Fn, st.path, st.peer.Addr, ur, othersBefore, now)
			}
			ref = c02Ref(li, ref, ur, cj)
			got := st.read()
			comparisons++
			// order by numeric identifier is judged for lists whose items all carry a complete identifier; after a
			// partial+selector update whose data renumbers the item, if the plain overlay (the item stays in its
			// place) is itself ordered
			orderJudged := c02OrderDemanded(u.Kind, orderedBefore)
			if orderJudged && c02CountUnidentified(li, ref) > 0 {
				orderJudged = false
				c.Count("not-judged:order(the-list-holds-items-without-complete-identifier)", 1)
			}
			if orderJudged && u.Kind == "partial-sel-ident" && !orderedByNumericId(li, li.RefApply(storeBefore, ur)) {
				orderJudged = false
				if orderedByNumericId(li, got) {
					c.Count("not-judged:order-after-renumbering-selector-update(store-ordered)", 1)
				} else {
					c.Count("not-judged:order-after-renumbering-selector-update(store-left-unordered)", 1)
				}
			}
			dev := ""
			switch {
			case errText != "":
				dev = "error"
			case rig.Multiset(got) != rig.Multiset(ref):
				dev = "content-differs"
			case duplicateId(li, got) != "":
				dev = "duplicate-identifier"
			case orderJudged && !orderedByNumericId(li, got):
				dev = "not-ordered"
			}
			if dev == "" && u.Kind != "full" && u.Kind != "partial-sel-ident" && !orderedByNumericId(li, got) {
				// a selector, identifier-less or delete update applied to a list that an unordered full update
				// left unordered: the fold keeps the order, nothing re-sorts; counted, not judged
				c.Count("not-judged:list-left-unordered-by-"+u.Kind+"-after-unordered-full", 1)
			}
			if dev == "" && ret != nil {
				if items, ok := itemsOfResult(li, ret); ok && rig.Multiset(items) != rig.Multiset(ref) {
					dev = "result-differs"
					got = items
				}
			}
			if dev == "" {
				// idempotence: the same update once more
				repeatDev := "not-idempotent"
				if again := c02Ref(li, ref, ur, cj); rig.Multiset(again) != rig.Multiset(ref) {
					if u.Kind != "del-conj+partial" {
						c.Violate("harness-fold-not-idempotent", "%s %s", li.Fn, hist[len(hist)-1])
					}
					// a delete whose selector names a non-identifier element, combined with a partial update that gives an
					// item exactly that value: the first application does not delete the item, the merge makes it match, the
					// second application deletes it and merges into nothing. The fold of the sequence with the update given
					// twice is what the statement fixes here; "changes nothing" is not demanded of such an update.
					c.Count("not-judged:idempotence(the-merge-of-the-update-makes-an-item-match-its-own-delete-selector)", 1)
					ref = again
					repeatDev = "content-differs-on-repeat"
				}
				_, errText, _ = st.apply(c, u, cj, variant)
				got = st.read()
				comparisons++
				switch {
				case errText != "":
					dev = "error-on-repeat"
				case rig.Multiset(got) != rig.Multiset(ref):
					dev = repeatDev
				case duplicateId(li, got) != "":
					dev = "duplicate-identifier-on-repeat"
				case orderJudged && !orderedByNumericId(li, got):
					dev = "not-ordered-on-repeat"
				}
			}
			if dev != "" {
				c.Violate(u.Kind+"/"+dev, "%s via %s: %s %s\n update:  %s\n store:   %s\n fold:    %s\n history:\n   %s", li.Fn, st.path, dev, errText, hist[len(hist)-1], renderItems(got), renderItems(ref), strings.Join(hist, "\n   "))
				c.Witness(map[string]any{"function": li.Fn, "path": st.path, "history": hist, "store": renderItems(got), "fold": renderItems(ref), "deviation": dev, "detail": errText})
				ref = st.read() // resynchronise so that one deviation is reported once
			}
			if rig.Multiset(ref) != before {
				changedShapes[u.Kind] = true
			}
		}
		if len(sample) == 0 && h == 1 {
			sample = append(hist, "final: "+renderItems(st.read()))
		}
	}
	if !c.Failed() {
		c02NonCoveringProbe(c, lw)
		comparisons++
	}
	c.Events(int64(comparisons))
	c.Count("comparisons", int64(comparisons))
	c.Count("histories", int64(histories))
	for p, n := range paths {
		c.Count("histories:"+p, int64(n))
	}
	c.Seen("functions", string(li.Fn))
	hs := fnv.New64a()
	hs.Write([]byte(shapeSeq.String()))
	c.Shape(fmt.Sprintf("%s/%x", li.Fn, hs.Sum64()))
	needShapes := 3
	if len(li.Keys) == 0 {
		needShapes = 2
	}
	c.NonTrivial(comparisons >= 100 && len(paths) == 3 && len(changedShapes) >= needShapes)
	c.Sample(map[string]any{"function": li.Fn, "keys": len(li.Keys), "histories": histories, "comparisons": comparisons, "one_history": sample})
}
