package checks

import (
	"fmt"
	"time"

	"github.com/enbility/spine-go/api"
	"github.com/enbility/spine-go/model"
	"github.com/enbility/spine-go/spine"
	"github.com/enbility/spine-go/util"

	"verifharness/rig"
)

// One operation of the duel matrix / the soak. s = connection it addresses, side = 0|1 names the
// duellist (unique ids), k = repetition (deterministic variation).
type c17Op struct {
	name   string
	conn   bool // per-connection operation: duelled against the same and against another connection
	fixed0 bool // needs the binding that only peer 0 holds: always connection 0
	hook   bool // passes a verifPoint window: extra repetitions with jitter hooks
	wait   bool // needs a sequential preparation or waits for one of the stack's own timers (duel only)
	once   bool // blocks until a timer fired: executed once per duel instead of c17Inner times
	rare   int  // soak: executed only every rare-th time it is drawn (destructive operations)
	prep   func(cw *c17W, s, side int)
	eta    func(cw *c17W) time.Duration // timer operations: time from the barrier until the timer fires
	f      func(cw *c17W, s, side, k int)
}

var c17HookPoints = []string{"UseCase.afterCopy", "GetOrAddFeature.afterMiss", "AddBinding.afterCheck", "ApproveOrDenyWrite.afterLookup",
	"Heartbeat.start.afterStop", "Heartbeat.stop.afterCheck", "RemoveRemoteDevice.beforeCleanup"}

// c17Rot calls the accessors in rotated order: an access that is only partly ordered by lock hand-overs (an
// unlocked read followed by a locked section of the same object) is reported only if nothing that takes the
// same lock precedes it since the opponent's write, so every accessor has to come first in some execution.
func c17Rot(k int, fs ...func()) {
	for i := range fs {
		fs[(k+i)%len(fs)]()
	}
}

func c17Ops() []c17Op {
	read := model.CmdClassifierTypeRead
	reply := model.CmdClassifierTypeReply
	notify := model.CmdClassifierTypeNotify
	call := model.CmdClassifierTypeCall
	e1a, e2a := []uint{1}, []uint{2}
	nmRead := func(cmd model.CmdType) func(cw *c17W, s, side, k int) {
		return func(cw *c17W, s, side, k int) { cw.in(s, read, cw.nm(s), rig.LNM, false, nil, cmd) }
	}
	nmCall := func(mk func(cw *c17W, s int) model.CmdType) func(cw *c17W, s, side, k int) {
		return func(cw *c17W, s, side, k int) { cw.in(s, call, cw.nm(s), rig.LNM, true, nil, mk(cw, s)) }
	}
	prepWrite := func(cw *c17W, s, side int) {
		cw.ensurePushCB()
		mc := cw.in(0, model.CmdClassifierTypeWrite, cw.pa(0, e1a, 1), cw.lc.Address(), true, nil, c17LimCmd(40+side))
		cw.pendMsg[side].Store(cw.awaitPend(mc))
		cw.pendAt[side].Store(time.Now().UnixNano())
	}
	verdict := func(err model.ErrorType) func(cw *c17W, s, side, k int) {
		return func(cw *c17W, s, side, k int) {
			m := cw.pendMsg[side].Load()
			if k%2 == 1 { // both duellists decide the same write
				if m0 := cw.pendMsg[0].Load(); m0 != nil {
					m = m0
				}
			}
			if m != nil {
				if cw.state == 1 && k%8 == 0 {
					// busy state: the approval timeout is 20 ms; let the verdict meet the timer
					due := time.Unix(0, cw.pendAt[side].Load()).Add(20*time.Millisecond - time.Duration((k*137+side*61)%900)*time.Microsecond)
					if d := time.Until(due); d > 0 && d < 25*time.Millisecond {
						time.Sleep(d)
					}
				}
				cw.lc.ApproveOrDenyWrite(m, err)
			}
		}
	}
	return []c17Op{
		// ---- inbound messages on connection s
		{name: "in.read.discovery", conn: true, f: nmRead(model.CmdType{NodeManagementDetailedDiscoveryData: &model.NodeManagementDetailedDiscoveryDataType{}})},
		{name: "in.read.usecase", conn: true, hook: true, f: nmRead(model.CmdType{NodeManagementUseCaseData: &model.NodeManagementUseCaseDataType{}})},
		{name: "in.read.registries", conn: true, f: func(cw *c17W, s, side, k int) {
			cw.in(s, read, cw.nm(s), rig.LNM, false, nil, model.CmdType{NodeManagementSubscriptionData: &model.NodeManagementSubscriptionDataType{}})
			cw.in(s, read, cw.nm(s), rig.LNM, false, nil, model.CmdType{NodeManagementBindingData: &model.NodeManagementBindingDataType{}})
		}},
		{name: "in.read.destinationlist", conn: true, f: nmRead(model.CmdType{NodeManagementDestinationListData: &model.NodeManagementDestinationListDataType{}})},
		{name: "in.read.limits", conn: true, f: func(cw *c17W, s, side, k int) {
			cw.in(s, read, cw.pa(s, e1a, 1), cw.lc.Address(), false, nil, model.CmdType{LoadControlLimitListData: &model.LoadControlLimitListDataType{}})
		}},
		{name: "in.read.unknown-feature", conn: true, f: func(cw *c17W, s, side, k int) {
			cw.in(s, read, cw.pa(s, e1a, 1), rig.FA(rig.LocalAddr, e1a, 77), false, nil, model.CmdType{LoadControlLimitListData: &model.LoadControlLimitListDataType{}})
		}},
		// two writers: peer 0 holds the binding of [1]/1, peer 1 the one of [2]/3
		{name: "in.write.limits", fixed0: true, f: func(cw *c17W, s, side, k int) {
			c17Rot(k, func() {
				cw.in(0, model.CmdClassifierTypeWrite, cw.pa(0, e1a, 1), cw.lc.Address(), true, nil, c17LimCmd(10+side+2*k))
			}, func() {
				cw.in(1, model.CmdClassifierTypeWrite, cw.pa(1, e1a, 1), cw.lc2.Address(), true, nil, c17LimCmd(11+side+2*k))
			})
		}},
		// The bindings change hands with writes pending: [1]/1 between the two healthy peers (the giver writes, gives the
		// binding up, the taker binds and writes: the feature then holds pending writes, timers and counted approvals of
		// two connections), [2]/3 between peer 1 and a peer WITHOUT writer, whose writes end in a result that can not be
		// sent whatever the verdict is (approved, denied, timed out, or applied at once where no callback is registered).
		{name: "in.binding-handover+write", rare: 3, f: func(cw *c17W, s, side, k int) {
			wr := model.CmdClassifierTypeWrite
			bindReq := func(client *model.FeatureAddressType, server api.FeatureLocalInterface) model.CmdType {
				return model.CmdType{NodeManagementBindingRequestCall: spine.NewNodeManagementBindingRequestCallType(client, server.Address(), model.FeatureTypeTypeLoadControl)}
			}
			bindDel := func(client *model.FeatureAddressType, server api.FeatureLocalInterface) model.CmdType {
				return model.CmdType{NodeManagementBindingDeleteCall: spine.NewNodeManagementBindingDeleteCallType(client, server.Address())}
			}
			taker, muteTakes := (s+k)%2, k%2 == 0
			if cw.soak { // random k: the healthy writers hold their bindings most of the time
				taker, muteTakes = []int{0, 1, 0, 0}[k%4], k%4 == 1
			}
			giver := 1 - taker
			cw.in(giver, wr, cw.pa(giver, e1a, 1), cw.lc.Address(), true, nil, c17LimCmd(70+side+2*k))
			cw.in(giver, call, cw.nm(giver), rig.LNM, true, nil, bindDel(cw.pa(giver, e1a, 1), cw.lc))
			cw.in(taker, call, cw.nm(taker), rig.LNM, true, nil, bindReq(cw.pa(taker, e1a, 1), cw.lc))
			cw.in(taker, wr, cw.pa(taker, e1a, 1), cw.lc.Address(), true, nil, c17LimCmd(71+side+2*k))
			if muteTakes {
				cw.in(1, call, cw.nm(1), rig.LNM, true, nil, bindDel(cw.pa(1, e1a, 1), cw.lc2))
				cw.muteIn(s, false, false, func(m *c17Mute, send c17MuteSend) {
					send(call, rig.FA(m.addr, []uint{0}, 0), rig.LNM, true, nil, bindReq(rig.FA(m.addr, e1a, 1), cw.lc2))
					send(wr, rig.FA(m.addr, e1a, 1), cw.lc2.Address(), true, nil, c17LimCmd(72+side+2*k))
					send(wr, rig.FA(m.addr, e1a, 1), cw.lc2.Address(), true, nil, c17LimCmd(73+side+2*k))
					send(wr, rig.FA(m.addr, e1a, 1), cw.lc2.Address(), true, nil, c17LimCmd(74+side+2*k))
				})
			} else {
				cw.muteIn(s, false, false, func(m *c17Mute, send c17MuteSend) {
					send(call, rig.FA(m.addr, []uint{0}, 0), rig.LNM, true, nil, bindDel(rig.FA(m.addr, e1a, 1), cw.lc2))
				})
				cw.in(1, call, cw.nm(1), rig.LNM, true, nil, bindReq(cw.pa(1, e1a, 1), cw.lc2))
				cw.in(1, wr, cw.pa(1, e1a, 1), cw.lc2.Address(), true, nil, c17LimCmd(75+side+2*k))
			}
		}},
		// (notify, reply, result and subscribe address a feature of entity [1] AND its twin of entity [2] - the entity the
		// RemoveEntity(shared) operation takes away - in rotated order)
		{name: "in.notify.meas", conn: true, f: func(cw *c17W, s, side, k int) {
			c17Rot(k, func() { cw.in(s, notify, cw.pa(s, e1a, 2), cw.mcl.Address(), false, nil, c17MeasCmd(side+k, k%2 == 0)) },
				func() {
					cw.in(s, notify, cw.pa(s, e2a, 1), cw.meas2.Address(), false, nil, c17MeasCmd(side+k, k%4 < 2))
				})
		}},
		{name: "in.reply.meas(matching)", conn: true, f: func(cw *c17W, s, side, k int) {
			c17Rot(k, func() {
				cw.in(s, reply, cw.pa(s, e1a, 2), cw.mcl.Address(), false, util.Ptr(model.MsgCounterType(cw.cn(s).reqMc.Load())), c17MeasCmd(side, false))
			}, func() {
				cw.in(s, reply, cw.pa(s, e2a, 1), cw.meas2.Address(), false, util.Ptr(model.MsgCounterType(cw.cn(s).reqMc2.Load())), c17MeasCmd(side, false))
			})
		}},
		{name: "in.result(matching)", conn: true, f: func(cw *c17W, s, side, k int) {
			c17Rot(k, func() {
				cw.in(s, model.CmdClassifierTypeResult, cw.pa(s, e1a, 2), cw.mcl.Address(), false, util.Ptr(model.MsgCounterType(cw.cn(s).reqMc.Load())),
					model.CmdType{ResultData: &model.ResultDataType{ErrorNumber: util.Ptr(model.ErrorNumberType(k % 2))}})
			}, func() {
				cw.in(s, model.CmdClassifierTypeResult, cw.pa(s, e2a, 1), cw.meas2.Address(), false, util.Ptr(model.MsgCounterType(cw.cn(s).reqMc2.Load())),
					model.CmdType{ResultData: &model.ResultDataType{ErrorNumber: util.Ptr(model.ErrorNumberType(k / 2 % 2))}})
			})
		}},
		{name: "in.subscribe", conn: true, f: func(cw *c17W, s, side, k int) {
			c17Rot(k, func() {
				cw.in(s, call, cw.nm(s), rig.LNM, true, nil, model.CmdType{NodeManagementSubscriptionRequestCall: spine.NewNodeManagementSubscriptionRequestCallType(cw.pa(s, e1a, 3), cw.dd.Address(), model.FeatureTypeTypeDeviceDiagnosis)})
			}, func() {
				cw.in(s, call, cw.nm(s), rig.LNM, true, nil, model.CmdType{NodeManagementSubscriptionRequestCall: spine.NewNodeManagementSubscriptionRequestCallType(cw.pa(s, e1a, 3), cw.dd2.Address(), model.FeatureTypeTypeDeviceDiagnosis)})
			})
		}},
		{name: "in.unsubscribe", conn: true, f: nmCall(func(cw *c17W, s int) model.CmdType {
			return model.CmdType{NodeManagementSubscriptionDeleteCall: spine.NewNodeManagementSubscriptionDeleteCallType(cw.pa(s, e1a, 1), cw.lc.Address())}
		})},
		{name: "in.bind", conn: true, hook: true, f: nmCall(func(cw *c17W, s int) model.CmdType {
			return model.CmdType{NodeManagementBindingRequestCall: spine.NewNodeManagementBindingRequestCallType(cw.pa(s, e1a, 3), cw.dd.Address(), model.FeatureTypeTypeDeviceDiagnosis)}
		})},
		{name: "in.unbind", conn: true, f: nmCall(func(cw *c17W, s int) model.CmdType {
			return model.CmdType{NodeManagementBindingDeleteCall: spine.NewNodeManagementBindingDeleteCallType(cw.pa(s, e1a, 1), cw.lc.Address())}
		})},
		{name: "in.discovery.reply", conn: true, f: func(cw *c17W, s, side, k int) { cw.announce(s) }},
		{name: "in.discovery.notify.add", conn: true, f: func(cw *c17W, s, side, k int) {
			d := cw.discovery(s, []rig.FS{{Ent: []uint{3}, Id: 1, Typ: model.FeatureTypeTypeMeasurement, Role: model.RoleTypeServer, Desc: "added"}},
				map[string]model.NetworkManagementStateChangeType{"[3]": model.NetworkManagementStateChangeTypeAdded}, nil)
			if k%2 == 1 { // take it away again, so that the next round adds it again
				d = cw.discovery(s, nil, nil, [][]uint{{3}})
			}
			cw.in(s, notify, cw.nm(s), rig.LNM, false, nil, model.CmdType{Function: util.Ptr(model.FunctionTypeNodeManagementDetailedDiscoveryData), Filter: []model.FilterType{*model.NewFilterTypePartial()}, NodeManagementDetailedDiscoveryData: d})
		}},
		{name: "in.discovery.notify.remove", conn: true, f: func(cw *c17W, s, side, k int) {
			var d *model.NodeManagementDetailedDiscoveryDataType
			kk := k % 4
			if cw.soak { // random k: entity [1] comes back three times as often as it goes
				kk = []int{0, 1, 2, 3, 0, 1, 3, 3}[k%8]
			}
			switch kk {
			case 0:
				d = cw.discovery(s, nil, nil, [][]uint{{2}})
			case 1: // announce it again, so that the next round removes it again
				d = cw.discovery(s, c17Feats()[4:], map[string]model.NetworkManagementStateChangeType{"[2]": model.NetworkManagementStateChangeTypeAdded}, nil)
			case 2:
				// the BUSY entity of the peer goes: the one that holds the binding and the subscriptions to the local server
				// features, whose writes wait for their verdict and whose server feature the local client is subscribed and bound to
				d = cw.discovery(s, nil, nil, [][]uint{{1}})
			default: // ... and comes back: the peer binds and subscribes again, as it would
				d = cw.discovery(s, c17Feats()[1:4], map[string]model.NetworkManagementStateChangeType{"[1]": model.NetworkManagementStateChangeTypeAdded}, nil)
			}
			cw.in(s, notify, cw.nm(s), rig.LNM, false, nil, model.CmdType{Function: util.Ptr(model.FunctionTypeNodeManagementDetailedDiscoveryData), Filter: []model.FilterType{*model.NewFilterTypePartial()}, NodeManagementDetailedDiscoveryData: d})
			if kk == 3 {
				cw.rebind(s, cw.in)
			}
		}},
		{name: "in.discovery.notify.full", conn: true, f: func(cw *c17W, s, side, k int) {
			feats := c17Feats()
			if k%2 == 0 {
				feats = feats[:4] // entity [2] disappears
			}
			cw.in(s, notify, cw.nm(s), rig.LNM, false, nil, model.CmdType{NodeManagementDetailedDiscoveryData: cw.discovery(s, feats, nil, nil)})
		}},
		{name: "in.usecase.reply", conn: true, f: func(cw *c17W, s, side, k int) {
			cl := reply
			var ref *model.MsgCounterType
			if k%2 == 1 {
				cl = notify
			} else {
				ref = util.Ptr(model.MsgCounterType(3))
			}
			cw.in(s, cl, cw.nm(s), rig.LNM, false, ref, model.CmdType{NodeManagementUseCaseData: c17UseCaseData(cw.cn(s).addr)})
		}},

		// ---- local data
		{name: "api.SetData", f: func(cw *c17W, s, side, k int) {
			cw.lc.SetData(model.FunctionTypeLoadControlLimitListData, c17Limits(side+k))
		}},
		{name: "api.UpdateData", f: func(cw *c17W, s, side, k int) {
			c := c17LimCmd(20 + side + k)
			cw.lc.UpdateData(model.FunctionTypeLoadControlLimitListData, c.LoadControlLimitListData, model.NewFilterTypePartial(), nil)
			if k%2 == 1 {
				del := &model.FilterType{CmdControl: &model.CmdControlType{Delete: &model.ElementTagType{}},
					LoadControlLimitListDataSelectors: &model.LoadControlLimitListDataSelectorsType{LimitId: util.Ptr(model.LoadControlLimitIdType(3))}}
				cw.lc.UpdateData(model.FunctionTypeLoadControlLimitListData, &model.LoadControlLimitListDataType{}, nil, del) // (a nil data argument panics in UpdateDataAny: not a concurrency matter)
			}
		}},
		// (the copy is read, retained by the duellist and read again in its next round: keep)
		{name: "api.DataCopy.local", f: func(cw *c17W, s, side, k int) {
			c17Rot(k, func() { cw.keep(&cw.keptOp[side], cw.lc.DataCopy(model.FunctionTypeLoadControlLimitListData)) },
				func() { cw.keep(&cw.keptOp[side], cw.lc2.DataCopy(model.FunctionTypeLoadControlLimitListData)) },
				func() { _ = rig.JS(cw.local.NodeManagement().DataCopy(model.FunctionTypeNodeManagementUseCaseData)) })
		}},
		{name: "api.DataCopy.remote", conn: true, f: func(cw *c17W, s, side, k int) {
			if f := cw.rf(s, e1a, 2); f != nil {
				cw.keep(&cw.keptOp[side], f.DataCopy(model.FunctionTypeMeasurementListData))
			}
			if f := cw.rf(s, e2a, 1); f != nil {
				cw.keep(&cw.keptOp[side], f.DataCopy(model.FunctionTypeMeasurementListData))
			}
		}},
		{name: "api.FeatureRemote.meta", conn: true, f: func(cw *c17W, s, side, k int) {
			for _, id := range []uint{1, 2} {
				if f := cw.rf(s, e1a, id); f != nil {
					c17Rot(k, func() { _ = f.Operations() }, func() { _ = f.Description() }, func() { _ = f.MaxResponseDelayDuration() },
						func() { _ = f.String() }, func() { _, _, _ = f.Type(), f.Role(), f.Address().String() })
				}
			}
		}},

		// ---- use cases
		{name: "api.UseCase.add", hook: true, f: func(cw *c17W, s, side, k int) {
			cw.e1.AddUseCaseSupport(model.UseCaseActorTypeCEM, model.UseCaseNameTypeLimitationOfPowerProduction, "1.0.0", "", true, []model.UseCaseScenarioSupportType{1, 2, 3})
		}},
		{name: "api.UseCase.remove", hook: true, f: func(cw *c17W, s, side, k int) {
			if k%2 == 0 {
				cw.e1.RemoveUseCaseSupport(model.UseCaseActorTypeCEM, model.UseCaseNameTypeLimitationOfPowerConsumption)
			} else {
				cw.e2.RemoveAllUseCaseSupports()
			}
		}},
		{name: "api.UseCase.setAvailability", hook: true, f: func(cw *c17W, s, side, k int) {
			cw.e1.SetUseCaseAvailability(model.UseCaseActorTypeCEM, model.UseCaseNameTypeLimitationOfPowerConsumption, (side+k)%2 == 0)
		}},
		{name: "api.UseCase.has", f: func(cw *c17W, s, side, k int) {
			c17Rot(k, func() {
				_ = cw.e1.HasUseCaseSupport(model.UseCaseActorTypeCEM, model.UseCaseNameTypeLimitationOfPowerConsumption)
			},
				func() { _ = cw.e2.HasUseCaseSupport(model.UseCaseActorTypeEV, model.UseCaseNameTypeEVStateOfCharge) })
		}},
		{name: "api.DeviceRemote.UseCases", conn: true, f: func(cw *c17W, s, side, k int) { _ = rig.JS(cw.rd(s).UseCases()) }},

		// ---- local tree
		{name: "api.AddEntity+RemoveEntity(fresh)", conn: true, f: func(cw *c17W, s, side, k int) {
			e := spine.NewEntityLocal(cw.local, model.EntityTypeTypeEV, spine.NewAddressEntityType([]uint{uint(5 + side)}), c17HbTimeout)
			m := e.GetOrAddFeature(model.FeatureTypeTypeMeasurement, model.RoleTypeClient)
			d := e.GetOrAddFeature(model.FeatureTypeTypeDeviceDiagnosis, model.RoleTypeServer)
			d.AddFunctionType(model.FunctionTypeDeviceDiagnosisHeartbeatData, true, false) // starts its heartbeat
			cw.local.AddEntity(e)
			e.AddUseCaseSupport(model.UseCaseActorTypeEV, model.UseCaseNameTypeEVStateOfCharge, "1.0.0", "", true, []model.UseCaseScenarioSupportType{1})
			_, _ = m.SubscribeToRemote(cw.pa(s, e1a, 2))
			_, _ = m.BindToRemote(cw.pa(s, e1a, 2))
			cw.local.RemoveEntity(e)
		}},
		// The removed state lasts a whole round of the duel (removal in even rounds, re-addition in odd ones), and the
		// re-addition restores what the removal took away (use cases, the client feature's subscriptions and bindings to
		// the peer, the heartbeat), so that every removal meets a populated entity again. The soak does both at once.
		{name: "api.RemoveEntity(shared)+AddEntity", rare: 10, f: func(cw *c17W, s, side, k int) {
			if cw.soak || k%2 == 0 {
				cw.local.RemoveEntity(cw.e2)
			}
			if cw.soak || k%2 == 1 {
				cw.local.AddEntity(cw.e2)
				_, _ = cw.meas2.SubscribeToRemote(cw.pa(s, e2a, 1))
				_, _ = cw.meas2.BindToRemote(cw.pa(s, e2a, 1))
				cw.e2.AddUseCaseSupport(model.UseCaseActorTypeEV, model.UseCaseNameTypeEVStateOfCharge, "1.0.0", "", true, []model.UseCaseScenarioSupportType{1})
			}
		}},
		// the same with the BUSY entity [1]: it holds the bound server feature with its pending approvals and timers, the
		// heartbeat with its subscribers and the client feature with its outstanding requests and callbacks
		{name: "api.RemoveEntity(busy)+AddEntity", rare: 10, f: func(cw *c17W, s, side, k int) {
			if cw.soak || k%2 == 0 {
				cw.local.RemoveEntity(cw.e1)
			}
			if cw.soak || k%2 == 1 {
				cw.local.AddEntity(cw.e1)
				cw.e1.AddUseCaseSupport(model.UseCaseActorTypeCEM, model.UseCaseNameTypeLimitationOfPowerConsumption, "1.0.0", "", true, []model.UseCaseScenarioSupportType{1, 2})
				_ = cw.e1.HeartbeatManager().StartHeartbeat()
				_, _ = cw.mcl.SubscribeToRemote(cw.pa(s, e1a, 2))
				_, _ = cw.mcl.BindToRemote(cw.pa(s, e1a, 2))
			}
		}},
		{name: "api.GetOrAddFeature", hook: true, f: func(cw *c17W, s, side, k int) {
			c17Rot(k, func() { _ = cw.e1.GetOrAddFeature(model.FeatureTypeTypeSetpoint, model.RoleTypeServer) },
				func() { _ = cw.e2.GetOrAddFeature(model.FeatureTypeTypeSetpoint, model.RoleTypeServer) },
				func() { _ = cw.e1.FeatureOfTypeAndRole(model.FeatureTypeTypeSetpoint, model.RoleTypeServer) },
				func() { _ = cw.e1.FeatureOfAddress(util.Ptr(model.AddressFeatureType(4))) },
				func() { _ = cw.e1.Features() })
		}},
		{name: "api.AddFunctionType", f: func(cw *c17W, s, side, k int) {
			cw.lc.AddFunctionType(model.FunctionTypeLoadControlLimitDescriptionListData, true, false)
			cw.lc.AddFunctionType(model.FunctionTypeLoadControlLimitConstraintsListData, true, k%2 == 0)
		}},
		{name: "api.Functions+Information", f: func(cw *c17W, s, side, k int) {
			c17Rot(k, func() { _ = cw.lc.Functions() }, func() { _ = rig.JS(cw.lc.Information()) }, func() { _ = cw.lc.Operations() },
				func() { _ = rig.JS(cw.e1.Information()) }, func() { _ = rig.JS(cw.local.Information()) }, func() { _ = rig.JS(cw.local.DestinationData()) })
		}},
		{name: "api.SetDescription", f: func(cw *c17W, s, side, k int) {
			cw.lc.SetDescriptionString(fmt.Sprint("limits ", side, k))
			_ = cw.lc.Description()
			cw.e1.SetDescription(util.Ptr(model.DescriptionType(fmt.Sprint("cem ", side, k))))
			_ = cw.e1.Description()
		}},
		{name: "api.LocalTree.read", f: func(cw *c17W, s, side, k int) {
			c17Rot(k, func() {
				for _, e := range cw.local.Entities() {
					_, _, _ = e.Address(), e.EntityType(), e.Description()
					for _, f := range e.Features() {
						_, _, _, _ = f.Address(), f.Type(), f.Role(), f.Description()
					}
				}
			}, func() { _ = cw.local.Entity(spine.NewAddressEntityType([]uint{2})) },
				func() { _ = cw.local.EntityForType(model.EntityTypeTypeEV) },
				func() { _ = cw.local.FeatureByAddress(cw.lc.Address()) },
				func() { _, _, _ = cw.local.Address(), cw.local.DeviceType(), cw.local.FeatureSet() },
				func() {
					_ = cw.e2.Features()
					_ = cw.e2.FeatureOfTypeAndRole(model.FeatureTypeTypeMeasurement, model.RoleTypeClient)
				})
		}},

		// ---- requests to remote features
		{name: "api.RequestRemoteData", conn: true, f: func(cw *c17W, s, side, k int) {
			if f := cw.rf(s, e1a, 2); f != nil {
				sel := &model.MeasurementListDataSelectorsType{MeasurementId: util.Ptr(model.MeasurementIdType(cw.uniq.Add(1)))}
				if mc, err := cw.mcl.RequestRemoteData(model.FunctionTypeMeasurementListData, sel, nil, f); err == nil && mc != nil {
					cw.cn(s).reqMc.Store(uint64(*mc)) // replies and results of the peer refer to the latest request
				}
				_, _ = cw.mcl.RequestRemoteData(model.FunctionTypeMeasurementListData, nil, nil, f) // de-duplicated
			}
			if f := cw.rf(s, e2a, 1); f != nil { // the client feature of entity [2] asks the peer's entity [2]
				sel := &model.MeasurementListDataSelectorsType{MeasurementId: util.Ptr(model.MeasurementIdType(cw.uniq.Add(1)))}
				if mc, err := cw.meas2.RequestRemoteData(model.FunctionTypeMeasurementListData, sel, nil, f); err == nil && mc != nil {
					cw.cn(s).reqMc2.Store(uint64(*mc))
				}
			}
		}},
		{name: "api.SubscribeToRemote", conn: true, f: func(cw *c17W, s, side, k int) { _, _ = cw.mcl.SubscribeToRemote(cw.pa(s, e1a, 2)) }},
		{name: "api.RemoveRemoteSubscription", conn: true, f: func(cw *c17W, s, side, k int) { _, _ = cw.mcl.RemoveRemoteSubscription(cw.pa(s, e1a, 2)) }},
		{name: "api.HasSubscription/BindingToRemote", conn: true, f: func(cw *c17W, s, side, k int) {
			c17Rot(k, func() { _ = cw.mcl.HasSubscriptionToRemote(cw.pa(s, e1a, 2)) }, func() { _ = cw.mcl.HasBindingToRemote(cw.pa(s, e1a, 2)) })
		}},
		{name: "api.BindToRemote", conn: true, f: func(cw *c17W, s, side, k int) { _, _ = cw.mcl.BindToRemote(cw.pa(s, e1a, 2)) }},
		{name: "api.RemoveRemoteBinding", conn: true, f: func(cw *c17W, s, side, k int) { _, _ = cw.mcl.RemoveRemoteBinding(cw.pa(s, e1a, 2)) }},
		{name: "api.RemoveAllRemoteSubscriptions+Bindings", f: func(cw *c17W, s, side, k int) {
			cw.mcl.RemoveAllRemoteSubscriptions()
			cw.mcl.RemoveAllRemoteBindings()
		}},
		{name: "api.AddResponse+ResultCallback", conn: true, f: func(cw *c17W, s, side, k int) {
			cb := func(msg api.ResponseMessage) {
				defer cw.guardCB("response")
				defer cw.cbEnter(c17CbResponse)()
				cw.keep(&cw.keptCB[c17CbResponse], msg.Data)
			}
			_ = cw.mcl.AddResponseCallback(model.MsgCounterType(cw.cn(s).reqMc.Load()), cb)
			if !cw.soak || cw.nResult.Add(1) <= 6 {
				cw.mcl.AddResultCallback(cb)
			}
		}},

		// ---- write approval
		{name: "api.AddWriteApprovalCallback", f: func(cw *c17W, s, side, k int) {
			if cw.soak && cw.nApproval.Add(1) > 4 {
				return
			}
			_ = cw.lc.AddWriteApprovalCallback(func(m *api.Message) {
				defer cw.guardCB("approval")
				defer cw.cbEnter(c17CbApproval)()
				cw.keepMsg(m)
				if cw.soak {
					cw.lc.ApproveOrDenyWrite(m, model.ErrorType{})
				}
			})
		}},
		{name: "api.SetWriteApprovalTimeout", f: func(cw *c17W, s, side, k int) {
			d := time.Hour
			if cw.soak {
				d = 15 * time.Millisecond
			}
			cw.lc.SetWriteApprovalTimeout(d + time.Duration(side+k)*time.Millisecond)
		}},
		{name: "api.ApproveWrite", fixed0: true, hook: true, wait: true, prep: prepWrite, f: verdict(model.ErrorType{})},
		{name: "api.DenyWrite", fixed0: true, hook: true, wait: true, prep: prepWrite, f: verdict(model.ErrorType{ErrorNumber: 7})},
		{name: "timer.approval-timeout", fixed0: true, wait: true, once: true,
			prep: func(cw *c17W, s, side int) { cw.ensurePushCB(); cw.lc.SetWriteApprovalTimeout(3 * time.Millisecond) },
			eta:  func(cw *c17W) time.Duration { return 3 * time.Millisecond },
			f: func(cw *c17W, s, side, k int) {
				mc := cw.in(0, model.CmdClassifierTypeWrite, cw.pa(0, e1a, 1), cw.lc.Address(), true, nil, c17LimCmd(60+side))
				rig.WaitFor(3*time.Second, func() bool { return rig.Classify(cw.tap(0).Peek(), mc).Errors > 0 })
			}},

		// ---- heartbeat of entity [1] (running since the world was built)
		{name: "hb.start", hook: true, f: func(cw *c17W, s, side, k int) { _ = cw.e1.HeartbeatManager().StartHeartbeat() }},
		{name: "hb.stop", hook: true, rare: 4, f: func(cw *c17W, s, side, k int) { cw.e1.HeartbeatManager().StopHeartbeat() }},
		{name: "hb.isRunning", f: func(cw *c17W, s, side, k int) { _ = cw.e1.HeartbeatManager().IsHeartbeatRunning() }},
		{name: "hb.addFunction(entity[2])", f: func(cw *c17W, s, side, k int) {
			cw.dd2.AddFunctionType(model.FunctionTypeDeviceDiagnosisHeartbeatData, true, false)
		}},
		{name: "timer.heartbeat-tick", wait: true, once: true,
			eta: func(cw *c17W) time.Duration {
				el := time.Duration(time.Now().UnixNano() - cw.hbStart.Load())
				return c17HbTimeout - el%c17HbTimeout
			},
			f: func(cw *c17W, s, side, k int) {
				if !cw.e1.HeartbeatManager().IsHeartbeatRunning() {
					return
				}
				c0 := cw.hbCounter()
				rig.WaitFor(2*time.Second, func() bool { return cw.hbCounter() > c0 })
			}},

		// ---- sender
		{name: "api.DatagramForMsgCounter", conn: true, f: func(cw *c17W, s, side, k int) {
			_, _ = cw.rd(s).Sender().DatagramForMsgCounter(model.MsgCounterType(cw.cn(s).notifyMc.Load()))
		}},
		{name: "api.Sender.Notify", conn: true, f: func(cw *c17W, s, side, k int) {
			_, _ = cw.rd(s).Sender().Notify(cw.lc.Address(), cw.pa(s, e1a, 1), model.CmdType{})
		}},
		{name: "api.Sender.Request+Write", conn: true, f: func(cw *c17W, s, side, k int) {
			sel := &model.MeasurementListDataSelectorsType{MeasurementId: util.Ptr(model.MeasurementIdType(cw.uniq.Add(1)))}
			cmd := model.CmdType{MeasurementListData: &model.MeasurementListDataType{}, Filter: []model.FilterType{{CmdControl: &model.CmdControlType{Partial: &model.ElementTagType{}}, MeasurementListDataSelectors: sel}}}
			if mc, err := cw.rd(s).Sender().Request(read, cw.mcl.Address(), cw.pa(s, e1a, 2), false, []model.CmdType{cmd}); err == nil && mc != nil {
				cw.cn(s).reqMc.Store(uint64(*mc))
			}
			_, _ = cw.rd(s).Sender().Write(cw.mcl.Address(), cw.pa(s, e1a, 2), c17MeasCmd(k, true))
			_, _ = cw.local.RequestRemoteDetailedDiscoveryData(cw.rd(s))
		}},

		// ---- connections
		{name: "api.SetupRemoteDevice", f: func(cw *c17W, s, side, k int) {
			ski := fmt.Sprintf("%s-extra%d", cw.w.Tag, side)
			if cw.soak {
				ski = fmt.Sprintf("%s-extra%d", cw.w.Tag, (side+k)%3)
			}
			cw.mu.Lock()
			cw.extras[ski] = true
			cw.mu.Unlock()
			cw.local.SetupRemoteDevice(ski, &rig.Tap{})
		}},
		{name: "api.RemoveRemoteDeviceConnection", conn: true, hook: true, rare: 20, f: func(cw *c17W, s, side, k int) {
			cw.local.RemoveRemoteDeviceConnection(cw.cn(s).ski)
			if cw.soak && k%2 == 0 {
				cw.local.RemoveRemoteDeviceConnection(fmt.Sprintf("%s-extra%d", cw.w.Tag, k%3))
			}
		}},
		{name: "api.RemoteDevices+ForSki+ForAddress", conn: true, f: func(cw *c17W, s, side, k int) {
			c17Rot(k, func() { _ = cw.local.RemoteDevices() }, func() { _ = cw.local.RemoteDeviceForSki(cw.cn(s).ski) },
				func() { _ = cw.local.RemoteDeviceForAddress(model.AddressDeviceType(cw.cn(s).addr)) })
		}},
		{name: "api.Registries", conn: true, f: func(cw *c17W, s, side, k int) {
			rd := cw.rd(s)
			c17Rot(k, func() { _ = cw.local.SubscriptionManager().Subscriptions(rd) },
				func() { _ = cw.local.SubscriptionManager().SubscriptionsOnFeature(*cw.lc.Address()) },
				func() { _ = cw.local.BindingManager().Bindings(rd) },
				func() { _ = cw.local.BindingManager().BindingsOnFeature(*cw.lc.Address()) },
				func() { _ = cw.local.BindingManager().HasLocalFeatureRemoteBinding(cw.lc.Address(), cw.pa(s, e1a, 1)) })
		}},
		{name: "api.RemoteTree.read", conn: true, f: func(cw *c17W, s, side, k int) {
			rd := cw.rd(s)
			var ent api.EntityRemoteInterface // entity [1] as the application remembered it from an earlier event
			if i := s % len(cw.conns); i < len(cw.ent1) {
				ent = cw.ent1[i]
			}
			c17Rot(k, func() {
				if ent != nil {
					_ = rd.FeatureByEntityTypeAndRole(ent, model.FeatureTypeTypeMeasurement, model.RoleTypeServer)
				}
			}, func() {
				for _, e := range rd.Entities() {
					_, _, _ = e.Address().String(), e.Description(), e.EntityType()
					for _, f := range e.Features() {
						_, _, _ = f.Type(), f.Address().String(), f.Description()
					}
				}
			}, func() { _, _, _, _ = rd.Address(), rd.DeviceType(), rd.FeatureSet(), rd.Ski() },
				func() { _ = rig.JS(rd.DestinationData()) },
				func() { _ = rd.Entity(spine.NewAddressEntityType([]uint{2})) },
				func() { _ = rd.FeatureByAddress(cw.pa(s, e1a, 2)) },
				func() {
					if ent != nil {
						_ = ent.FeatureOfTypeAndRole(model.FeatureTypeTypeLoadControl, model.RoleTypeClient)
						_ = ent.Features()
					}
				}, func() {
					if ent != nil {
						_, _ = ent.Description(), ent.Address().String()
						_ = ent.FeatureOfAddress(util.Ptr(model.AddressFeatureType(2)))
					}
				})
		}},

		// ---- a connection without writer (every send to it fails): its discovery reply and some of its requests are
		// handled, then the requests an application sends to a peer are issued, each at least twice per duel
		{name: "mute.discovery-reply+requests", conn: true, f: func(cw *c17W, s, side, k int) {
			rd := cw.muteIn(s, k%16 == 15, k%2 == 0, func(m *c17Mute, send c17MuteSend) {
				send(read, rig.FA(m.addr, []uint{0}, 0), rig.LNM, false, nil, model.CmdType{NodeManagementDetailedDiscoveryData: &model.NodeManagementDetailedDiscoveryDataType{}})
			}, cw.muteSubs)
			cw.muteRequests(s, rd, k)
		}},

		// ---- what the removal of a remote entity runs on every local feature, called by the application
		{name: "api.CleanRemoteEntityCaches", conn: true, f: func(cw *c17W, s, side, k int) {
			cw.local.CleanRemoteEntityCaches(rig.EA(cw.cn(s).addr, []uint{2}))
			if k%2 == 1 {
				cw.lc.CleanRemoteEntityCaches(rig.EA(cw.cn(s).addr, e1a)) // the entity pending writes come from
			}
		}},

		// ---- event bus
		{name: "api.Events.Subscribe+Unsubscribe", f: func(cw *c17W, s, side, k int) {
			h := &c17Handler{cw: cw}
			_ = spine.Events.Subscribe(h)
			_ = spine.Events.Unsubscribe(h)
		}},
		{name: "api.Events.Publish", conn: true, f: func(cw *c17W, s, side, k int) {
			spine.Events.Publish(api.EventPayload{Ski: cw.cn(s).ski, EventType: api.EventTypeDataChange, ChangeType: api.ElementChangeUpdate, Device: cw.rd(s), Feature: cw.rf(s, e1a, 2),
				Function: model.FunctionTypeMeasurementListData, Data: c17MeasCmd(k, false).MeasurementListData})
		}},

		// ---- what the removal of a connection runs on every local feature (FeatureLocalInterface.CleanWriteApprovalCaches),
		// called by the application in bursts for connections that are not the feature's writer (peer 1 and a connection without
		// writer on [1]/1, peer 0 and an extra connection on [2]/3; the soak also cleans the writers' own entries), and - once per
		// world and duellist, in its second round - the real thing: a writer (peer 0 of [1]/1 or peer 1 of [2]/3 in turn) whose write waits for its verdict
		// loses its connection, comes back, binds again and writes again, so that the feature's per-connection approval maps
		// (pending timers, counted approvals) are dropped and created anew while the opponent's writes, verdicts and timers use
		// them. The preparation registers an approval callback on [1]/1, so that writes ARE pending in every prior state.
		{name: "api.CleanWriteApprovalCaches+writer-reconnect", conn: true, prep: func(cw *c17W, s, side int) { cw.ensurePushCB() },
			f: func(cw *c17W, s, side, k int) {
				// duel: once per world and duellist, in its second round (then the bursts go on while the opponent works); soak: every 16th time
				if (cw.soak && k%16 == 1) || (!cw.soak && k%c17InnerN == 1 && cw.churned[side].CompareAndSwap(false, true)) {
					w := (s + k/c17InnerN) % 2
					f := []api.FeatureLocalInterface{cw.lc, cw.lc2}[w]
					cw.in(w, model.CmdClassifierTypeWrite, cw.pa(w, e1a, 1), f.Address(), true, nil, c17LimCmd(80+side+2*k))
					cw.reconnect(w)
					cw.in(w, model.CmdClassifierTypeWrite, cw.pa(w, e1a, 1), f.Address(), true, nil, c17LimCmd(81+side+2*k))
					return
				}
				extra := fmt.Sprintf("%s-extra%d", cw.w.Tag, side)
				for i := 0; i < 8; i++ {
					c17Rot(k+i, func() { cw.lc.CleanWriteApprovalCaches(cw.cn(1).ski) }, func() { cw.lc2.CleanWriteApprovalCaches(cw.cn(0).ski) },
						func() { cw.lc.CleanWriteApprovalCaches(cw.mutes[0].ski) }, func() { cw.lc2.CleanWriteApprovalCaches(extra) })
				}
				if cw.soak && k%4 == 0 {
					cw.lc.CleanWriteApprovalCaches(cw.cn(0).ski)
					cw.lc2.CleanWriteApprovalCaches(cw.cn(1).ski)
				}
			}},

		// ---- the heartbeat manager of entity [1] is given its DeviceDiagnosis feature AGAIN through the public
		// HeartbeatManagerInterface while its stream is running and HAS TICKED (timeout 100 ms): the preparation sleeps until
		// just after the next tick of the stream that runs since the world was built - blindly, by the clock: observing the
		// tick through DataCopy or a writer would order the tick before this operation for the race detector, and a sleep
		// that misses the tick only makes the repetition less sharp. (Last in the list: its preparation is the last thing
		// before the duel. hb.addFunction(entity[2]) reaches the same method on a manager whose stream has not ticked yet.)
		{name: "hb.SetLocalFeature(running+ticked)", rare: 2,
			prep: func(cw *c17W, s, side int) {
				el := time.Duration(time.Now().UnixNano() - cw.hbStart.Load())
				time.Sleep(c17HbTimeout - el%c17HbTimeout + 10*time.Millisecond)
			},
			f: func(cw *c17W, s, side, k int) { cw.e1.HeartbeatManager().SetLocalFeature(cw.e1, cw.dd) }},
	}
}
