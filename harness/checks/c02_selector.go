package checks

import (
	"encoding/json"
	"fmt"
	"hash/fnv"
	"reflect"
	"sort"
	"strings"
	"sync"

	"github.com/enbility/spine-go/model"
	"github.com/enbility/spine-go/util"

	"verifharness/rig"
)

// C02, the selector dimension: a selector is a CONJUNCTION of all the elements it names.
//
// The shapes of rig.GenUpdate build selectors that name the complete identifier and nothing else, and
// rig.GenMultiDelete builds selectors naming one single element. A selector type offers more: besides the
// identifier fields most of them can name further elements of the item (limitType, scopeType, measurementId,
// commodityType, ...), and the multi-key types can name any subset of the identifier. "A selector confines the
// update to the matching item" / "a delete filter removes the matching items or clears the named fields": an item
// matches if it has EVERY named element with the named value. The updates built here carry selectors naming two or
// more elements, whose values are taken from one stored item (all agree), or agree in the identifier and differ in
// another element, or differ in an identifier element and agree in the others, or name an element the stored item
// does not have. The reference below is written from that sentence alone; which elements a selector can name is
// read from the selector struct (that is the input space, not an expectation).

// c02SelElem: one element a selector of the list type can name, and the item field it refers to.
type c02SelElem struct {
	sel, item int    // field index in the selector struct / in the item struct
	form      string // same: identical pointer types; convert: scalars of differently named types; list: the selector element may be given several times
	key       bool   // the item field is part of the identifier
}

var (
	c02SelElemsMu    sync.Mutex
	c02SelElemsCache = map[model.FunctionType][]c02SelElem{}
)

func isScalarKind(k reflect.Kind) bool {
	switch k {
	case reflect.Bool, reflect.String, reflect.Int, reflect.Int8, reflect.Int16, reflect.Int32, reflect.Int64,
		reflect.Uint, reflect.Uint8, reflect.Uint16, reflect.Uint32, reflect.Uint64, reflect.Float32, reflect.Float64:
		return true
	}
	return false
}

// c02SelElems lists the selector elements whose meaning for an item is plain: the item has a single-valued
// (pointer) field of the same name holding the same kind of value. Selector elements without a field of that name
// in the item (timestampInterval, ...) and elements referring to a list-valued item field are left out.
func c02SelElems(li *rig.ListInfo) []c02SelElem {
	c02SelElemsMu.Lock()
	defer c02SelElemsMu.Unlock()
	if es, ok := c02SelElemsCache[li.Fn]; ok {
		return es
	}
	var es []c02SelElem
	if li.SelT != nil {
		for i := 0; i < li.SelT.NumField(); i++ {
			sf := li.SelT.Field(i)
			itf, ok := li.ElemT.FieldByName(sf.Name)
			if !ok || !sf.IsExported() || itf.Type.Kind() != reflect.Ptr || len(itf.Index) != 1 {
				continue
			}
			e := c02SelElem{sel: i, item: itf.Index[0]}
			for _, k := range li.Keys {
				if k == e.item {
					e.key = true
				}
			}
			it := itf.Type.Elem()
			switch {
			case sf.Type == itf.Type:
				e.form = "same"
			case sf.Type.Kind() == reflect.Ptr && isScalarKind(it.Kind()) && sf.Type.Elem().Kind() == it.Kind():
				e.form = "convert"
			case sf.Type.Kind() == reflect.Slice && isScalarKind(it.Kind()) && sf.Type.Elem().Kind() == it.Kind():
				e.form = "list"
			default:
				continue
			}
			es = append(es, e)
		}
	}
	c02SelElemsCache[li.Fn] = es
	return es
}

// c02Conj: the selector of one update: every FieldMatch names an item field and the value it must have.
type c02Conj struct {
	Sel   []rig.FieldMatch
	forms map[int]c02SelElem // by item field
	class string
}

func (cj *c02Conj) String(li *rig.ListInfo) string {
	var ps []string
	for _, m := range cj.Sel {
		ps = append(ps, li.ElemT.Field(m.Field).Name+"="+rig.Canon(m.Val.Elem()))
	}
	return "selector{" + strings.Join(ps, " AND ") + "} (" + cj.class + ")"
}

// build renders the selector struct (a fresh one on every call).
func (cj *c02Conj) build(li *rig.ListInfo) reflect.Value {
	s := reflect.New(li.SelT)
	for _, m := range cj.Sel {
		e := cj.forms[m.Field]
		f := s.Elem().Field(e.sel)
		switch e.form {
		case "same":
			p := reflect.New(m.Val.Type().Elem())
			p.Elem().Set(m.Val.Elem())
			f.Set(p)
		case "convert":
			p := reflect.New(f.Type().Elem())
			p.Elem().Set(m.Val.Elem().Convert(f.Type().Elem()))
			f.Set(p)
		case "list":
			sl := reflect.MakeSlice(f.Type(), 1, 1)
			sl.Index(0).Set(m.Val.Elem().Convert(f.Type().Elem()))
			f.Set(sl)
		}
	}
	return s
}

// matches: the item has every named element with the named value.
func (cj *c02Conj) matches(it reflect.Value) bool {
	for _, m := range cj.Sel {
		f := it.Field(m.Field)
		if f.IsNil() || rig.Canon(f.Elem()) != rig.Canon(m.Val.Elem()) {
			return false
		}
	}
	return true
}

func c02IsConjKind(kind string) bool {
	switch kind {
	case "partial-sel-conj", "delete-sel-conj", "delete-sel-elem-conj", "del-conj+partial":
		return true
	}
	return false
}

// c02GenConj draws an update whose selector names two or more elements, from the stored items cur.
func c02GenConj(c *rig.Ctx, li *rig.ListInfo, cur []reflect.Value) (rig.Update, *c02Conj, bool) {
	r := c.Rand
	u := rig.Update{SelKey: -1, DelSel: -1}
	es := c02SelElems(li)
	if len(li.Keys) == 0 || len(es) < 2 || len(cur) == 0 {
		return u, nil, false
	}
	var keyE, extraE []c02SelElem
	for _, e := range es {
		if e.key {
			keyE = append(keyE, e)
		} else {
			extraE = append(extraE, e)
		}
	}
	coversId := len(keyE) == len(li.Keys)

	kinds := []string{"delete-sel-conj", "del-conj+partial"}
	if coversId && len(extraE) > 0 {
		kinds = append(kinds, "partial-sel-conj", "partial-sel-conj")
	}
	if li.ElT != nil && len(li.NonKeyPtr) > 0 {
		kinds = append(kinds, "delete-sel-elem-conj")
	}
	u.Kind = kinds[r.Intn(len(kinds))]

	// the elements named: the complete identifier plus one or two further elements ("the matching item" is unique;
	// always so for a partial update), or - delete filters only - any two or three elements
	var F []c02SelElem
	unique := coversId && len(extraE) > 0 && (u.Kind == "partial-sel-conj" || r.Intn(3) != 0)
	if unique {
		F = append(F, keyE...)
		n := 1 + r.Intn(min(2, len(extraE)))
		for _, i := range r.Perm(len(extraE))[:n] {
			F = append(F, extraE[i])
		}
	} else {
		// half of them from the elements outside the identifier alone, if there are two (several stored items may
		// agree in them: an identifier-less update gives every item the same values)
		from := es
		if len(extraE) >= 2 && r.Intn(2) == 0 {
			from = extraE
		}
		n := 2 + r.Intn(min(2, len(from)-1))
		for _, i := range r.Perm(len(from))[:n] {
			F = append(F, from[i])
		}
	}
	sort.Slice(F, func(a, b int) bool { return F[a].sel < F[b].sel })

	a := cur[r.Intn(len(cur))]
	cj := &c02Conj{forms: map[int]c02SelElem{}}
	fresh := func(e c02SelElem, not string) (reflect.Value, bool) {
		for try := 0; try < 12; try++ {
			var v reflect.Value
			if e.key {
				v = li.NewItem(r, r.Intn(c02Dom+2)).Field(e.item)
			} else {
				v = rig.GenVal(r, li.ElemT.Field(e.item).Type, 1)
			}
			if rig.Canon(v.Elem()) != not {
				return v, true
			}
		}
		return reflect.Value{}, false
	}
	lacks := false
	for _, e := range F {
		cj.forms[e.item] = e
		f := a.Field(e.item)
		var v reflect.Value
		if f.IsNil() {
			lacks = true
			var ok bool
			if v, ok = fresh(e, ""); !ok {
				return u, nil, false
			}
		} else {
			v = reflect.New(f.Type().Elem())
			v.Elem().Set(f.Elem())
		}
		cj.Sel = append(cj.Sel, rig.FieldMatch{Field: e.item, Val: v})
	}

	// which element differs from the stored item
	plan := r.Intn(5)
	var pool []int
	switch {
	case plan < 2:
		cj.class = "all-elements-agree-with-a-stored-item"
	case plan < 4:
		for i, e := range F {
			if !e.key {
				pool = append(pool, i)
			}
		}
		cj.class = "identifier-elements-agree,another-element-differs"
		if len(pool) == 0 {
			for i := range F {
				pool = append(pool, i)
			}
			cj.class = "one-identifier-element-differs,the-others-agree"
		}
	default:
		for i, e := range F {
			if e.key {
				pool = append(pool, i)
			}
		}
		cj.class = "one-identifier-element-differs,the-others-agree"
		if len(pool) == 0 {
			for i := range F {
				pool = append(pool, i)
			}
			cj.class = "identifier-elements-agree,another-element-differs"
		}
	}
	if len(pool) > 0 {
		i := pool[r.Intn(len(pool))]
		e := F[i]
		was := rig.Canon(cj.Sel[i].Val.Elem())
		var v reflect.Value
		ok := false
		// preferably the value another stored item has for that element (a selector mixing two items)
		if len(cur) > 1 && r.Intn(3) != 0 {
			for _, j := range r.Perm(len(cur)) {
				if f := cur[j].Field(e.item); !f.IsNil() && rig.Canon(f.Elem()) != was {
					v = reflect.New(f.Type().Elem())
					v.Elem().Set(f.Elem())
					ok = true
					break
				}
			}
		}
		if !ok {
			if v, ok = fresh(e, was); !ok {
				return u, nil, false
			}
		}
		cj.Sel[i].Val = v
	}
	if lacks {
		cj.class = "names-an-element-the-stored-item-lacks"
	}
	if !unique {
		cj.class += "(selector-does-not-name-the-complete-identifier)"
	}

	switch u.Kind {
	case "partial-sel-conj":
		u.Items = []reflect.Value{li.NewItem(r, -1)}
	case "delete-sel-elem-conj":
		u.DelElem = []int{li.NonKeyPtr[r.Intn(len(li.NonKeyPtr))]}
	case "del-conj+partial":
		ids := r.Perm(c02Dom)
		for _, id := range ids[:1+r.Intn(2)] {
			u.Items = append(u.Items, li.NewItem(r, id))
		}
	}
	if _, _, ok := c02Filters(li, u, cj); !ok {
		return u, nil, false
	}
	matched := 0
	for _, it := range cur {
		if cj.matches(it) {
			matched++
		}
	}
	c.Count("conj-selector:"+cj.class, 1)
	c.Count(fmt.Sprintf("conj-selector:elements-named=%d", len(cj.Sel)), 1)
	c.Count(fmt.Sprintf("conj-selector:items-matched=%d", min(matched, 3)), 1)
	c.Seen("conj_selector_functions", string(li.Fn))
	return u, cj, true
}

func c02Overlay(dst, src reflect.Value) {
	for i := 0; i < src.NumField(); i++ {
		f := src.Field(i)
		switch f.Kind() {
		case reflect.Ptr, reflect.Slice, reflect.Map, reflect.Interface:
			if f.IsNil() {
				continue
			}
		}
		if dst.Field(i).CanSet() {
			dst.Field(i).Set(f)
		}
	}
}

// c02Ref folds one update into cur (cj == nil: the update carries none of the selectors built here).
func c02Ref(li *rig.ListInfo, cur []reflect.Value, u rig.Update, cj *c02Conj) []reflect.Value {
	if cj == nil {
		return li.RefApply(cur, u)
	}
	cur = rig.CloneItems(cur)
	var out []reflect.Value
	switch u.Kind {
	case "partial-sel-conj":
		// the update is confined to the matching item; the other items stay as they are
		for _, it := range cur {
			if cj.matches(it) {
				c02Overlay(it, u.Items[0])
			}
		}
		return cur
	case "delete-sel-conj":
		for _, it := range cur {
			if !cj.matches(it) {
				out = append(out, it)
			}
		}
		return out
	case "delete-sel-elem-conj":
		for _, it := range cur {
			if cj.matches(it) {
				for _, fi := range u.DelElem {
					it.Field(fi).Set(reflect.Zero(it.Field(fi).Type()))
				}
			}
		}
		return cur
	case "del-conj+partial":
		// delete first, then merge by identifier
		for _, it := range cur {
			if !cj.matches(it) {
				out = append(out, it)
			}
		}
		return li.RefApply(out, rig.Update{Kind: "partial", SelKey: -1, DelSel: -1, Items: u.Items})
	}
	panic("harness: c02Ref: kind " + u.Kind)
}

// c02Filters builds the filters of an update.
func c02Filters(li *rig.ListInfo, u rig.Update, cj *c02Conj) (fp, fd *model.FilterType, ok bool) {
	if cj == nil {
		return li.Filters(u)
	}
	del := func() *model.FilterType {
		f := &model.FilterType{CmdControl: &model.CmdControlType{Delete: &model.ElementTagType{}}}
		reflect.ValueOf(f).Elem().Field(li.SelIdx).Set(cj.build(li))
		return f
	}
	switch u.Kind {
	case "partial-sel-conj":
		fp = model.NewFilterTypePartial()
		reflect.ValueOf(fp).Elem().Field(li.SelIdx).Set(cj.build(li))
		return fp, nil, true
	case "delete-sel-conj":
		return nil, del(), true
	case "delete-sel-elem-conj":
		_, fd, ok = li.Filters(rig.Update{Kind: "delete-elem", SelKey: -1, DelSel: -1, DelElem: u.DelElem})
		if !ok || fd == nil {
			return nil, nil, false
		}
		reflect.ValueOf(fd).Elem().Field(li.SelIdx).Set(cj.build(li))
		return nil, fd, true
	case "del-conj+partial":
		return model.NewFilterTypePartial(), del(), true
	}
	return nil, nil, false
}

func c02Cmd(li *rig.ListInfo, u rig.Update, cj *c02Conj) model.CmdType {
	if cj == nil {
		return li.Cmd(u)
	}
	fp, fd, _ := c02Filters(li, u, cj)
	cmd := model.CmdType{}
	cmd.SetDataForFunction(li.Fn, li.MkList(rig.CloneItems(u.Items)))
	cmd.Function = &li.Fn
	if fd != nil {
		cmd.Filter = append(cmd.Filter, *fd)
	}
	if fp != nil {
		cmd.Filter = append(cmd.Filter, *fp)
	}
	if u.PartialFirst && len(cmd.Filter) == 2 {
		cmd.Filter[0], cmd.Filter[1] = cmd.Filter[1], cmd.Filter[0]
	}
	return cmd
}

// c02WireFrom is listWorld.wireFrom for an update that carries one of the selectors built here.
func c02WireFrom(lw *listWorld, p *rig.Peer, u rig.Update, cj *c02Conj, cl model.CmdClassifierType, src, dst *model.FeatureAddressType, ack bool) ([]byte, rig.Update, model.MsgCounterType, error) {
	if cj == nil {
		return lw.wireFrom(p, u, cl, src, dst, ack)
	}
	mc := p.NextCounter()
	h := fnv.New32a()
	h.Write([]byte(u.String() + cj.String(lw.li)))
	u.PartialFirst = (h.Sum32()^uint32(mc>>1))&1 == 1
	var ref *model.MsgCounterType
	if cl == model.CmdClassifierTypeReply {
		ref = util.Ptr(model.MsgCounterType(77))
	}
	b, err := json.Marshal(rig.Datagram(cl, src, dst, mc, ack, ref, c02Cmd(lw.li, u, cj)))
	if err != nil {
		return nil, u, mc, err
	}
	var d model.Datagram
	if err := json.Unmarshal(b, &d); err != nil {
		return nil, u, mc, err
	}
	if len(d.Datagram.Payload.Cmd) != 1 {
		return nil, u, mc, fmt.Errorf("datagram decodes to %d commands", len(d.Datagram.Payload.Cmd))
	}
	cd, err := d.Datagram.Payload.Cmd[0].Data()
	if err != nil {
		return nil, u, mc, err
	}
	u2 := u
	if rig.IsNil(cd.Value) {
		u2.Items = nil
	} else if reflect.TypeOf(cd.Value) != lw.li.PtrT {
		return nil, u, mc, fmt.Errorf("payload decodes to %T", cd.Value)
	} else {
		u2.Items = rig.CloneItems(lw.li.Items(cd.Value))
	}
	return b, u2, mc, nil
}
