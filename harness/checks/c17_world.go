package checks

import (
	"encoding/json"
	"fmt"
	"os"
	"runtime"
	"strings"
	"sync"
	"sync/atomic"
	"time"

	"github.com/enbility/spine-go/api"
	"github.com/enbility/spine-go/model"
	"github.com/enbility/spine-go/spine"
	"github.com/enbility/spine-go/util"

	"verifharness/rig"
)

// The world of C17: one local device with two application entities and two (duel) or three (soak)
// identically numbered peers. All harness-side state that several goroutines touch is behind atomics
// or a mutex: a race between two harness frames would be reported as HARNESS-RACE.

const (
	c17OpGuard   = 20 * time.Second       // watchdog of one operation
	c17HbTimeout = 100 * time.Millisecond // heartbeat timeout == ticker period (<= 2s is not shortened)
)

type c17Link struct {
	rd  api.DeviceRemoteInterface
	tap *rig.Tap
}

type c17Conn struct {
	idx         int
	ski, addr   string
	link        atomic.Pointer[c17Link]
	ctr         uint64     // the peer's message counter
	reMu        sync.Mutex // one life cycle manager per connection (disconnect/reconnect in the soak)
	inMu        sync.Mutex // soak: the messages of one connection arrive one after the other, as SHIP delivers them
	unannounced bool       // built without a discovery reply (state sparse): requests of such a peer are outside C17
	notifyMc    atomic.Uint64
	reqMc       atomic.Uint64
	reqMc2      atomic.Uint64 // latest request of the client feature of entity [2] to this peer
}

// c17Mute is a connection WITHOUT a writer (DeviceLocal.SetupRemoteDevice(ski, nil)): every datagram the stack wants
// to send to it fails inside the Sender with an error, which is the one send fault the real Sender can produce (a
// SHIP connection that is not yet / no longer writable). Inbound traffic works. It is set up lazily by the first
// operation that uses it (the detailed discovery request of SetupRemoteDevice is then the first failing send).
type c17Mute struct {
	ski, addr string
	mu        sync.Mutex // life cycle and inbound messages of this connection: one after the other, as SHIP delivers them
	ctr       uint64
}

type c17W struct {
	c      *rig.Ctx
	w      *rig.World
	local  *spine.DeviceLocal
	e1, e2 *spine.EntityLocal
	lc     api.FeatureLocalInterface // [1]/1 LoadControl server, bound by peer 0
	mcl    api.FeatureLocalInterface // [1]/2 Measurement client
	dd     api.FeatureLocalInterface // [1]/3 DeviceDiagnosis server with heartbeat
	meas2  api.FeatureLocalInterface // [2]/1 Measurement client
	dd2    api.FeatureLocalInterface // [2]/2 DeviceDiagnosis server without heartbeat function
	lc2    api.FeatureLocalInterface // [2]/3 LoadControl server, writable, bound by peer 1 (and, in turn, by a peer without writer)
	conns  []*c17Conn
	mutes  [2]c17Mute
	sparse [2]c17Mute // connections WITH writer whose discovery data omits optional elements (sparseIn)
	ent1   [3]api.EntityRemoteInterface // entity [1] of each connection as found when the world was built
	state  int
	soak   bool

	pend      chan *api.Message // writes waiting for the application's verdict
	pendMsg   [2]atomic.Pointer[api.Message]
	pendAt    [2]atomic.Int64
	pushCB    atomic.Bool
	churned   [2]atomic.Bool // duel: the writer's connection was dropped and set up again by this duellist
	nApproval atomic.Int64
	nResult   atomic.Int64
	cbRuns    atomic.Int64
	cbIn      [c17CbKinds]atomic.Int64        // callbacks of this world the stack started on its own goroutines: entered ...
	cbOut     [c17CbKinds]atomic.Int64        // ... and returned, per kind (settle: entered but never returned = stuck)
	keptOp    [2]atomic.Pointer[any]          // the last copy each duellist got from DataCopy (application-side retention)
	keptCB    [c17CbKinds]atomic.Pointer[any] // the last payload handed to a callback of each kind
	uniq      atomic.Uint64
	hbStart   atomic.Int64
	soakMode  atomic.Int32 // verdict policy of the soak approval callback

	mu     sync.Mutex
	extras map[string]bool
	appH   []api.EventHandlerInterface
	coreH  []api.EventHandlerInterface // core-level observers of the harness (c17CoreDelay), removed by close()
}

func c17Feats() []rig.FS {
	return []rig.FS{rig.NMFS,
		{Ent: []uint{1}, Id: 1, Typ: model.FeatureTypeTypeLoadControl, Role: model.RoleTypeClient, Desc: "lc client"},
		{Ent: []uint{1}, Id: 2, Typ: model.FeatureTypeTypeMeasurement, Role: model.RoleTypeServer, Fns: []model.FunctionPropertyType{rig.FnProp(model.FunctionTypeMeasurementListData, true, false)}},
		{Ent: []uint{1}, Id: 3, Typ: model.FeatureTypeTypeDeviceDiagnosis, Role: model.RoleTypeClient},
		{Ent: []uint{2}, Id: 1, Typ: model.FeatureTypeTypeMeasurement, Role: model.RoleTypeServer, Fns: []model.FunctionPropertyType{rig.FnProp(model.FunctionTypeMeasurementListData, true, false)}},
	}
}

func c17Limits(v int) *model.LoadControlLimitListDataType {
	var l []model.LoadControlLimitDataType
	for id := 1; id <= 3; id++ {
		l = append(l, model.LoadControlLimitDataType{LimitId: util.Ptr(model.LoadControlLimitIdType(id)), IsLimitChangeable: util.Ptr(true), IsLimitActive: util.Ptr(id%2 == 0),
			Value: model.NewScaledNumberType(float64(v + id))})
	}
	return &model.LoadControlLimitListDataType{LoadControlLimitData: l}
}

func c17LimCmd(v int) model.CmdType {
	return model.CmdType{LoadControlLimitListData: &model.LoadControlLimitListDataType{LoadControlLimitData: []model.LoadControlLimitDataType{
		{LimitId: util.Ptr(model.LoadControlLimitIdType(1 + v%3)), Value: model.NewScaledNumberType(float64(v))}}},
		Filter: []model.FilterType{*model.NewFilterTypePartial()}, Function: util.Ptr(model.FunctionTypeLoadControlLimitListData)}
}

func c17MeasCmd(v int, partial bool) model.CmdType {
	cmd := model.CmdType{MeasurementListData: &model.MeasurementListDataType{MeasurementData: []model.MeasurementDataType{
		{MeasurementId: util.Ptr(model.MeasurementIdType(1)), ValueType: util.Ptr(model.MeasurementValueTypeTypeValue), Value: model.NewScaledNumberType(float64(v))},
		{MeasurementId: util.Ptr(model.MeasurementIdType(2)), ValueType: util.Ptr(model.MeasurementValueTypeTypeValue), Value: model.NewScaledNumberType(float64(v + 1))}}}}
	if partial {
		cmd.Filter = []model.FilterType{*model.NewFilterTypePartial()}
		cmd.Function = util.Ptr(model.FunctionTypeMeasurementListData)
	}
	return cmd
}

func c17UseCaseData(addr string) *model.NodeManagementUseCaseDataType {
	return &model.NodeManagementUseCaseDataType{UseCaseInformation: []model.UseCaseInformationDataType{{
		Address: &model.FeatureAddressType{Device: util.Ptr(model.AddressDeviceType(addr)), Entity: spine.NewAddressEntityType([]uint{1})},
		Actor:   util.Ptr(model.UseCaseActorTypeEVSE),
		UseCaseSupport: []model.UseCaseSupportType{{UseCaseName: util.Ptr(model.UseCaseNameTypeEVSECommissioningAndConfiguration), UseCaseVersion: util.Ptr(model.SpecificationVersionType("1.0.1")),
			UseCaseAvailable: util.Ptr(true), ScenarioSupport: []model.UseCaseScenarioSupportType{1, 2}}}}}}
}

func (cw *c17W) cn(s int) *c17Conn { return cw.conns[s%len(cw.conns)] }
func (cw *c17W) rd(s int) api.DeviceRemoteInterface {
	return cw.cn(s).link.Load().rd
}
func (cw *c17W) tap(s int) *rig.Tap { return cw.cn(s).link.Load().tap }
func (cw *c17W) pa(s int, ent []uint, f uint) *model.FeatureAddressType {
	return rig.FA(cw.cn(s).addr, ent, f)
}
func (cw *c17W) nm(s int) *model.FeatureAddressType { return cw.pa(s, []uint{0}, 0) }
func (cw *c17W) rf(s int, ent []uint, f uint) api.FeatureRemoteInterface {
	return cw.rd(s).FeatureByAddress(cw.pa(s, ent, f))
}

// in delivers one well-formed datagram of peer s to the stack. The stack recovers panics of its
// message handling itself; such a recovered panic on a well-formed message is a violation here.
func (cw *c17W) in(s int, cl model.CmdClassifierType, src, dst *model.FeatureAddressType, ack bool, ref *model.MsgCounterType, cmd model.CmdType) model.MsgCounterType {
	// the messages of one connection are delivered one after the other, as the SHIP read loop does
	// (ws readPump -> HandleIncomingWebsocketMessage -> HandleShipPayloadMessage, all synchronous); messages
	// of different connections and API calls run concurrently with them
	cn := cw.cn(s)
	cn.inMu.Lock()
	defer cn.inMu.Unlock()
	return cw.inNL(s, cl, src, dst, ack, ref, cmd)
}

type c17Send func(s int, cl model.CmdClassifierType, src, dst *model.FeatureAddressType, ack bool, ref *model.MsgCounterType, cmd model.CmdType) model.MsgCounterType

func (cw *c17W) inNL(s int, cl model.CmdClassifierType, src, dst *model.FeatureAddressType, ack bool, ref *model.MsgCounterType, cmd model.CmdType) model.MsgCounterType {
	cn := cw.cn(s)
	mc := model.MsgCounterType(atomic.AddUint64(&cn.ctr, 1))
	b, err := json.Marshal(rig.Datagram(cl, src, dst, mc, ack, ref, cmd))
	if err != nil {
		panic("harness: cannot marshal datagram: " + err.Error())
	}
	if _, herr := cn.link.Load().rd.HandleSpineMesssage(b); herr != nil && strings.HasPrefix(herr.Error(), "invalid spine message:") && !cn.unannounced {
		what := herr.Error()
		if len(what) > 120 {
			what = what[:120]
		}
		cw.c.Violate("inbound-recovered-panic/"+string(cl), "handling of a well-formed %s datagram (%s) panicked inside the stack and was recovered: %s\n datagram: %s", cl, cmd.DataName(), what, b)
	}
	return mc
}

// Kinds of application callbacks the stack runs on goroutines of its own (go cb(msg), go HandleEvent(payload)).
const (
	c17CbEvent = iota
	c17CbApproval
	c17CbResponse
	c17CbKinds
)

var c17CbNames = [c17CbKinds]string{"event-handler", "approval", "response+result"}

// cbEnter counts the entry of a callback and returns the function that counts its return: `defer cw.cbEnter(kind)()`.
// "every API call completes" includes the calls an application makes from inside its callbacks: a callback that was
// entered but has not returned when the case is over is stuck (settle).
func (cw *c17W) cbEnter(kind int) func() {
	cw.cbRuns.Add(1)
	cw.cbIn[kind].Add(1)
	return func() { cw.cbOut[kind].Add(1) }
}

// keep is what an application does with data the stack hands to it (DataCopy results, event payloads, response and
// approval messages): it reads all of it (marshal) now, retains it and reads the value retained before once more, while
// the stack goes on processing partial notifies, writes and updates of the same function. A pointer into the stack's
// own cache handed out instead of a copy would make these reads race with the stack's in-place merges. The slot is an
// atomic pointer: whoever swaps a value out owns it, so two harness goroutines never share one (several goroutines of
// the soak use the same slot), and the swap orders only harness accesses, never the stack's.
func (cw *c17W) keep(slot *atomic.Pointer[any], v any) {
	if rig.IsNil(v) {
		return
	}
	_ = rig.JS(v)
	if old := slot.Swap(&v); old != nil {
		_ = rig.JS(*old)
	}
	cw.c.Count("app_reads", 2)
}

// keepMsg: an approval callback reads the write it has to decide (command, filters, header) and retains it.
func (cw *c17W) keepMsg(m *api.Message) {
	if m == nil {
		return
	}
	cw.keep(&cw.keptCB[c17CbApproval], []any{m.Cmd, m.RequestHeader, m.FilterPartial, m.FilterDelete})
}

// settle is called after the teardown of the world: every callback that was entered must return. The wait is a
// watchdog only; on expiry the case is handed to the parent's goroutine dump like an operation that does not return
// (violation hang@<frame> only if a goroutine is parked inside spine-go, otherwise inconclusive).
func (cw *c17W) settle(what string) {
	open := func() (n int64, txt string) {
		for k := 0; k < c17CbKinds; k++ {
			out := cw.cbOut[k].Load() // read first: entered >= returned at any moment
			if d := cw.cbIn[k].Load() - out; d > 0 {
				n += d
				txt += fmt.Sprintf(" %s:%d", c17CbNames[k], d)
			}
		}
		return
	}
	if !rig.WaitFor(c17OpGuard, func() bool { n, _ := open(); return n == 0 }) {
		_, txt := open()
		c17Stuck(cw.c, "callbacks entered but not returned ("+strings.TrimSpace(txt)+") after "+what)
	}
	for k := 0; k < c17CbKinds; k++ {
		out := cw.cbOut[k].Load() // read first (a handler of a late event may still come and go): entered >= returned in the evidence too
		cw.c.Count("cb_entered:"+c17CbNames[k], cw.cbIn[k].Load())
		cw.c.Count("cb_returned:"+c17CbNames[k], out)
	}
}

// c17Quiet is called at the end of a case: all goroutines the case (and the stack on its behalf: callbacks, event
// handlers, fired approval timers, heartbeat streams - all stopped by the teardown) started must be gone again.
// rig.WaitQuiet compares runtime.NumGoroutine with the count at the start of the case; nothing of the stack
// legitimately outlives the teardown (approval timers are time.AfterFunc timers: no goroutine until they fire, and a
// fired one only takes the feature's callback mutex and sends one result; a stopped heartbeat stream leaves its
// select at once). The wait is a generous watchdog; on expiry the case does not end, so that the parent's
// quiet-period monitor takes the goroutine dump: violation hang@<frame> only if a goroutine has been parked inside
// spine-go for a minute (a heartbeat stream parked forever on a leaked lock, a timer function or a callback that
// never got its mutex), otherwise inconclusive. Never a verdict by wall clock.
func c17Quiet(c *rig.Ctx, base int, what string) {
	if rig.WaitQuiet(base, c17OpGuard) {
		c.Count("quiet_at_end", 1)
		return
	}
	c17Stuck(c, fmt.Sprintf("%d goroutine(s) more than at the start of the case are still alive after %s", runtime.NumGoroutine()-base, what))
}

// callback wrappers: application callbacks run on goroutines the stack spawns; a panic there must be loud.
func (cw *c17W) guardCB(what string) {
	if r := recover(); r != nil {
		cw.c.Violate("panic-in-callback/"+what, "%v", r)
	}
}

func (cw *c17W) ensurePushCB() {
	if cw.pushCB.CompareAndSwap(false, true) {
		cw.nApproval.Add(1)
		_ = cw.lc.AddWriteApprovalCallback(func(m *api.Message) {
			defer cw.guardCB("approval")
			defer cw.cbEnter(c17CbApproval)()
			cw.keepMsg(m)
			select {
			case cw.pend <- m:
			default:
			}
		})
	}
}

// awaitPend waits (bounded) for the approval request of the write with counter mc.
func (cw *c17W) awaitPend(mc model.MsgCounterType) *api.Message {
	deadline := time.After(5 * time.Second)
	poll := time.NewTicker(time.Millisecond)
	defer poll.Stop()
	for {
		select {
		case <-poll.C:
			// rejected before it reached the approval callbacks (no binding in the sparse state), or already decided
			if r := rig.Classify(cw.tap(0).Peek(), mc); r.Errors+r.Success > 0 {
				select {
				case m := <-cw.pend:
					if m != nil && m.RequestHeader != nil && m.RequestHeader.MsgCounter != nil && *m.RequestHeader.MsgCounter == mc {
						return m
					}
				default:
				}
				return nil
			}
		case m := <-cw.pend:
			if m != nil && m.RequestHeader != nil && m.RequestHeader.MsgCounter != nil && *m.RequestHeader.MsgCounter == mc {
				return m
			}
		case <-deadline:
			return nil
		}
	}
}

func (cw *c17W) hbCounter() uint64 {
	d, ok := cw.dd.DataCopy(model.FunctionTypeDeviceDiagnosisHeartbeatData).(*model.DeviceDiagnosisHeartbeatDataType)
	if !ok || d == nil || d.HeartbeatCounter == nil {
		return 0
	}
	return *d.HeartbeatCounter
}

type c17Handler struct {
	cw   *c17W
	deep bool
}

// HandleEvent of an application level handler: it calls back into the stack, as applications do.
func (h *c17Handler) HandleEvent(p api.EventPayload) {
	defer h.cw.guardCB("event-handler")
	if !strings.HasPrefix(p.Ski, h.cw.w.Tag) {
		return
	}
	defer h.cw.cbEnter(c17CbEvent)()
	if p.Function != "" {
		h.cw.keep(&h.cw.keptCB[c17CbEvent], p.Data) // the function data itself, as the handler got it, read now and once more later
	} else {
		_ = rig.JS(p.Data)
	}
	if p.Feature != nil && p.Function != "" {
		_ = rig.JS(p.Feature.DataCopy(p.Function))
	}
	if h.deep {
		_ = h.cw.local.RemoteDevices()
		if p.Device != nil {
			_ = h.cw.local.SubscriptionManager().Subscriptions(p.Device)
			_ = p.Device.UseCases()
		}
		_ = h.cw.lc.DataCopy(model.FunctionTypeLoadControlLimitListData)
	}
}

func (cw *c17W) announce(s int) { cw.announceWith(s, cw.in) }

func (cw *c17W) announceWith(s int, send c17Send) {
	cn := cw.cn(s)
	p := &rig.Peer{Ski: cn.ski, Addr: cn.addr}
	send(s, model.CmdClassifierTypeReply, cw.nm(s), rig.LNM, false, util.Ptr(model.MsgCounterType(1)), model.CmdType{NodeManagementDetailedDiscoveryData: p.Discovery(c17Feats(), nil, nil)})
}

func (cw *c17W) discovery(s int, feats []rig.FS, states map[string]model.NetworkManagementStateChangeType, removed [][]uint) *model.NodeManagementDetailedDiscoveryDataType {
	cn := cw.cn(s)
	return (&rig.Peer{Ski: cn.ski, Addr: cn.addr}).Discovery(feats, states, removed)
}

// populate brings connection s into the rich state: bindings, subscriptions, remote data, outstanding requests.
func (cw *c17W) populate(s int, send c17Send) {
	cn := cw.cn(s)
	call := func(cmd model.CmdType) {
		send(s, model.CmdClassifierTypeCall, cw.nm(s), rig.LNM, true, nil, cmd)
	}
	if s == 0 {
		call(model.CmdType{NodeManagementBindingRequestCall: spine.NewNodeManagementBindingRequestCallType(cw.pa(s, []uint{1}, 1), cw.lc.Address(), model.FeatureTypeTypeLoadControl)})
	}
	if s == 1 { // the second writer: peer 1 holds the binding of the writable server feature of entity [2]
		call(model.CmdType{NodeManagementBindingRequestCall: spine.NewNodeManagementBindingRequestCallType(cw.pa(s, []uint{1}, 1), cw.lc2.Address(), model.FeatureTypeTypeLoadControl)})
	}
	call(model.CmdType{NodeManagementSubscriptionRequestCall: spine.NewNodeManagementSubscriptionRequestCallType(cw.pa(s, []uint{1}, 1), cw.lc.Address(), model.FeatureTypeTypeLoadControl)})
	call(model.CmdType{NodeManagementSubscriptionRequestCall: spine.NewNodeManagementSubscriptionRequestCallType(cw.nm(s), rig.LNM, model.FeatureTypeTypeNodeManagement)})
	if s != 1 {
		call(model.CmdType{NodeManagementSubscriptionRequestCall: spine.NewNodeManagementSubscriptionRequestCallType(cw.pa(s, []uint{1}, 3), cw.dd.Address(), model.FeatureTypeTypeDeviceDiagnosis)})
	}
	send(s, model.CmdClassifierTypeNotify, cw.pa(s, []uint{1}, 2), cw.mcl.Address(), false, nil, c17MeasCmd(100*s, false))
	send(s, model.CmdClassifierTypeReply, cw.nm(s), rig.LNM, false, util.Ptr(model.MsgCounterType(2)), model.CmdType{NodeManagementUseCaseData: c17UseCaseData(cn.addr)})
	if mc, err := cw.rd(s).Sender().Notify(cw.lc.Address(), cw.pa(s, []uint{1}, 1), model.CmdType{}); err == nil && mc != nil {
		cn.notifyMc.Store(uint64(*mc))
	}
	if f := cw.rf(s, []uint{1}, 2); f != nil {
		if mc, err := cw.mcl.RequestRemoteData(model.FunctionTypeMeasurementListData, nil, nil, f); err == nil && mc != nil {
			cn.reqMc.Store(uint64(*mc))
		}
	}
	if f := cw.rf(s, []uint{2}, 1); f != nil {
		if mc, err := cw.meas2.RequestRemoteData(model.FunctionTypeMeasurementListData, nil, nil, f); err == nil && mc != nil {
			cn.reqMc2.Store(uint64(*mc))
		}
	}
	a := cw.pa(s, []uint{1}, 2)
	_, _ = cw.mcl.SubscribeToRemote(a)
	_, _ = cw.mcl.BindToRemote(a)
	_, _ = cw.meas2.SubscribeToRemote(cw.pa(s, []uint{2}, 1))
	_, _ = cw.meas2.BindToRemote(cw.pa(s, []uint{2}, 1))
}

// rebind restores what the removal of the peer's entity [1] took away on connection s: the peer binds (peer 0) and
// subscribes again, the local client feature subscribes and binds to the peer's server feature again.
func (cw *c17W) rebind(s int, send c17Send) {
	call := func(cmd model.CmdType) {
		send(s, model.CmdClassifierTypeCall, cw.nm(s), rig.LNM, true, nil, cmd)
	}
	if s == 0 {
		call(model.CmdType{NodeManagementBindingRequestCall: spine.NewNodeManagementBindingRequestCallType(cw.pa(s, []uint{1}, 1), cw.lc.Address(), model.FeatureTypeTypeLoadControl)})
	}
	if s == 1 {
		call(model.CmdType{NodeManagementBindingRequestCall: spine.NewNodeManagementBindingRequestCallType(cw.pa(s, []uint{1}, 1), cw.lc2.Address(), model.FeatureTypeTypeLoadControl)})
	}
	call(model.CmdType{NodeManagementSubscriptionRequestCall: spine.NewNodeManagementSubscriptionRequestCallType(cw.pa(s, []uint{1}, 1), cw.lc.Address(), model.FeatureTypeTypeLoadControl)})
	if s != 1 {
		call(model.CmdType{NodeManagementSubscriptionRequestCall: spine.NewNodeManagementSubscriptionRequestCallType(cw.pa(s, []uint{1}, 3), cw.dd.Address(), model.FeatureTypeTypeDeviceDiagnosis)})
	}
	a := cw.pa(s, []uint{1}, 2)
	_, _ = cw.mcl.SubscribeToRemote(a)
	_, _ = cw.mcl.BindToRemote(a)
}

// autoVerdicts gives the second writable feature an approval callback whose verdict follows the message counter:
// a third of the writes is approved, a third denied, a third left to the approval timer - for the writes of a peer
// without writer each of the three ends in a result that can not be sent.
func (cw *c17W) autoVerdicts(f api.FeatureLocalInterface, timeout time.Duration) {
	f.SetWriteApprovalTimeout(timeout)
	_ = f.AddWriteApprovalCallback(func(m *api.Message) {
		defer cw.guardCB("approval")
		defer cw.cbEnter(c17CbApproval)()
		if m == nil || m.RequestHeader == nil || m.RequestHeader.MsgCounter == nil {
			return
		}
		cw.keepMsg(m)
		switch uint64(*m.RequestHeader.MsgCounter) % 3 {
		case 0:
			f.ApproveOrDenyWrite(m, model.ErrorType{})
		case 1:
			f.ApproveOrDenyWrite(m, model.ErrorType{ErrorNumber: 7})
		}
	})
}

func (cw *c17W) connect(i int) *c17Conn {
	p := cw.w.AddPeer(i)
	cn := &c17Conn{idx: i, ski: p.Ski, addr: p.Addr, ctr: uint64(i+1) * 1000000}
	cn.link.Store(&c17Link{rd: p.RD, tap: p.Tap})
	cw.conns = append(cw.conns, cn)
	return cn
}

// c17Build creates a world in one of the prior states:
//
//	0 rich:    everything announced, bound, subscribed, data present, requests outstanding
//	1 busy:    rich + approval callbacks (auto verdict) with a short timeout + application event handlers calling back
//	           + a subscribed connection without writer (mute 1)
//	2 sparse:  peer 1 connected but not yet announced, no bindings/subscriptions/data
//	3 churned: rich + full request and notify caches + peer 1 reconnected once + entity [2] removed and re-added
func c17Build(c *rig.Ctx, tag string, state int, nconn int, soak bool) *c17W {
	cw := &c17W{c: c, w: rig.NewWorld(tag), state: state, soak: soak, pend: make(chan *api.Message, 256), extras: map[string]bool{}}
	cw.local = cw.w.Local
	for i := range cw.sparse {
		cw.sparse[i].ski, cw.sparse[i].addr, cw.sparse[i].ctr = fmt.Sprintf("%s-sparse%d", tag, i), fmt.Sprintf("sparse%d", i), uint64(19000000+1000000*i)
	}
	for i := range cw.mutes {
		cw.mutes[i].ski, cw.mutes[i].addr, cw.mutes[i].ctr = fmt.Sprintf("%s-mute%d", tag, i), fmt.Sprintf("mute%d", i), uint64(9000000+1000000*i)
	}
	cw.e1 = cw.w.AddEntity(model.EntityTypeTypeCEM, []uint{1}, c17HbTimeout)
	cw.lc = cw.e1.GetOrAddFeature(model.FeatureTypeTypeLoadControl, model.RoleTypeServer)
	cw.lc.AddFunctionType(model.FunctionTypeLoadControlLimitListData, true, true)
	cw.mcl = cw.e1.GetOrAddFeature(model.FeatureTypeTypeMeasurement, model.RoleTypeClient)
	cw.dd = cw.e1.GetOrAddFeature(model.FeatureTypeTypeDeviceDiagnosis, model.RoleTypeServer)
	cw.dd.AddFunctionType(model.FunctionTypeDeviceDiagnosisStateData, true, false)
	cw.hbStart.Store(time.Now().UnixNano())
	cw.dd.AddFunctionType(model.FunctionTypeDeviceDiagnosisHeartbeatData, true, false) // starts the heartbeat of entity [1]
	cw.e2 = cw.w.AddEntity(model.EntityTypeTypeEV, []uint{2}, c17HbTimeout)
	cw.meas2 = cw.e2.GetOrAddFeature(model.FeatureTypeTypeMeasurement, model.RoleTypeClient)
	cw.dd2 = cw.e2.GetOrAddFeature(model.FeatureTypeTypeDeviceDiagnosis, model.RoleTypeServer)
	cw.dd2.AddFunctionType(model.FunctionTypeDeviceDiagnosisStateData, true, false)
	cw.lc2 = cw.e2.GetOrAddFeature(model.FeatureTypeTypeLoadControl, model.RoleTypeServer)
	cw.lc2.AddFunctionType(model.FunctionTypeLoadControlLimitListData, true, true)
	if state != 2 {
		cw.lc.SetData(model.FunctionTypeLoadControlLimitListData, c17Limits(0))
		cw.lc2.SetData(model.FunctionTypeLoadControlLimitListData, c17Limits(50))
		cw.e1.AddUseCaseSupport(model.UseCaseActorTypeCEM, model.UseCaseNameTypeLimitationOfPowerConsumption, "1.0.0", "", true, []model.UseCaseScenarioSupportType{1, 2})
		cw.e2.AddUseCaseSupport(model.UseCaseActorTypeEV, model.UseCaseNameTypeEVStateOfCharge, "1.0.0", "", true, []model.UseCaseScenarioSupportType{1})
	}
	for i := 0; i < nconn; i++ {
		cw.connect(i)
		if state == 2 && i == 1 {
			cw.cn(i).unannounced = true
			continue
		}
		cw.announceWith(i, cw.inNL)
		if state != 2 {
			cw.populate(i, cw.inNL)
		}
	}
	switch state {
	case 1:
		cw.lc.SetWriteApprovalTimeout(20 * time.Millisecond)
		cw.nApproval.Add(1)
		_ = cw.lc.AddWriteApprovalCallback(func(m *api.Message) {
			defer cw.guardCB("approval")
			defer cw.cbEnter(c17CbApproval)()
			cw.keepMsg(m)
			cw.lc.ApproveOrDenyWrite(m, model.ErrorType{})
		})
		for _, deep := range []bool{false, true} {
			h := &c17Handler{cw: cw, deep: deep}
			cw.appH = append(cw.appH, h)
			_ = spine.Events.Subscribe(h)
		}
		cw.autoVerdicts(cw.lc2, 20*time.Millisecond)
		// a peer without writer that is subscribed to LoadControl and DeviceDiagnosis [1]: every notify of a local
		// data update and every tick of the heartbeat stream meets a failing send in this state
		cw.muteIn(1, false, true, cw.muteSubs)
	case 3:
		for s := range cw.conns {
			if f := cw.rf(s, []uint{1}, 2); f != nil {
				for n := 0; n < 24; n++ {
					_, _ = cw.mcl.RequestRemoteData(model.FunctionTypeMeasurementListData, &model.MeasurementListDataSelectorsType{MeasurementId: util.Ptr(model.MeasurementIdType(1000 + n))}, nil, f)
				}
			}
		}
		for n := 0; n < 104; n++ {
			_, _ = cw.rd(0).Sender().Notify(cw.lc.Address(), cw.pa(0, []uint{1}, 1), model.CmdType{})
		}
		if nconn > 1 {
			cw.reconnect(1)
		}
		cw.local.RemoveEntity(cw.e2)
		cw.local.AddEntity(cw.e2)
	}
	for s := range cw.conns {
		cw.tap(s).Take()
		if s < len(cw.ent1) {
			cw.ent1[s] = cw.rd(s).Entity(spine.NewAddressEntityType([]uint{1}))
		}
	}
	cw.w.Core.Take()
	return cw
}

// muteIn makes sure mute connection i exists (reconnect: drop it first) and delivers the given inbound datagrams of
// that peer one after the other; with announce its detailed discovery reply comes first (the handling of that reply
// makes the local device subscribe to the peer's node management and request its use cases: two more failing sends,
// issued from inside Events.Publish). Returns the remote device object.
func (cw *c17W) muteIn(i int, reconnect, announce bool, msgs ...func(m *c17Mute, send c17MuteSend)) api.DeviceRemoteInterface {
	m := &cw.mutes[i%len(cw.mutes)]
	m.mu.Lock()
	defer m.mu.Unlock()
	rd := cw.local.RemoteDeviceForSki(m.ski)
	if rd != nil && reconnect {
		cw.local.RemoveRemoteDeviceConnection(m.ski)
		rd = nil
	}
	if rig.IsNil(rd) {
		cw.mu.Lock()
		cw.extras[m.ski] = true // removed by close()
		cw.mu.Unlock()
		cw.local.SetupRemoteDevice(m.ski, nil)
		if rd = cw.local.RemoteDeviceForSki(m.ski); rig.IsNil(rd) {
			return nil
		}
		announce = true
	}
	send := func(cl model.CmdClassifierType, src, dst *model.FeatureAddressType, ack bool, ref *model.MsgCounterType, cmd model.CmdType) {
		mc := model.MsgCounterType(atomic.AddUint64(&m.ctr, 1))
		b, err := json.Marshal(rig.Datagram(cl, src, dst, mc, ack, ref, cmd))
		if err != nil {
			panic("harness: cannot marshal datagram: " + err.Error())
		}
		if _, herr := rd.HandleSpineMesssage(b); herr != nil && strings.HasPrefix(herr.Error(), "invalid spine message:") {
			what := herr.Error()
			if len(what) > 120 {
				what = what[:120]
			}
			cw.c.Violate("inbound-recovered-panic/"+string(cl), "handling of a well-formed %s datagram (%s) of a connection without writer panicked inside the stack and was recovered: %s\n datagram: %s", cl, cmd.DataName(), what, b)
		}
	}
	if announce {
		send(model.CmdClassifierTypeReply, rig.FA(m.addr, []uint{0}, 0), rig.LNM, false, util.Ptr(model.MsgCounterType(1)),
			model.CmdType{NodeManagementDetailedDiscoveryData: (&rig.Peer{Ski: m.ski, Addr: m.addr}).Discovery(c17Feats(), nil, nil)})
	}
	for _, f := range msgs {
		f(m, send)
	}
	return rd
}

// sparseIn: a peer WITH a writer whose detailed discovery reply is legal but unusual - optional elements are omitted
// (the stack tolerates each of them explicitly: DeviceRemote.UpdateDevice and AddEntityAndFeatures skip a missing
// device address, CheckEntityInformation accepts entity addresses without device part in initial data):
//
//	variant 0: deviceInformation.description without deviceAddress
//	variant 1: deviceAddress present, its device element omitted
//	variant 2: deviceAddress present, but the entity and feature addresses carry no device part
//
// The connection is set up lazily (reconnect: dropped first), the reply is delivered, then the peer reads the local
// use case data and the local device is asked for the peer's data once more. Everything must return, and - what the
// case's other workers and the teardown judge - every LATER publication on the event bus must still complete.
func (cw *c17W) sparseIn(i, variant int, reconnect bool) {
	m := &cw.sparse[i%len(cw.sparse)]
	m.mu.Lock()
	defer m.mu.Unlock()
	rd := cw.local.RemoteDeviceForSki(m.ski)
	if !rig.IsNil(rd) && reconnect {
		cw.local.RemoveRemoteDeviceConnection(m.ski)
		rd = nil
	}
	if rig.IsNil(rd) {
		cw.mu.Lock()
		cw.extras[m.ski] = true // removed by close()
		cw.mu.Unlock()
		cw.local.SetupRemoteDevice(m.ski, &rig.Tap{})
		if rd = cw.local.RemoteDeviceForSki(m.ski); rig.IsNil(rd) {
			return
		}
	}
	d := (&rig.Peer{Ski: m.ski, Addr: m.addr}).Discovery(c17Feats(), nil, nil)
	switch variant % 3 {
	case 0:
		d.DeviceInformation.Description.DeviceAddress = nil
	case 1:
		d.DeviceInformation.Description.DeviceAddress = &model.DeviceAddressType{}
	default:
		for k := range d.EntityInformation {
			if a := d.EntityInformation[k].Description.EntityAddress; a != nil {
				a.Device = nil
			}
		}
		for k := range d.FeatureInformation {
			if a := d.FeatureInformation[k].Description.FeatureAddress; a != nil {
				a.Device = nil
			}
		}
	}
	send := func(cl model.CmdClassifierType, src, dst *model.FeatureAddressType, ref *model.MsgCounterType, cmd model.CmdType) {
		mc := model.MsgCounterType(atomic.AddUint64(&m.ctr, 1))
		b, err := json.Marshal(rig.Datagram(cl, src, dst, mc, false, ref, cmd))
		if err != nil {
			panic("harness: cannot marshal datagram: " + err.Error())
		}
		if _, herr := rd.HandleSpineMesssage(b); herr != nil && strings.HasPrefix(herr.Error(), "invalid spine message:") {
			what := herr.Error()
			if len(what) > 120 {
				what = what[:120]
			}
			cw.c.Violate("inbound-recovered-panic/"+string(cl)+"/optional-elements-omitted", "handling of a well-formed %s datagram (%s, discovery variant %d: optional address elements omitted) panicked inside the stack and was recovered: %s\n datagram: %s", cl, cmd.DataName(), variant%3, what, b)
		}
	}
	nm := rig.FA(m.addr, []uint{0}, 0)
	send(model.CmdClassifierTypeReply, nm, rig.LNM, util.Ptr(model.MsgCounterType(1)), model.CmdType{NodeManagementDetailedDiscoveryData: d})
	send(model.CmdClassifierTypeRead, nm, rig.LNM, nil, model.CmdType{NodeManagementUseCaseData: &model.NodeManagementUseCaseDataType{}})
	_, _ = cw.local.RequestRemoteDetailedDiscoveryData(rd)
	_ = rig.JS(rd.UseCases())
	for _, e := range rd.Entities() {
		_ = e.Address().String()
		for _, f := range e.Features() {
			_ = f.Address().String()
		}
	}
	cw.c.Count(fmt.Sprintf("sparse_discovery_variant%d", variant%3), 1)
}

// c17CoreDelay is a core-level observer (subscribed through the verif accessor like rig.World.Core): core-level handlers
// run synchronously inside Events.Publish, under the bus' handle lock. It only widens the window between "a publication
// of a device change holds the handle lock" and the stack's own core handler (DeviceLocal.HandleEvent, which looks the
// remote device up under DeviceLocal's mutex) by a seeded delay, as the jitter hooks do at the verifPoints. With
// resubscribe it additionally does what the bus' two-lock scheme exists for: it subscribes and unsubscribes a handler
// from inside HandleEvent (public Events.Subscribe/Unsubscribe), while other goroutines publish.
type c17CoreDelay struct {
	cw          *c17W
	resubscribe bool
	n           atomic.Int64
	windows     atomic.Int64
}

func (h *c17CoreDelay) HandleEvent(p api.EventPayload) {
	if !strings.HasPrefix(p.Ski, h.cw.w.Tag) {
		return
	}
	n := h.n.Add(1)
	if p.EventType == api.EventTypeDeviceChange {
		h.windows.Add(1)
		runtime.Gosched()
		time.Sleep(time.Duration(100+(n*37)%400) * time.Microsecond)
	}
	if h.resubscribe && n%3 == 0 {
		x := &c17Handler{cw: h.cw}
		_ = spine.Events.Subscribe(x)
		_ = spine.Events.Unsubscribe(x)
	}
}

type c17MuteSend = func(cl model.CmdClassifierType, src, dst *model.FeatureAddressType, ack bool, ref *model.MsgCounterType, cmd model.CmdType)

// muteSubs are the subscriptions a peer without writer asks for: LoadControl [1]/1 (notified by every local data
// update) and DeviceDiagnosis [1]/3 (notified by the heartbeat STREAM of entity [1] on every tick: the stream is the
// only caller that meets this failing send, and nothing waits for the stream to return). Every such notify fails
// in the Sender.
func (cw *c17W) muteSubs(m *c17Mute, send c17MuteSend) {
	nm := rig.FA(m.addr, []uint{0}, 0)
	send(model.CmdClassifierTypeCall, nm, rig.LNM, true, nil, model.CmdType{NodeManagementSubscriptionRequestCall: spine.NewNodeManagementSubscriptionRequestCallType(rig.FA(m.addr, []uint{1}, 1), cw.lc.Address(), model.FeatureTypeTypeLoadControl)})
	send(model.CmdClassifierTypeCall, nm, rig.LNM, true, nil, model.CmdType{NodeManagementSubscriptionRequestCall: spine.NewNodeManagementSubscriptionRequestCallType(rig.FA(m.addr, []uint{1}, 3), cw.dd.Address(), model.FeatureTypeTypeDeviceDiagnosis)})
}

// muteRequests issues the requests an application (and the stack on its behalf) sends to a peer: each of them fails
// with the Sender's error on a connection without writer, and each must return.
func (cw *c17W) muteRequests(i int, rd api.DeviceRemoteInterface, k int) {
	if rig.IsNil(rd) {
		return
	}
	m := &cw.mutes[i%len(cw.mutes)]
	a := rig.FA(m.addr, []uint{1}, 2)
	c17Rot(k, func() { _, _ = cw.local.RequestRemoteDetailedDiscoveryData(rd) },
		func() { _, _ = cw.mcl.SubscribeToRemote(a) },
		func() { _, _ = cw.mcl.BindToRemote(a) },
		func() {
			if f := rd.FeatureByAddress(a); !rig.IsNil(f) {
				_, _ = cw.mcl.RequestRemoteData(model.FunctionTypeMeasurementListData, nil, nil, f)
			}
		},
		func() {
			if nm, ok := cw.local.NodeManagement().(*spine.NodeManagement); ok {
				_, _ = nm.RequestUseCaseData(m.ski, rd.Address(), rd.Sender())
			}
		},
		func() { _, _ = cw.meas2.SubscribeToRemote(rig.FA(m.addr, []uint{2}, 1)) })
}

// reconnect drops connection s and sets it up again (new DeviceRemote, new Tap), then announces and populates it.
func (cw *c17W) reconnect(s int) {
	cn := cw.cn(s)
	if !cn.reMu.TryLock() {
		return
	}
	defer cn.reMu.Unlock()
	cn.inMu.Lock() // the old connection delivers nothing any more, the new one starts with the discovery reply
	defer cn.inMu.Unlock()
	cw.local.RemoveRemoteDeviceConnection(cn.ski)
	tap := &rig.Tap{}
	cw.local.SetupRemoteDevice(cn.ski, tap)
	if rd := cw.local.RemoteDeviceForSki(cn.ski); rd != nil {
		cn.link.Store(&c17Link{rd: rd, tap: tap})
	}
	cw.announceWith(s, cw.inNL)
	cw.populate(s, cw.inNL)
}

func (cw *c17W) close() {
	cw.mu.Lock()
	var ex []string
	for s := range cw.extras {
		ex = append(ex, s)
	}
	hs := cw.appH
	cw.mu.Unlock()
	for _, s := range ex {
		cw.local.RemoveRemoteDeviceConnection(s)
	}
	for _, h := range hs {
		_ = spine.Events.Unsubscribe(h)
	}
	cw.mu.Lock()
	chs := cw.coreH
	cw.mu.Unlock()
	for _, h := range chs {
		_ = spine.VerifUnsubscribeCore(h)
	}
	for _, e := range []*spine.EntityLocal{cw.e1, cw.e2} {
		if hm := e.HeartbeatManager(); hm != nil {
			hm.StopHeartbeat()
		}
	}
	cw.w.Close()
}

// c17Stuck is called when an operation did not return within its watchdog. The case must not end and no
// progress must be reported: the parent's quiet-period monitor then takes the goroutine dump that decides
// whether this is a hang inside the stack's own locks (violation hang@<frame>) or merely inconclusive.
func c17Stuck(c *rig.Ctx, what string) {
	fmt.Fprintf(os.Stderr, "\n@@STUCK %s %s case %d: %s: not finished within %s; waiting for the parent's goroutine dump\n", c.Prop, c.Part, c.Index, what, c17OpGuard)
	for {
		time.Sleep(time.Hour)
	}
}

// c17Panic turns the text returned by rig.Guard for a panicking operation into a violation.
func c17Panic(c *rig.Ctx, op, p string) {
	fr := rig.InnermostSpineFrame(p)
	if fr == "" {
		c.Violate("harness-panic", "operation %s panicked outside spine-go: %s", op, p)
		return
	}
	c.Violate("panic@"+fr, "operation %s panicked: %s", op, p)
}
