package checks

import (
	"encoding/json"
	"fmt"
	"math/rand"
	"runtime"
	"sort"
	"strconv"
	"strings"
	"sync"
	"sync/atomic"
	"time"

	"github.com/enbility/spine-go/api"
	"github.com/enbility/spine-go/model"
	"github.com/enbility/spine-go/spine"
	"github.com/enbility/spine-go/util"

	"verifharness/rig"
)

// C15 — the event bus delivers every state change once, core first, without deadlock.
//
// bus:        2 core-level harness handlers (spine.VerifSubscribeCore) + 3 application-level ones
//             (spine.Events.Subscribe; in a third of the cases the third one is ALSO subscribed at the core
//             level, so that "unsubscribe removes the right level" is observable). 1-4 publisher goroutines run
//             20-60 subscribe / unsubscribe / double-subscribe / publish operations; handlers carry a per
//             (handler, event) re-entrant action (subscribe, unsubscribe self or others, re-subscribe, publish a
//             follow-up event, call DataCopy/Subscriptions/RemoteDevices/HasUseCaseSupport, open and close a
//             connection, block until Publish returned). Every operation is bracketed by rig.Seq and every
//             handler logs entry and exit with the token carried in EventPayload.Data; the oracles read only
//             that log (DESIGN.md C15).
//             Every second case ends with a mutual-wait stage: the application handlers are subscribed anew in a
//             drawn order and one event is published during which an EARLIER subscribed application handler stays
//             inside HandleEvent until a LATER subscribed one has entered HandleEvent for the same event (c15Await;
//             also the other way round, and all of them waiting for each other).
//             Every other case ends with a burst stage (c15_burst.go): up to 220 extra application handlers, a burst of up
//             to 400 events from 1-3 goroutines, and every application-level invocation stays inside HandleEvent until
//             all Publish calls have returned and all invocations (up to 1500 at once) have been entered.
// integrated: after a peer's discovery reply the application handler of DeviceChange/add must find the
//             NodeManagement subscription call and the use-case read on that peer's tap already written.
//             The ordering the statement demands: core-level handlers run to completion before the publication
//             returns and before any application-level handler of the same event is entered. The stack's own
//             core-level handler of DeviceChange/add is DeviceLocal.HandleEvent; its work is observable as two
//             writes to the announcing peer's connection. Judged on logged order (rig.Seq): both writes have
//             RETURNED (a) before the first application-level handler of that DeviceChange/add is entered and
//             (b) before DeviceRemote.HandleSpineMesssage returns for the discovery reply (the publication
//             happens inside it). To make that deciding the connection writer is slow (0-2 ms) and, in 60% of the
//             rounds, does not return from the write of the subscription call and/or the use-case read until the
//             case opens a gate: while the write is parked the core-level handler has not finished, so neither
//             may an application handler run nor the processing return; the case holds the write until the process
//             is quiet except for the parked goroutine (sequential cases) or for a moment (concurrent cases), which
//             is pacing only - the verdict compares the logged Seq of "write complete" with "handler entered" and
//             "processing returned".
//
// cross:      c15_cross.go - two stack operations on two connections, both publishing, the event of the first one held at
//             the core level ahead of the local device while the second one runs on another goroutine (lock order
//             between the delivery lock and the locks the stack's own publishers / core-level handler take).
//
// The bus is process-global: foreign handlers (the World's core sink, DeviceLocal) stay subscribed and
// simply ignore the tokens; spine.VerifHandlerCount is only recorded.

const c15SkiPrefix = "c15ev:" // dedicated prefix, ignored by every rig.World sink

const (
	c15Core = 0
	c15App  = 1
)

func init() {
	rig.Register(&rig.Check{
		ID:    "C15",
		Floor: 120,
		Rule: "bus: case = one generated history (sequential prologue, 1-4 concurrent publisher goroutines with 20-60 operations, sequential epilogue with unsubscribe-then-publish) plus one re-entrant action per (handler, event) slot, all drawn from the case PRNG; " +
			"every second case ends with a mutual-wait stage (1-2 rounds): the application handlers are unsubscribed and subscribed anew in a drawn order (2 or 3 of them), then one event is published during which an earlier subscribed application handler stays inside HandleEvent until a later subscribed one has entered HandleEvent for the same event (bounded wait; first round: that, or all of them wait for all the others; second round also a later subscribed one waiting for an earlier one); " +
			"non-trivial if at least one exactly-once pair, one zero pair (unsubscribed before the publication) and one re-entrant action inside a handler were judged. " +
			"integrated: case = 1-3 peers announcing (concurrently in half of the cases), some after a reconnect, over a connection writer that takes 0/0.1/0.3/2 ms per write and, per round drawn, parks the write of the NodeManagement subscription call, of the use-case read, of both or of neither until the case releases it; non-trivial if every DeviceChange/add reached both application handlers and the completion of the two writes was compared with the entry of the first application handler and with the return of HandleSpineMesssage. " +
			"bus, payload: every field of every published payload is a function of (case salt, publication number): all 5 event types x 3 change types, device / entity / feature / local feature present or nil, function, classifier pointer or nil, Data nil / token pointer / model struct pointer / string; the publication number travels in the Ski; every delivery compares the whole payload with the one handed to Publish. " +
			"bus, action 'block': an application handler stays inside HandleEvent until its publication has returned, bounded by 5 s; expiry together with the logged order 'Publish returned after the handler had left' is the violation (Publish waits for application handlers). " +
			"integrated, two cases in five are connection life cycle histories (sequential script over 1-3 peers of setup / setup with FAST reply / announce / leave, six templates + 0-4 drawn steps): the announcing peer is the only connection (first ever, or first after the last connection was removed), another peer left for good between a peer's connection and its announcement, " +
			"and fast reply = the peer's discovery reply is processed on a helper goroutine from INSIDE the connection write of the discovery read, the write returning when a core-level observer subscribed before any connection has seen the event (15 s bound, expiry inconclusive); in a third of the drawn steps application handler 1 disconnects the event's own device from inside HandleEvent, handler 2 sets data on a local server feature and subscribes a local client feature to the announcing device. " +
			"bus, burst stage (every case without a mutual-wait stage): 1-3 of the application handlers and 0/5/30/70/130/220 extra application handlers are subscribed anew in a drawn order (every seventh twice), then 1-3 goroutines publish a burst of 1/3/20/70/150/400 events (events x handlers capped at 1500 quick, 5000 thorough, 900 under -race) during which EVERY application-level invocation stays inside HandleEvent until every Publish of the burst has returned and every invocation of the burst has been entered - " +
			"the number of invocations in flight at once is a drawn dimension from 1 to more than a thousand; before the wait, per stage drawn, nothing / calls into the stack / a follow-up publication by a drawn subset or by everybody; after it nothing or the handler's ordinary re-entrant action; no deadline of its own: a watchdog lets the handlers go when neither a Publish returned nor a handler was entered for 8 s, and the verdict needs the logged order (a Publish of the burst returned, or an invocation was entered, only after the handlers had been let go); then the extra handlers are unsubscribed and one more event is published (zero pairs). " +
			"integrated, connection REPLACED: in two of five reconnects of the classic cases, in three more life cycle templates (eleven in all) (the only connection replaced after / before its announcement; the remaining one replaced after another peer left for good) and in a quarter of the drawn steps SetupRemoteDevice is called for a SKI that is still registered (no RemoveRemoteDeviceConnection in between); two more templates and a sixth of the drawn steps for an unconnected peer report the end of a connection that does not exist (a peer that never connected, or a second time for a peer that has left) while another peer is connected and has not announced itself yet; " +
			"the stack's own reaction is also counted per connection: at most one NodeManagement subscription call and one use-case read for the one announcement of a connection. " +
			"Expected deliveries per peer = number of announcements of the script (classic cases: number of discovery replies processed), not what another bus handler saw. " +
			"bus, snapshot stage (every case, two rounds, c15_snap.go): all handlers are unsubscribed and subscribed anew in a drawn order, then one event is published during which a drawn actor (core-level three times in four) has a drawn victim (core or application level, earlier or later in the list) unsubscribed from inside HandleEvent - by itself or by another goroutine while it stays inside until that Unsubscribe returned; the victim was subscribed at publication time: exactly once. " +
			"bus, every publication: 'subscribed at publication time' is bounded by the first entry of any handler for that event (an event is not delivered before it is published): a handler whose unsubscription was CALLED only after that entry is an exactly-once pair, not an at-most-once pair. " +
			"cross (c15_cross.go): case = two stack operations on two of three connections (first discovery reply / subscription request / binding request / subscription delete / binding delete / end of a connection with a subscription and a binding; all 30 ordered pairs on different peers walked by the case index), the event of the first one held inside a core-level handler that precedes the local device in the handler list while the second one is started on another goroutine (one case in six: nothing held, both started together); non-trivial if the event was held (or control case) and at least two events were compared between the core-level observer and the application handler. " +
			"distinct = hash of operation kinds, targets, goroutine split and action slots.",
		Assumptions: []string{
			"a delivery is attributed to the core level if it ran on the goroutine that called Publish, else to the application level (only needed for the handler that is subscribed at both levels)",
			"handlers whose (un)subscription overlaps a publication may or may not receive it: only 'at most once' is asserted for them",
			"'not delivered' is decided after the process is back at its baseline goroutine count (every go HandleEvent has finished), never after a sleep; if that is not reached within the watchdog the case is inconclusive",
			"publishing from inside a core-level handler is not generated (the stack never does it; Publish holds its handling mutex there)",
			"a publisher or handler that does not return parks the case for the parent's hang monitor (hang@<frame>)",
			"integrated: 'the stack's internal handlers have finished' is observed through the two messages DeviceLocal.HandleEvent (the stack's core-level handler of DeviceChange/add) sends to the announcing peer: the handler has finished only when both connection writes have returned (sending is synchronous). 'before publication returns' is observed at the return of DeviceRemote.HandleSpineMesssage for the discovery reply, inside which the event is published. A parked write is released by the case at a logical point; the length of the hold never enters a verdict",
			"burst stage: 'application handlers run asynchronously' holds for any number of application-level invocations in flight: a publication never waits for an application-level invocation to return, and the start of an application-level invocation never waits for another one (of the same or of an earlier event, of the same or of another handler) to return; a handler may therefore wait inside HandleEvent for later publications to return and for their deliveries to start. The watchdog (8 s without any movement, everything involved being runnable) only ends the wait; the verdict is on the logged order",
			"snapshot stage and every publication: the moment of publication lies between the call of Publish and the first entry of any handler for that event; a handler subscribed during that whole interval was 'subscribed at publication time' whenever exactly the stack takes its snapshot. An unsubscription that only overlaps the wait of a publication for the delivery lock (no handler entered yet) stays an at-most-once pair: the harness cannot tell whether the snapshot preceded it",
			"cross: the hold of the first event ends when the second operation returned, a goroutine dump shows a second goroutine inside events.Publish, or 60 ms passed - pacing only; the verdicts are 'both operations return' (parent's hang monitor) and the multiset comparison of the events received at the two levels once the process is quiet",
			"mutual-wait stage: 'application handlers run asynchronously' includes 'with respect to each other': the delivery of an event to one application handler does not wait for another application handler of the same event to return. A handler's wait for another handler's entry is bounded by 5 s with nothing else pending in the process (Publish has started the later handler's goroutine before it returned); the verdict needs the expiry AND the logged order 'the awaited handler entered only after the waiting one had left'",
		},
		Parts: []rig.Part{
			{Name: "bus", Run: c15Bus, Procs: 4, Quiet: 50 * time.Second, Cases: func(t rig.Tier) int { return map[rig.Tier]int{rig.Quick: 300, rig.Thorough: 5000}[t] }},
			{Name: "bus-race", Race: true, Run: c15Bus, Procs: 4, Quiet: 90 * time.Second, Cases: func(t rig.Tier) int { return map[rig.Tier]int{rig.Quick: 64, rig.Thorough: 800}[t] }},
			{Name: "integrated", Run: c15Integrated, Procs: 4, Quiet: 50 * time.Second, Cases: func(t rig.Tier) int { return map[rig.Tier]int{rig.Quick: 80, rig.Thorough: 800}[t] }},
			{Name: "leave-join", Run: c15LeaveJoin, Procs: 4, Quiet: 90 * time.Second, Cases: func(t rig.Tier) int { return map[rig.Tier]int{rig.Quick: 60, rig.Thorough: 1200}[t] }},
			{Name: "cross", Run: c15Cross, Procs: 4, Quiet: 45 * time.Second, Cases: func(t rig.Tier) int { return map[rig.Tier]int{rig.Quick: 60, rig.Thorough: 600}[t] }},
			{Name: "cross-race", Race: true, Run: c15Cross, Procs: 4, Quiet: 90 * time.Second, Cases: func(t rig.Tier) int { return map[rig.Tier]int{rig.Quick: 16, rig.Thorough: 150}[t] }},
			{Name: "integrated-race", Race: true, Run: c15Integrated, Procs: 4, Quiet: 90 * time.Second, Cases: func(t rig.Tier) int { return map[rig.Tier]int{rig.Quick: 20, rig.Thorough: 200}[t] }},
		},
	})
}

// ---------------------------------------------------------------------------
// log records

type c15Token struct {
	cs       *c15Case
	id       int
	depth    int
	returned chan struct{} // closed when Publish returned (or panicked)
}

type c15Pub struct {
	id        int
	by        string
	goid      int64
	call, ret int64
	returned  bool
}

type c15BusOp struct {
	kind      string // sub | unsub
	level, h  int
	call, ret int64
	by        string
}

type c15Del struct {
	h, tok      int
	entry, exit int64
	goid        int64
	act         string
}

type c15Act struct {
	kind   string // "" slow sub unsub dsub resub publish stack conn block
	level  int
	target int
}

func (a c15Act) String() string {
	switch a.kind {
	case "":
		return "-"
	case "sub", "unsub", "dsub", "resub":
		return fmt.Sprintf("%s(%s,%d)", a.kind, c15LevelName(a.level), a.target)
	}
	return a.kind
}

func c15LevelName(l int) string {
	if l == c15Core {
		return "core"
	}
	return "app"
}

type c15Handler struct {
	cs  *c15Case
	idx int
}

type c15Case struct {
	c     *rig.Ctx
	w     *rig.World
	ent   *spine.EntityLocal
	feat  api.FeatureLocalInterface
	peer  *rig.Peer
	names []string
	hs    []*c15Handler
	acts  [][]c15Act

	mu        sync.Mutex
	pubs      map[int]*c15Pub
	ops       []c15BusOp
	dels      []c15Del
	nextTok   int
	toks      map[int]*c15Token        // the token travels in the Ski (the Data field is drawn like every other field)
	payloads  map[int]api.EventPayload // what was handed to Publish
	salt      uint64                   // drawn per case: the payload of publication i is a function of (salt, i)
	paydevs   []string                 // deliveries whose payload differs from the published one
	reentrant map[string]int
	connSeq   int64

	// mutual-wait stage: the next top-level publication gets nextAwait; awaits is keyed by token id
	nextAwait *c15Await
	awaits    map[int]*c15Await
	stage     []string

	// burst stage (c15_burst.go): publications made while burstCur is set belong to it; plain: follow-up events whose
	// deliveries carry no re-entrant action
	burstCur *c15Burst
	burstOf  map[int]*c15Burst
	bursts   []*c15Burst
	plain    map[int]bool

	// snapshot stage (c15_snap.go): the next top-level publication gets nextSnap; snaps is keyed by token id
	nextSnap *c15Snap
	snaps    map[int]*c15Snap
}

// c15Await: while handling ONE event, an application handler stays inside HandleEvent until other application
// handlers have entered HandleEvent for the SAME event. Every application handler runs asynchronously, so the
// delivery to one of them cannot depend on another one returning: every such wait succeeds at once. It is bounded
// (c15AwaitBound) so that a bus that delivers to the application handlers one after the other shows up in the log
// as "expired, and the awaited handler entered only after the waiting one had left". Modes: an EARLIER subscribed
// handler waits for a LATER subscribed one; a later one for an earlier one (a bus may walk its list backwards);
// mutual (every subscribed application handler announces its entry and waits for all the others).
type c15Await struct {
	mode    string
	order   []int         // subscription order of the application handlers in this stage
	waitFor map[int][]int // handler -> handlers whose entry it awaits inside HandleEvent
	entered map[int]chan struct{}
	once    map[int]*sync.Once
	gaveUp  atomic.Bool // one wait expired: nobody waits any longer
}

func newC15Await(mode string, order []int) *c15Await {
	aw := &c15Await{mode: mode, order: order, waitFor: map[int][]int{}, entered: map[int]chan struct{}{}, once: map[int]*sync.Once{}}
	for _, h := range order {
		aw.entered[h] = make(chan struct{})
		aw.once[h] = &sync.Once{}
	}
	return aw
}

// c15AwaitBound: nothing else is pending in the process when the awaited delivery is due (the stage is sequential
// and starts from the goroutine baseline), and Publish has started the awaited handler's goroutine before it
// returned; the bound only has to cover the scheduling of one runnable goroutine on a loaded machine.
const c15AwaitBound = 5 * time.Second

const (
	c15AwaitOK      = "await-other-handlers:entered-meanwhile"
	c15AwaitExpired = "await-other-handlers:EXPIRED"
	c15AwaitSkipped = "await-other-handlers:not-waited(another wait had expired)"
	c15BlockExpired = "block:EXPIRED(Publish had not returned)"
)

func (h *c15Handler) HandleEvent(p api.EventPayload) {
	cs := h.cs
	base := c15SkiPrefix + cs.c.Tag() + "#"
	if !strings.HasPrefix(p.Ski, base) {
		return // an event of the stack or of another case
	}
	tid, err := strconv.Atoi(p.Ski[len(base):])
	if err != nil {
		return
	}
	cs.mu.Lock()
	tok, want := cs.toks[tid], cs.payloads[tid]
	cs.mu.Unlock()
	if tok == nil {
		return
	}
	g := eGoid()
	entry := rig.Seq()
	if diff := c15PayloadDiff(want, p); diff != "" {
		cs.mu.Lock()
		if len(cs.paydevs) < 20 {
			cs.paydevs = append(cs.paydevs, fmt.Sprintf("%s received e%d (%s) with %s", cs.names[h.idx], tid, c15PayloadKind(want), diff))
		}
		cs.mu.Unlock()
	}
	act := cs.acts[h.idx][tok.id%len(cs.acts[h.idx])]
	cs.mu.Lock()
	onPublisher := cs.pubs[tok.id] != nil && cs.pubs[tok.id].goid == g
	aw := cs.awaits[tok.id]
	bs := cs.burstOf[tok.id]
	sn := cs.snaps[tok.id]
	if cs.plain[tok.id] {
		act = c15Act{}
	}
	cs.mu.Unlock()
	var done string
	if bs != nil {
		// an event of the burst stage: core-level deliveries carry no action (the set of subscribed handlers does not
		// change while the burst is being published), application-level ones stay until all of them are in flight
		if !onPublisher {
			done = bs.handle(cs, h, tok, act)
		}
	} else if sn != nil {
		// an event of the snapshot stage: only the drawn actor does something
		done = sn.handle(cs, h, tok, onPublisher)
	} else if aw != nil {
		// an event of the mutual-wait stage: no other re-entrant action
		if ch := aw.entered[h.idx]; ch != nil {
			aw.once[h.idx].Do(func() { close(ch) })
		}
		if others := aw.waitFor[h.idx]; len(others) > 0 {
			done = c15AwaitOK
			deadline := time.After(c15AwaitBound)
		wait:
			for _, o := range others {
				if aw.gaveUp.Load() {
					done = c15AwaitSkipped
					break
				}
				select {
				case <-aw.entered[o]:
				case <-deadline:
					aw.gaveUp.Store(true)
					done = c15AwaitExpired
					break wait
				}
			}
		}
	} else {
		done = cs.perform(h, tok, act, onPublisher)
	}
	exit := rig.Seq()
	cs.mu.Lock()
	cs.dels = append(cs.dels, c15Del{h: h.idx, tok: tok.id, entry: entry, exit: exit, goid: g, act: done})
	cs.mu.Unlock()
}

// perform runs the re-entrant action of one delivery and returns what was actually done.
func (cs *c15Case) perform(h *c15Handler, tok *c15Token, a c15Act, onPublisher bool) string {
	by := fmt.Sprintf("%s@e%d", cs.names[h.idx], tok.id)
	switch a.kind {
	case "":
		return ""
	case "slow":
		runtime.Gosched()
		time.Sleep(time.Duration(100+tok.id%5*100) * time.Microsecond) // schedule widening only
		runtime.Gosched()
	case "sub":
		cs.busOp("sub", a.level, a.target, by)
	case "unsub":
		cs.busOp("unsub", a.level, a.target, by)
	case "dsub":
		cs.busOp("sub", a.level, a.target, by)
		cs.busOp("sub", a.level, a.target, by)
	case "resub":
		cs.busOp("unsub", a.level, a.target, by)
		cs.busOp("sub", a.level, a.target, by)
	case "stack":
		if p := eGuard(cs.c, "stack call from inside "+by, func() {
			_ = cs.feat.DataCopy(model.FunctionTypeMeasurementListData)
			_ = cs.w.Local.SubscriptionManager().Subscriptions(cs.peer.RD)
			_ = cs.w.Local.RemoteDevices()
			_ = cs.ent.HasUseCaseSupport(model.UseCaseActorTypeCEM, model.UseCaseNameTypeEVStateOfCharge)
			_ = spine.VerifHandlerCount()
		}); p != "" {
			cs.c.Violate("reentrant/stack-call-panics", "%s: %s", by, p)
		}
	case "publish", "conn", "block":
		// these would dead-lock by construction on the publishing goroutine (Publish holds its handling
		// mutex while core-level handlers run), and the stack never does them there
		if onPublisher || tok.depth >= 1 {
			return "skipped-" + a.kind
		}
		switch a.kind {
		case "publish":
			cs.publish(tok.depth+1, by)
		case "conn":
			// open and close a connection: DeviceLocal (un)subscribes itself at the core level and publishes
			ski := fmt.Sprintf("%s-x%d", cs.c.Tag(), atomic.AddInt64(&cs.connSeq, 1))
			if p := eGuard(cs.c, "connect/disconnect from inside "+by, func() {
				cs.w.Local.SetupRemoteDevice(ski, &rig.Tap{})
				cs.w.Local.RemoveRemoteDeviceConnection(ski)
			}); p != "" {
				cs.c.Violate("reentrant/connection-call-panics", "%s: %s", by, p)
			}
		case "block":
			// application handlers are asynchronous: Publish returns although this handler has not. The wait is bounded
			// (all core-level handlers of this event have finished when an application handler runs, Publish only has to
			// start the remaining application goroutines and return); on expiry the handler leaves, and the verdict is
			// taken on the logged order: Publish returned only after this handler had left
			select {
			case <-tok.returned:
			case <-time.After(c15AwaitBound):
				cs.mu.Lock()
				cs.reentrant[a.kind]++
				cs.mu.Unlock()
				return c15BlockExpired
			}
		}
	}
	cs.mu.Lock()
	cs.reentrant[a.kind]++
	cs.mu.Unlock()
	return a.kind
}

func (cs *c15Case) busOp(kind string, level, h int, by string) {
	var call, ret int64
	p := eGuard(cs.c, kind+" "+cs.names[h], func() {
		call = rig.Seq()
		switch {
		case kind == "sub" && level == c15Core:
			_ = spine.VerifSubscribeCore(cs.hs[h])
		case kind == "sub":
			_ = spine.Events.Subscribe(cs.hs[h])
		case level == c15Core:
			_ = spine.VerifUnsubscribeCore(cs.hs[h])
		default:
			_ = spine.Events.Unsubscribe(cs.hs[h])
		}
		ret = rig.Seq()
	})
	if p != "" {
		cs.c.Violate("bus/"+kind+"-panics", "%s by %s: %s", kind, by, p)
		return
	}
	cs.mu.Lock()
	cs.ops = append(cs.ops, c15BusOp{kind: kind, level: level, h: h, call: call, ret: ret, by: by})
	cs.mu.Unlock()
}

// drawPayload: every field of the payload is a function of (case salt, publication number): all five event types,
// all three change types, device / entity / feature / local feature present or nil, function, classifier pointer or
// nil, and Data nil, a token pointer, a model struct pointer or a string. Only the Ski is fixed (it carries the
// publication number and a prefix no handler of the stack or of a rig.World reacts to).
func (cs *c15Case) drawPayload(id int, tok *c15Token) api.EventPayload {
	x := (uint64(id)+1)*0x9E3779B97F4A7C15 ^ cs.salt
	next := func(n int) int {
		x ^= x >> 29
		x *= 0xBF58476D1CE4E5B9
		x ^= x >> 32
		return int(x % uint64(n))
	}
	p := api.EventPayload{Ski: fmt.Sprintf("%s%s#%d", c15SkiPrefix, cs.c.Tag(), id)}
	p.EventType = []api.EventType{api.EventTypeDeviceChange, api.EventTypeEntityChange, api.EventTypeSubscriptionChange, api.EventTypeBindingChange, api.EventTypeDataChange}[next(5)]
	p.ChangeType = []api.ElementChangeType{api.ElementChangeAdd, api.ElementChangeUpdate, api.ElementChangeRemove}[next(3)]
	if cs.peer != nil && cs.peer.RD != nil {
		if next(2) == 0 {
			p.Device = cs.peer.RD
		}
		if es := cs.peer.RD.Entities(); len(es) > 0 && next(2) == 0 {
			e := es[next(len(es))]
			p.Entity = e
			if fs := e.Features(); len(fs) > 0 && next(2) == 0 {
				p.Feature = fs[next(len(fs))]
			}
		}
	}
	if next(2) == 0 {
		p.LocalFeature = cs.feat
	}
	p.Function = []model.FunctionType{"", model.FunctionTypeMeasurementListData, model.FunctionTypeLoadControlLimitListData}[next(3)]
	if next(2) == 0 {
		p.CmdClassifier = util.Ptr([]model.CmdClassifierType{model.CmdClassifierTypeWrite, model.CmdClassifierTypeNotify, model.CmdClassifierTypeReply}[next(3)])
	}
	switch next(4) {
	case 0: // nil
	case 1:
		p.Data = tok
	case 2:
		p.Data = &model.MeasurementListDataType{MeasurementData: []model.MeasurementDataType{{MeasurementId: util.Ptr(model.MeasurementIdType(id))}}}
	default:
		p.Data = fmt.Sprintf("data of e%d", id)
	}
	return p
}

func c15PayloadKind(p api.EventPayload) string {
	return fmt.Sprintf("type=%d change=%d device=%v entity=%v feature=%v local=%v function=%q classifier=%v data=%T", p.EventType, p.ChangeType, p.Device != nil, p.Entity != nil, p.Feature != nil, p.LocalFeature != nil, p.Function, p.CmdClassifier != nil, p.Data)
}

// c15PayloadDiff compares the payload a handler received with the one handed to Publish, field by field (interfaces
// and pointers by identity: the bus hands the payload on, it does not copy what it refers to).
func c15PayloadDiff(want, got api.EventPayload) string {
	var d []string
	add := func(name string, same bool, w, g any) {
		if !same {
			d = append(d, fmt.Sprintf("%s=%v (published: %v)", name, g, w))
		}
	}
	add("Ski", want.Ski == got.Ski, want.Ski, got.Ski)
	add("EventType", want.EventType == got.EventType, want.EventType, got.EventType)
	add("ChangeType", want.ChangeType == got.ChangeType, want.ChangeType, got.ChangeType)
	add("Device", want.Device == got.Device, want.Device != nil, got.Device != nil)
	add("Entity", want.Entity == got.Entity, want.Entity != nil, got.Entity != nil)
	add("Feature", want.Feature == got.Feature, want.Feature != nil, got.Feature != nil)
	add("LocalFeature", want.LocalFeature == got.LocalFeature, want.LocalFeature != nil, got.LocalFeature != nil)
	add("Function", want.Function == got.Function, want.Function, got.Function)
	add("CmdClassifier", want.CmdClassifier == got.CmdClassifier, want.CmdClassifier, got.CmdClassifier)
	add("Data", want.Data == got.Data, fmt.Sprintf("%T", want.Data), fmt.Sprintf("%T", got.Data))
	return strings.Join(d, ", ")
}

func (cs *c15Case) publish(depth int, by string) { cs.publishX(depth, by, false) }

func (cs *c15Case) publishX(depth int, by string, plain bool) {
	cs.mu.Lock()
	id := cs.nextTok
	cs.nextTok++
	pub := &c15Pub{id: id, by: by}
	cs.pubs[id] = pub
	if depth == 0 && cs.nextAwait != nil {
		cs.awaits[id], cs.nextAwait = cs.nextAwait, nil
	}
	if depth == 0 && cs.nextSnap != nil {
		cs.snaps[id], cs.nextSnap = cs.nextSnap, nil
	}
	if depth == 0 && cs.burstCur != nil {
		cs.burstOf[id] = cs.burstCur
		cs.burstCur.ids = append(cs.burstCur.ids, id)
	}
	if plain {
		cs.plain[id] = true
	}
	cs.mu.Unlock()
	tok := &c15Token{cs: cs, id: id, depth: depth, returned: make(chan struct{})}
	payload := cs.drawPayload(id, tok)
	cs.mu.Lock()
	cs.toks[id], cs.payloads[id] = tok, payload
	cs.mu.Unlock()
	p := eGuard(cs.c, fmt.Sprintf("Publish(e%d) by %s", id, by), func() {
		defer close(tok.returned)
		g := eGoid()
		cs.mu.Lock()
		pub.goid = g
		pub.call = rig.Seq()
		cs.mu.Unlock()
		spine.Events.Publish(payload)
		r := rig.Seq()
		cs.mu.Lock()
		pub.ret, pub.returned = r, true
		cs.mu.Unlock()
	})
	if p != "" {
		cs.c.Violate("bus/publish-panics", "Publish(e%d) by %s: %s", id, by, p)
	}
}

// ---------------------------------------------------------------------------
// plan

type c15PlanOp struct {
	kind     string // pub sub unsub dsub
	level, h int
}

func (o c15PlanOp) String() string {
	if o.kind == "pub" {
		return "pub"
	}
	return fmt.Sprintf("%s(%s,%d)", o.kind, c15LevelName(o.level), o.h)
}

func c15Bus(c *rig.Ctx) {
	r := c.Rand
	w := rig.NewWorld(c.Tag())
	defer w.Close()
	ent := w.AddEntity(model.EntityTypeTypeCEM, []uint{1}, 4*time.Second)
	feat := ent.GetOrAddFeature(model.FeatureTypeTypeMeasurement, model.RoleTypeServer)
	feat.AddFunctionType(model.FunctionTypeMeasurementListData, true, false)
	feat.SetData(model.FunctionTypeMeasurementListData, &model.MeasurementListDataType{MeasurementData: []model.MeasurementDataType{{MeasurementId: util.Ptr(model.MeasurementIdType(1))}}})
	ent.AddUseCaseSupport(model.UseCaseActorTypeCEM, model.UseCaseNameTypeEVStateOfCharge, "1.0.0", "", true, nil)
	peer := w.AddPeer(0)
	peer.Announce([]rig.FS{rig.NMFS, {Ent: []uint{1}, Id: 1, Typ: model.FeatureTypeTypeMeasurement, Role: model.RoleTypeClient}})
	peer.Subscribe(rig.FA(peer.Addr, []uint{1}, 1), feat.Address(), model.FeatureTypeTypeMeasurement)
	peer.Tap.Take()
	baseline := eStableGoroutines()
	c.Count("foreign_handlers_subscribed_at_start", int64(spine.VerifHandlerCount()))

	cs := &c15Case{c: c, w: w, ent: ent, feat: feat, peer: peer, names: []string{"K1", "K2", "A1", "A2", "A3"},
		pubs: map[int]*c15Pub{}, reentrant: map[string]int{}, awaits: map[int]*c15Await{}, burstOf: map[int]*c15Burst{}, snaps: map[int]*c15Snap{}, plain: map[int]bool{}, toks: map[int]*c15Token{}, payloads: map[int]api.EventPayload{}, salt: r.Uint64()}
	for i := range cs.names {
		cs.hs = append(cs.hs, &c15Handler{cs: cs, idx: i})
	}
	defer func() {
		for _, h := range cs.hs {
			_ = spine.VerifUnsubscribeCore(h)
			_ = spine.Events.Unsubscribe(h)
		}
	}()
	dual := r.Intn(3) == 0 // A3 is also used at the core level
	levelsOf := func(h int) []int {
		switch {
		case h < 2:
			return []int{c15Core}
		case h == 4 && dual:
			return []int{c15Core, c15App}
		}
		return []int{c15App}
	}
	// stable handlers are never (un)subscribed after the prologue: they give exactly-once pairs under concurrency
	stable := map[int]bool{}
	if r.Intn(3) > 0 {
		stable[r.Intn(2)] = true
		stable[2+r.Intn(2)] = true
	}
	var movable []int
	for h := range cs.hs {
		if !stable[h] {
			movable = append(movable, h)
		}
	}
	pickTarget := func(rr *rand.Rand, self int) (level, h int) {
		h = movable[rr.Intn(len(movable))]
		if self >= 0 && rr.Intn(3) == 0 && !stable[self] {
			h = self
		}
		ls := levelsOf(h)
		return ls[rr.Intn(len(ls))], h
	}

	// action slots
	const slots = 32
	var shape []string
	for h := range cs.hs {
		var as []c15Act
		for s := 0; s < slots; s++ {
			var a c15Act
			if r.Intn(100) < 45 {
				kinds := []string{"slow", "slow", "sub", "unsub", "dsub", "resub", "stack"}
				if h >= 2 {
					kinds = append(kinds, "publish", "publish", "conn", "block", "stack")
				}
				a.kind = kinds[r.Intn(len(kinds))]
				if a.kind == "sub" || a.kind == "unsub" || a.kind == "dsub" || a.kind == "resub" {
					a.level, a.target = pickTarget(r, h)
				}
			}
			as = append(as, a)
			shape = append(shape, a.String())
		}
		cs.acts = append(cs.acts, as)
	}

	// prologue
	var prologue, epilogue []c15PlanOp
	for h := range cs.hs {
		for _, l := range levelsOf(h) {
			if stable[h] || r.Intn(10) < 8 {
				prologue = append(prologue, c15PlanOp{"sub", l, h})
				if r.Intn(10) < 3 {
					prologue = append(prologue, c15PlanOp{"sub", l, h})
				}
			}
		}
	}
	// the order of the handler list must not matter: application handlers may precede core handlers in it
	r.Shuffle(len(prologue), func(i, j int) { prologue[i], prologue[j] = prologue[j], prologue[i] })
	prologue = append(prologue, c15PlanOp{kind: "pub"})
	// concurrent phase
	nPub := 1 + r.Intn(4)
	total := 20 + r.Intn(41)
	lists := make([][]c15PlanOp, nPub)
	for i := 0; i < total; i++ {
		g := r.Intn(nPub)
		var o c15PlanOp
		switch x := r.Intn(100); {
		case x < 50:
			o = c15PlanOp{kind: "pub"}
		case x < 68:
			o.kind = "sub"
			o.level, o.h = pickTarget(r, -1)
		case x < 88:
			o.kind = "unsub"
			o.level, o.h = pickTarget(r, -1)
		default:
			o.kind = "dsub"
			o.level, o.h = pickTarget(r, -1)
		}
		lists[g] = append(lists[g], o)
	}
	// epilogue: unsubscribe, publish (zero pairs), subscribe again twice, publish (exactly-once pairs)
	for n := 1 + r.Intn(2); n > 0; n-- {
		h := r.Intn(len(cs.hs))
		ls := levelsOf(h)
		epilogue = append(epilogue, c15PlanOp{"unsub", ls[r.Intn(len(ls))], h})
	}
	epilogue = append(epilogue, c15PlanOp{kind: "pub"}, c15PlanOp{kind: "pub"})
	{
		h := r.Intn(len(cs.hs))
		ls := levelsOf(h)
		l := ls[r.Intn(len(ls))]
		epilogue = append(epilogue, c15PlanOp{"dsub", l, h}, c15PlanOp{kind: "pub"})
	}
	for _, l := range append(append([][]c15PlanOp{prologue}, lists...), epilogue) {
		for _, o := range l {
			shape = append(shape, o.String())
		}
		shape = append(shape, "|")
	}

	exec := func(o c15PlanOp, by string) {
		switch o.kind {
		case "pub":
			cs.publish(0, by)
		case "dsub":
			cs.busOp("sub", o.level, o.h, by)
			cs.busOp("sub", o.level, o.h, by)
		default:
			cs.busOp(o.kind, o.level, o.h, by)
		}
	}
	for _, o := range prologue {
		exec(o, "main")
	}
	var wg sync.WaitGroup
	for g := range lists {
		wg.Add(1)
		go func(g int) {
			defer wg.Done()
			for _, o := range lists[g] {
				exec(o, fmt.Sprint("pub", g))
				if g%2 == 1 {
					runtime.Gosched()
				}
			}
		}(g)
	}
	wg.Wait()
	// let the asynchronous deliveries of the concurrent phase finish, so the epilogue is sequential
	if !rig.WaitQuiet(baseline, 30*time.Second) {
		c.Inconclusive("goroutine count did not return to its baseline (%d, now %d) after the concurrent phase", baseline, runtime.NumGoroutine())
		return
	}
	for _, o := range epilogue {
		exec(o, "main")
		// follow-up publications and (un)subscriptions made by handlers must not overlap the next step
		if !rig.WaitQuiet(baseline, 30*time.Second) {
			c.Inconclusive("goroutine count did not return to its baseline (%d, now %d) in the epilogue", baseline, runtime.NumGoroutine())
			return
		}
	}
	// snapshot stage (c15_snap.go, every case): a handler is unsubscribed AFTER the event was published and BEFORE its turn
	snapStage, ok := cs.snapStage(r, baseline, levelsOf, exec)
	if !ok {
		return
	}
	shape = append(shape, snapStage...)
	// mutual-wait stage (every second case): the application handlers are subscribed anew in a drawn order, then
	// one event is published during which an earlier subscribed one waits, inside HandleEvent, for a later one
	var stage []string
	if c.Index%2 == 0 {
		for round, n := 0, 1+r.Intn(2); round < n; round++ {
			var plan []c15PlanOp
			for h := 2; h < len(cs.hs); h++ {
				for _, l := range levelsOf(h) {
					plan = append(plan, c15PlanOp{"unsub", l, h})
				}
			}
			order := r.Perm(3)
			for i := range order {
				order[i] += 2
			}
			if r.Intn(3) == 0 {
				order = order[:2] // the third application handler stays unsubscribed
			}
			for _, h := range order {
				plan = append(plan, c15PlanOp{"sub", c15App, h})
			}
			modes := []string{"earlier-awaits-later", "mutual"}
			if round > 0 {
				modes = []string{"later-awaits-earlier", "later-awaits-earlier", "mutual", "earlier-awaits-later"}
			}
			aw := newC15Await(modes[r.Intn(len(modes))], order)
			a, b := 0, 1 // positions in the subscription order, a < b
			if len(order) == 3 {
				switch r.Intn(3) {
				case 1:
					b = 2
				case 2:
					a, b = 1, 2
				}
			}
			switch aw.mode {
			case "earlier-awaits-later":
				aw.waitFor[order[a]] = []int{order[b]}
			case "later-awaits-earlier":
				aw.waitFor[order[b]] = []int{order[a]}
			default:
				for _, h := range order {
					for _, o := range order {
						if o != h {
							aw.waitFor[h] = append(aw.waitFor[h], o)
						}
					}
				}
			}
			for _, o := range plan {
				exec(o, "main")
				stage = append(stage, o.String())
			}
			stage = append(stage, fmt.Sprintf("pub[%s %s]", aw.mode, aw.describe(cs.names)))
			cs.mu.Lock()
			cs.nextAwait = aw
			cs.mu.Unlock()
			exec(c15PlanOp{kind: "pub"}, "main")
			if !rig.WaitQuiet(baseline, 30*time.Second) {
				c.Inconclusive("goroutine count did not return to its baseline (%d, now %d) in the mutual-wait stage", baseline, runtime.NumGoroutine())
				return
			}
			expired := false
			cs.mu.Lock()
			for _, d := range cs.dels {
				if d.act == c15AwaitExpired {
					expired = true
				}
			}
			cs.mu.Unlock()
			if expired {
				break
			}
		}
		shape = append(shape, stage...)
	} else {
		// burst stage (c15_burst.go): many application-level invocations inside HandleEvent at the same moment
		var ok bool
		if stage, ok = cs.burstStage(r, baseline, exec); !ok {
			return
		}
		shape = append(shape, stage...)
	}
	cs.stage = append(snapStage, stage...)
	cs.judge(dual, levelsOf, nPub, strings.Join(shape, ","), prologue, lists, epilogue)
}

// ---------------------------------------------------------------------------
// oracle

type c15Interval struct{ call, ret int64 }

func (cs *c15Case) judge(dual bool, levelsOf func(int) []int, nPub int, shape string, prologue []c15PlanOp, lists [][]c15PlanOp, epilogue []c15PlanOp) {
	c := cs.c
	cs.mu.Lock()
	defer cs.mu.Unlock()
	type lh struct{ level, h int }
	subs, unsubs := map[lh][]c15Interval{}, map[lh][]c15Interval{}
	for _, o := range cs.ops {
		k := lh{o.level, o.h}
		if o.kind == "sub" {
			subs[k] = append(subs[k], c15Interval{o.call, o.ret})
		} else {
			unsubs[k] = append(unsubs[k], c15Interval{o.call, o.ret})
		}
	}
	delsByTok := map[int][]c15Del{}
	for _, d := range cs.dels {
		delsByTok[d.tok] = append(delsByTok[d.tok], d)
	}
	// tc: an upper bound of the moment of publication that is tighter than the return of Publish - the first entry of
	// ANY handler for this event. An event cannot be delivered before it was published, so a handler whose subscription
	// was complete before Publish was called and whose unsubscription was not even called before some handler had
	// entered HandleEvent for that event WAS subscribed at publication time: exactly once, not "at most once".
	classify := func(k lh, t0, t1, tc int64) string {
		must := false
		for _, s := range subs[k] {
			if s.ret >= t0 {
				continue
			}
			ok := true
			for _, u := range unsubs[k] {
				if !(u.ret < s.call || u.call > tc) {
					ok = false
					break
				}
			}
			if ok {
				must = true
				break
			}
		}
		if must {
			return "must"
		}
		zero := true
		for _, s := range subs[k] {
			if s.call > t1 {
				continue
			}
			covered := false
			for _, u := range unsubs[k] {
				if u.call > s.ret && u.ret < t0 {
					covered = true
					break
				}
			}
			if !covered {
				zero = false
				break
			}
		}
		if zero {
			return "zero"
		}
		return "may"
	}
	var ids []int
	for id := range cs.pubs {
		ids = append(ids, id)
	}
	sort.Ints(ids)
	var nMust, nZero, nMay, nOrder, nMustLate, nMustLateHist int
	witness := func() string { return cs.renderLocked(400) }
	for _, id := range ids {
		p := cs.pubs[id]
		if !p.returned {
			continue
		}
		t0, t1 := p.call, p.ret
		tc := t1
		for _, d := range delsByTok[id] {
			if d.entry < tc {
				tc = d.entry
			}
		}
		// attribute deliveries to levels
		got := map[lh][]c15Del{}
		for _, d := range delsByTok[id] {
			ls := levelsOf(d.h)
			l := ls[0]
			if len(ls) == 2 {
				l = c15App
				if d.goid == p.goid {
					l = c15Core
				}
			}
			got[lh{l, d.h}] = append(got[lh{l, d.h}], d)
		}
		var lastCoreExit int64
		for h := range cs.hs {
			for _, l := range levelsOf(h) {
				k := lh{l, h}
				cl := classify(k, t0, t1, tc)
				if cl == "must" && tc < t1 && classify(k, t0, t1, t1) != "must" {
					nMustLate++
					if cs.snaps[id] == nil {
						nMustLateHist++
					}
				}
				n := len(got[k])
				c.Events(1)
				lv := c15LevelName(l)
				switch cl {
				case "must":
					nMust++
				case "zero":
					nZero++
				default:
					nMay++
				}
				switch {
				case n > 1:
					c.Violate(lv+"/delivered-more-than-once", "event e%d (published by %s in [%d,%d]) reached %s at the %s level %d times (%s)\n%s", id, p.by, t0, t1, cs.names[h], lv, n, cl, witness())
				case cl == "must" && n == 0:
					c.Violate(lv+"/missing-delivery", "event e%d (published by %s in [%d,%d]) never reached %s although its %s-level subscription was complete before the publication and no unsubscription had started before it returned (or before the first handler had entered HandleEvent for it at %d)\n%s", id, p.by, t0, t1, cs.names[h], lv, tc, witness())
				case cl == "zero" && n > 0:
					dev := "/delivery-after-unsubscribe-returned"
					if len(subs[k]) == 0 {
						dev = "/delivery-to-never-subscribed-handler"
					}
					c.Violate(lv+dev, "event e%d (published by %s in [%d,%d]) reached %s at the %s level (entry %d) although it was not subscribed when Publish was called\n%s", id, p.by, t0, t1, cs.names[h], lv, got[k][0].entry, witness())
				}
				if l == c15Core {
					for _, d := range got[k] {
						nOrder++
						c.Events(1)
						if d.exit > t1 {
							c.Violate("core/exit-after-publish-returned", "core handler %s left e%d at %d, Publish had returned at %d\n%s", cs.names[h], id, d.exit, t1, witness())
						}
						if d.entry < t0 {
							c.Violate("core/entry-before-publish", "core handler %s entered e%d at %d, Publish was called at %d", cs.names[h], id, d.entry, t0)
						}
						if d.exit > lastCoreExit {
							lastCoreExit = d.exit
						}
					}
				}
			}
		}
		for k, ds := range got {
			if k.level != c15App {
				continue
			}
			for _, d := range ds {
				nOrder++
				c.Events(1)
				if d.goid == p.goid {
					c.Violate("app/ran-on-publisher-goroutine", "application handler %s handled e%d on goroutine %d, the one that called Publish: not asynchronous\n%s", cs.names[k.h], id, d.goid, witness())
				}
				if d.entry < lastCoreExit {
					c.Violate("app/entered-before-core-handlers-finished", "application handler %s entered e%d at %d, the last core handler left at %d\n%s", cs.names[k.h], id, d.entry, lastCoreExit, witness())
				}
				if d.entry < t0 {
					c.Violate("app/entry-before-publish", "application handler %s entered e%d at %d, Publish was called at %d", cs.names[k.h], id, d.entry, t0)
				}
				switch d.act {
				case "block":
					c.Events(1)
					c.Count("app_handler_inside_HandleEvent_saw_its_publication_return", 1)
				case c15BlockExpired:
					c.Events(1)
					if t1 > d.exit {
						c.Violate("app/publish-waits-for-application-handler", "application handler %s stayed inside HandleEvent for e%d [%d,%d] until Publish(e%d) would have returned: that did not happen within %s; Publish returned at %d, after the handler had left. "+
							"The publication waits for an application handler: application handlers do not run asynchronously\n%s", cs.names[k.h], id, d.entry, d.exit, id, c15AwaitBound, t1, witness())
					} else {
						c.Inconclusive("e%d: the %s wait of %s [%d,%d] for the return of Publish expired although it returned at %d", id, c15AwaitBound, cs.names[k.h], d.entry, d.exit, t1)
					}
				}
			}
		}
	}
	// every delivery carries the payload that was handed to Publish, whatever its kind
	if len(cs.paydevs) > 0 {
		c.Violate("bus/payload-differs-from-the-published-one", "%s\n%s", strings.Join(cs.paydevs, "\n"), witness())
	}
	for _, id := range ids {
		if pl, ok := cs.payloads[id]; ok && len(delsByTok[id]) > 0 {
			c.Seen("event_kinds_delivered", fmt.Sprintf("type=%d change=%d data=%T", pl.EventType, pl.ChangeType, pl.Data))
		}
	}
	// mutual-wait stage: every wait of an application handler for the entry of other application handlers of the
	// same event must succeed
	for _, id := range ids {
		aw := cs.awaits[id]
		if aw == nil || !cs.pubs[id].returned {
			continue
		}
		del := map[int]*c15Del{}
		for i, d := range delsByTok[id] {
			if del[d.h] == nil {
				del[d.h] = &delsByTok[id][i]
			}
		}
		var ord []string
		for _, h := range aw.order {
			ord = append(ord, cs.names[h])
		}
		for _, x := range aw.order {
			others := aw.waitFor[x]
			dx := del[x]
			if len(others) == 0 || dx == nil {
				continue // dx == nil: the exactly-once pair above reports the missing delivery
			}
			c.Events(1)
			switch dx.act {
			case c15AwaitOK:
				c.Count("app_handler_inside_HandleEvent_saw_other_application_handlers_receive_the_same_event", 1)
				c.Count("mutual_wait:"+aw.mode, 1)
				c.Seen("mutual_wait_shapes", fmt.Sprintf("%s, %d subscribed, position %d awaits %d other(s)", aw.mode, len(aw.order), c15Pos(aw.order, x), len(others)))
			case c15AwaitExpired:
				var after, meanwhile []string
				for _, o := range others {
					switch do := del[o]; {
					case do == nil:
						// never delivered: the exactly-once pair above reports the missing delivery
					case do.entry > dx.exit:
						after = append(after, fmt.Sprintf("%s entered at %d", cs.names[o], do.entry))
					default:
						meanwhile = append(meanwhile, cs.names[o])
					}
				}
				if len(after) > 0 {
					c.Violate("app/delivery-waits-for-other-application-handler", "application handlers subscribed in the order %v (%s); while handling e%d %s stayed inside HandleEvent [%d,%d] until %s would have entered HandleEvent for the same event, nothing else was pending in the process: "+
						"that did not happen within %s; %v, after %s had returned. The delivery to an application handler waits for another application handler to return: they do not run asynchronously\n%s",
						ord, aw.mode, id, cs.names[x], dx.entry, dx.exit, aw.names(cs.names, others), c15AwaitBound, after, cs.names[x], witness())
				} else if len(meanwhile) == len(others) {
					c.Inconclusive("e%d: the %s wait of %s [%d,%d] for the entry of %v expired although they entered before it left", id, c15AwaitBound, cs.names[x], dx.entry, dx.exit, meanwhile)
				}
			}
		}
	}
	cs.judgeBursts(delsByTok, witness)
	re := 0
	for k, n := range cs.reentrant {
		if k != "slow" {
			re += n
		}
		c.Count("reentrant_"+k, int64(n))
	}
	c.Count("pairs_exactly_once", int64(nMust))
	c.Count("pairs_exactly_once:unsubscribed_after_the_first_delivery_of_the_event_had_begun", int64(nMustLate))
	c.Count("pairs_exactly_once:unsubscribed_after_the_first_delivery_of_the_event_had_begun:in_generated_history", int64(nMustLateHist))
	cs.judgeSnaps(delsByTok)
	c.Count("pairs_zero", int64(nZero))
	c.Count("pairs_at_most_once(overlap)", int64(nMay))
	c.Count("ordering_checks", int64(nOrder))
	c.Count("publications", int64(len(ids)))
	c.Count("deliveries", int64(len(cs.dels)))
	c.Shape(eHash(shape))
	c.NonTrivial(nMust > 0 && nZero > 0 && re > 0)
	c.Seen("publisher_goroutines", fmt.Sprint(nPub))
	if c.Failed() {
		c.Witness(map[string]any{"dual_level_handler_A3": dual, "log": strings.Split(cs.renderLocked(2000), "\n")})
	}
	plan := func(l []c15PlanOp) string {
		var s []string
		for _, o := range l {
			s = append(s, o.String())
		}
		return strings.Join(s, " ")
	}
	var pl []string
	for _, l := range lists {
		pl = append(pl, plan(l))
	}
	c.Sample(map[string]any{"handlers": cs.names, "A3_also_core": dual, "prologue": plan(prologue), "publishers": pl, "epilogue": plan(epilogue), "mutual_wait_or_burst_stage": strings.Join(cs.stage, " "),
		"log_head": strings.Split(cs.renderLocked(60), "\n")})
}

func (aw *c15Await) names(names []string, hs []int) string {
	var l []string
	for _, h := range hs {
		l = append(l, names[h])
	}
	return strings.Join(l, "+")
}

// describe renders who waits for whom, in subscription order.
func (aw *c15Await) describe(names []string) string {
	var l []string
	for _, h := range aw.order {
		if o := aw.waitFor[h]; len(o) > 0 {
			l = append(l, names[h]+" awaits "+aw.names(names, o))
		}
	}
	return strings.Join(l, "; ")
}

func c15Pos(order []int, h int) int {
	for i, x := range order {
		if x == h {
			return i + 1
		}
	}
	return 0
}

// renderLocked renders the log in Seq order (cs.mu held).
func (cs *c15Case) renderLocked(max int) string {
	type line struct {
		seq int64
		s   string
	}
	var ls []line
	for _, o := range cs.ops {
		ls = append(ls, line{o.call, fmt.Sprintf("[%d,%d] %s(%s,%s) by %s", o.call, o.ret, o.kind, c15LevelName(o.level), cs.names[o.h], o.by)})
	}
	for _, p := range cs.pubs {
		ls = append(ls, line{p.call, fmt.Sprintf("[%d,%d] Publish(e%d) by %s on g%d", p.call, p.ret, p.id, p.by, p.goid)})
	}
	for _, d := range cs.dels {
		ls = append(ls, line{d.entry, fmt.Sprintf("[%d,%d]   %s handles e%d on g%d %s", d.entry, d.exit, cs.names[d.h], d.tok, d.goid, d.act)})
	}
	sort.Slice(ls, func(i, j int) bool { return ls[i].seq < ls[j].seq })
	var out []string
	for i, l := range ls {
		if i >= max {
			out = append(out, fmt.Sprintf("… %d more", len(ls)-max))
			break
		}
		out = append(out, l.s)
	}
	return strings.Join(out, "\n")
}

// ---------------------------------------------------------------------------
// integrated path

type c15IntEv struct {
	ski   string
	entry int64
	goid  int64
}

type c15IntHandler struct {
	tag  string
	w    *rig.World
	mu   sync.Mutex
	adds []c15IntEv // DeviceChange/add deliveries
	all  int
	// life cycle histories: state-changing calls into the stack from inside the handler of DeviceChange/add (n: how many
	// such events of that SKI this handler has seen before); a panic in there is recorded, a call that does not return
	// keeps inAct above zero
	act    func(p api.EventPayload, n int)
	inAct  atomic.Int32
	panics []string
}

func (h *c15IntHandler) HandleEvent(p api.EventPayload) {
	if !strings.HasPrefix(p.Ski, h.tag) {
		return
	}
	entry := rig.Seq()
	g := eGoid()
	isAdd := p.EventType == api.EventTypeDeviceChange && p.ChangeType == api.ElementChangeAdd
	if isAdd {
		// call back into the stack, as an application would
		if rd := h.w.Local.RemoteDeviceForSki(p.Ski); rd != nil {
			_ = rd.UseCases()
			_ = rd.Entities()
		}
		_ = h.w.Local.RemoteDevices()
		if h.act != nil {
			n := len(h.addsFor(p.Ski))
			func() {
				h.inAct.Add(1)
				defer func() {
					if x := recover(); x != nil {
						h.mu.Lock()
						h.panics = append(h.panics, fmt.Sprint(x))
						h.mu.Unlock()
					}
					h.inAct.Add(-1)
				}()
				h.act(p, n)
			}()
		}
	}
	h.mu.Lock()
	h.all++
	if isAdd {
		h.adds = append(h.adds, c15IntEv{p.Ski, entry, g})
	}
	h.mu.Unlock()
}

func (h *c15IntHandler) addsFor(ski string) []c15IntEv {
	h.mu.Lock()
	defer h.mu.Unlock()
	var r []c15IntEv
	for _, e := range h.adds {
		if e.ski == ski {
			r = append(r, e)
		}
	}
	return r
}

// c15Writer is the connection writer of the integrated part: it records like rig.Tap (Seq taken when the
// write is complete) and can be slow, like a congested connection, which widens the window between the
// publication of DeviceChange/add and the end of the stack's own reaction - or it does not return at all until the
// case lets it: the write of the NodeManagement subscription call and/or of the use-case read (the two messages the
// stack's own core-level handler of DeviceChange/add sends to the announcing peer) parks on a gate that the case
// opens at a logical point of its script. While such a write is parked the core-level handler that issued it has
// not returned, so the publication has not returned and no application-level handler of that event has started.
type c15Writer struct {
	mu     sync.Mutex
	outs   []rig.Out
	starts []c15WriteStart
	delay  time.Duration
	gates  map[string]*c15WriteGate // "subscription-call" / "use-case-read" -> gate of the first such write
	// eager (lifecycle histories): called once, from INSIDE the write of the connection's detailed discovery read, with
	// the datagram being written: the peer answers before the stack's send call has returned
	eager     func(d model.DatagramType)
	eagerOnce sync.Once
}

type c15WriteStart struct {
	seq  int64
	what string
}

type c15WriteGate struct {
	g       *eGate
	entered chan struct{} // closed when the write has been handed to the writer (and parks)
	once    sync.Once
}

func c15WriteKind(d model.DatagramType) string {
	if len(d.Payload.Cmd) != 1 || d.Header.CmdClassifier == nil {
		return ""
	}
	switch cmd, cl := d.Payload.Cmd[0], *d.Header.CmdClassifier; {
	case cl == model.CmdClassifierTypeCall && cmd.NodeManagementSubscriptionRequestCall != nil:
		return "subscription-call"
	case cl == model.CmdClassifierTypeRead && cmd.NodeManagementUseCaseData != nil:
		return "use-case-read"
	case cl == model.CmdClassifierTypeRead && cmd.NodeManagementDetailedDiscoveryData != nil:
		return "discovery-read"
	}
	return ""
}

// c15StackReaction counts what the stack's own core-level handler of DeviceChange/add writes to the announcing peer: calls
// that subscribe to the peer's NodeManagement feature, and use-case reads.
func c15StackReaction(outs []rig.Out) (subs, ucs int) {
	for _, out := range outs {
		switch c15WriteKind(out.D) {
		case "subscription-call":
			if rq := out.D.Payload.Cmd[0].NodeManagementSubscriptionRequestCall.SubscriptionRequest; rq != nil && rq.ServerFeatureType != nil && *rq.ServerFeatureType == model.FeatureTypeTypeNodeManagement {
				subs++
			}
		case "use-case-read":
			ucs++
		}
	}
	return
}

func (t *c15Writer) WriteShipMessageWithPayload(m []byte) {
	var d model.Datagram
	if err := json.Unmarshal(m, &d); err != nil {
		return
	}
	kind := c15WriteKind(d.Datagram)
	t.mu.Lock()
	t.starts = append(t.starts, c15WriteStart{rig.Seq(), kind})
	gate := t.gates[kind]
	t.mu.Unlock()
	if gate != nil {
		first := false
		gate.once.Do(func() { first = true })
		if first {
			close(gate.entered)
			gate.g.wait()
		}
	}
	if kind == "discovery-read" && t.eager != nil {
		t.eagerOnce.Do(func() { t.eager(d.Datagram) })
	}
	if t.delay > 0 {
		time.Sleep(t.delay)
	}
	t.mu.Lock()
	t.outs = append(t.outs, rig.Out{Seq: rig.Seq(), D: d.Datagram})
	t.mu.Unlock()
}

func (t *c15Writer) startOf(kind string) int64 {
	t.mu.Lock()
	defer t.mu.Unlock()
	for _, s := range t.starts {
		if s.what == kind {
			return s.seq
		}
	}
	return 0
}

func (t *c15Writer) take() []rig.Out {
	t.mu.Lock()
	defer t.mu.Unlock()
	r := t.outs
	t.outs = nil
	return r
}

func c15Integrated(c *rig.Ctx) {
	if c.Index%5 == 1 || c.Index%5 == 3 {
		c15Lifecycle(c) // connection life cycle histories (c15_life below)
		return
	}
	r := c.Rand
	w := rig.NewWorld(c.Tag())
	defer w.Close()
	ent := w.AddEntity(model.EntityTypeTypeCEM, []uint{1}, 4*time.Second)
	ent.GetOrAddFeature(model.FeatureTypeTypeMeasurement, model.RoleTypeClient)
	h1 := &c15IntHandler{tag: c.Tag(), w: w}
	h2 := &c15IntHandler{tag: c.Tag(), w: w}
	_ = spine.Events.Subscribe(h1)
	_ = spine.Events.Subscribe(h2)
	_ = spine.Events.Subscribe(h2) // subscribed twice: no second delivery
	defer func() { _ = spine.Events.Unsubscribe(h1); _ = spine.Events.Unsubscribe(h2) }()
	baseline := eStableGoroutines()

	nPeers := 1 + r.Intn(3)
	concurrent := r.Intn(2) == 0
	rounds := make([]int, nPeers)
	feats := []rig.FS{rig.NMFS, {Ent: []uint{1}, Id: 1, Typ: model.FeatureTypeTypeMeasurement, Role: model.RoleTypeServer}}
	delay := []time.Duration{0, 100 * time.Microsecond, 300 * time.Microsecond, 2 * time.Millisecond}[r.Intn(4)]
	// per round: which writes of the stack's own reaction do not return until the case lets them
	park := make([][]string, nPeers)
	// per round > 0: the new connection REPLACES the old one (SetupRemoteDevice for a SKI that is still registered: the
	// connection layer reports the new connection before the end of the old one, or never reports that) instead of
	// following its removal
	replace := make([][]bool, nPeers)
	var gatesMu sync.Mutex
	var allGates []*eGate
	defer func() {
		gatesMu.Lock()
		defer gatesMu.Unlock()
		for _, g := range allGates {
			g.open()
			if g.expiries() > 0 {
				c.Inconclusive("a parked connection write was not released within 90s")
			}
		}
	}()
	newWriter := func(mode string) *c15Writer {
		wr := &c15Writer{delay: delay, gates: map[string]*c15WriteGate{}}
		for _, k := range []string{"subscription-call", "use-case-read"} {
			if mode == k || mode == "both" {
				g := &c15WriteGate{g: newEGate(90 * time.Second), entered: make(chan struct{})}
				wr.gates[k] = g
				gatesMu.Lock()
				allGates = append(allGates, g.g)
				gatesMu.Unlock()
			}
		}
		return wr
	}
	writers := make([]*c15Writer, nPeers)
	for i := 0; i < nPeers; i++ {
		rounds[i] = 1 + r.Intn(2)
		for rd := 0; rd < rounds[i]; rd++ {
			park[i] = append(park[i], []string{"", "", "subscription-call", "use-case-read", "both"}[r.Intn(5)])
			replace[i] = append(replace[i], rd > 0 && r.Intn(5) < 2)
		}
		p := &rig.Peer{Ski: fmt.Sprintf("%s-ski%d", c.Tag(), i), Addr: fmt.Sprintf("dev%d", i), Tap: &rig.Tap{}, W: w, Ctr: uint64(i+1) * 100000}
		writers[i] = newWriter(park[i][0])
		w.Local.SetupRemoteDevice(p.Ski, writers[i])
		p.RD = w.Local.RemoteDeviceForSki(p.Ski)
		w.Peers = append(w.Peers, p)
	}
	type parkObs struct {
		what                 string
		entered              bool
		opened               int64 // Seq when the gate was opened
		appEntered, returned bool  // observed at the end of the hold, before the gate was opened
	}
	type roundObs struct {
		peer, round int
		wr          *c15Writer
		announced   int64 // Seq before the announcement
		returned    int64 // Seq right after HandleSpineMesssage returned for the discovery reply
		parks       []parkObs
	}
	var mu sync.Mutex
	var obs []roundObs
	var trace []string
	var aborted atomic.Bool
	closed := func(ch <-chan struct{}) bool {
		select {
		case <-ch:
			return true
		default:
			return false
		}
	}
	run := func(i int) {
		p := w.Peers[i]
		for rd := 0; rd < rounds[i] && !aborted.Load(); rd++ {
			if rd > 0 {
				if pan := eGuard(c, "reconnect", func() {
					if !replace[i][rd] {
						w.Local.RemoveRemoteDeviceConnection(p.Ski)
					} else {
						c.Count("integrated_connection_replaced_without_removal", 1)
						if nPeers == 1 {
							c.Count("integrated_connection_replaced_without_removal:only-connection", 1)
						}
					}
					writers[i] = newWriter(park[i][rd])
					w.Local.SetupRemoteDevice(p.Ski, writers[i])
					p.RD = w.Local.RemoteDeviceForSki(p.Ski)
				}); pan != "" {
					c.Violate("integrated/reconnect-panics", "%s", pan)
					return
				}
			}
			wr := writers[i]
			want := rd + 1
			before := rig.Seq()
			// the discovery reply is delivered on a goroutine of its own (exactly one: the holds below compare the
			// goroutine count with the baseline); HandleSpineMesssage does not return while a write is parked
			returned := make(chan struct{})
			var retSeq int64
			var panicked string
			go func() {
				defer close(returned)
				defer func() {
					if x := recover(); x != nil {
						panicked = fmt.Sprint(x)
					}
				}()
				p.Announce(feats)
				retSeq = rig.Seq()
			}()
			var parks []parkObs
			var pending []string
			for _, k := range []string{"subscription-call", "use-case-read"} {
				if wr.gates[k] != nil {
					pending = append(pending, k)
				}
			}
			openAll := func() {
				gatesMu.Lock()
				defer gatesMu.Unlock()
				for _, g := range allGates {
					g.open()
				}
			}
			enteredOne := func() int { // whichever of the round's parking writes has been handed to the writer
				for j, k := range pending {
					if closed(wr.gates[k].entered) {
						return j
					}
				}
				return -1
			}
			for len(pending) > 0 {
				// wait until one of them has been handed to the writer. If the processing of the reply has returned
				// without that, give the stack until the process is quiet (sequential cases) or a moment (concurrent ones)
				deadline := time.Now().Add(30 * time.Second)
				idx := enteredOne()
				for idx < 0 {
					if closed(returned) {
						stable := 0
						for t0 := time.Now(); enteredOne() < 0 && time.Since(t0) < 5*time.Second; time.Sleep(200 * time.Microsecond) {
							if concurrent {
								if time.Since(t0) > 20*time.Millisecond { // pacing only
									break
								}
								continue
							}
							if runtime.NumGoroutine() > baseline {
								stable = 0
							} else if stable++; stable >= 5 {
								break // the process is quiet: nobody is left who could still write it
							}
						}
						idx = enteredOne()
						break
					}
					if time.Now().After(deadline) {
						c.Inconclusive("peer %d round %d: neither was any of %v handed to the connection writer nor did the processing of the discovery reply return within 30s", i, rd, pending)
						aborted.Store(true)
						openAll()
						return
					}
					time.Sleep(100 * time.Microsecond)
					idx = enteredOne()
				}
				if idx < 0 {
					for _, k := range pending {
						parks = append(parks, parkObs{what: k, opened: rig.Seq()})
					}
					break
				}
				k := pending[idx]
				pending = append(pending[:idx], pending[idx+1:]...)
				g := wr.gates[k]
				po := parkObs{what: k, entered: true}
				// HOLD: the write is parked inside the writer. Nothing the statement allows can happen now: the core-level
				// handler has not returned. The hold only gives a deviating stack the opportunity to show itself (the
				// verdicts below are on logged order, not on this wait): it ends when an application handler of the event
				// has been entered or the processing has returned (the deviation is on the log), when the process is quiet
				// except for the one goroutine parked in the write (sequential cases: nothing more can happen), or after a
				// moment (concurrent cases).
				stable, how := 0, "pacing-limit-of-2s"
				for t0 := time.Now(); time.Since(t0) < 2*time.Second; time.Sleep(100 * time.Microsecond) {
					if len(h1.addsFor(p.Ski)) >= want || len(h2.addsFor(p.Ski)) >= want || closed(returned) {
						how = "deviation-on-the-log"
						break
					}
					if concurrent {
						if time.Since(t0) > 3*time.Millisecond {
							how = "a-moment(concurrent-case)"
							break
						}
						continue
					}
					if runtime.NumGoroutine() > baseline+1 {
						stable = 0
					} else if stable++; stable >= 5 {
						how = "process-quiet-except-for-the-parked-write"
						break
					}
				}
				c.Count("integrated_hold_ended_by:"+how, 1)
				po.appEntered = len(h1.addsFor(p.Ski)) >= want || len(h2.addsFor(p.Ski)) >= want
				po.returned = closed(returned)
				c.Count("integrated_writes_parked:"+k, 1)
				po.opened = rig.Seq()
				g.g.open()
				parks = append(parks, po)
			}
			select {
			case <-returned:
			case <-time.After(30 * time.Second):
				c.Inconclusive("peer %d round %d: the processing of the discovery reply did not return within 30s; parking for the hang monitor", i, rd)
				openAll()
				for {
					time.Sleep(time.Hour)
				}
			}
			if panicked != "" {
				c.Violate("integrated/announce-panics", "%s", panicked)
				return
			}
			if n := p.PanicCount(); n > 0 {
				c.Violate("integrated/announce-panics", "%s", p.Panics[n-1])
				return
			}
			// wait for the application-level deliveries of this round before the connection is replaced
			_ = rig.WaitFor(30*time.Second, func() bool { return len(h1.addsFor(p.Ski)) >= want && len(h2.addsFor(p.Ski)) >= want }) // expiry is decided below on the goroutine baseline
			mu.Lock()
			obs = append(obs, roundObs{peer: i, round: rd, wr: wr, announced: before, returned: retSeq, parks: parks})
			mu.Unlock()
		}
	}
	if concurrent {
		var wg sync.WaitGroup
		for i := 0; i < nPeers; i++ {
			wg.Add(1)
			go func(i int) { defer wg.Done(); run(i) }(i)
		}
		wg.Wait()
	} else {
		for _, i := range r.Perm(nPeers) {
			run(i)
		}
	}
	if aborted.Load() {
		return
	}
	if !rig.WaitQuiet(baseline, 30*time.Second) {
		c.Inconclusive("goroutine count did not return to its baseline (%d, now %d)", baseline, runtime.NumGoroutine())
		return
	}
	published := map[string]int{}
	for _, e := range w.Core.Take() {
		if e.P.EventType == api.EventTypeDeviceChange && e.P.ChangeType == api.ElementChangeAdd {
			published[e.P.Ski]++
		}
	}
	complete := true
	for _, o := range obs {
		p := w.Peers[o.peer]
		id := fmt.Sprintf("peer %d (%s) round %d", o.peer, p.Ski, o.round)
		adds, adds2 := h1.addsFor(p.Ski), h2.addsFor(p.Ski)
		if len(adds) <= o.round || len(adds2) <= o.round {
			complete = false
			continue // counted below as missing delivery
		}
		// the earliest entry of an application-level handler for this event
		entry, who := adds[o.round].entry, "application handler 1"
		if adds2[o.round].entry < entry {
			entry, who = adds2[o.round].entry, "application handler 2"
		}
		var subSeq, ucSeq int64
		var lines []string
		outs := o.wr.take() // everything this connection's writer completed until the process was quiet
		// exactly once: the stack's own handler is a subscribed handler like any other; one announcement per connection
		c.Events(1)
		if ns, nu := c15StackReaction(outs); ns > 1 || nu > 1 {
			c.Violate("integrated/stack-handler-reacted-more-than-once", "%s: one discovery reply was processed on this connection (one DeviceChange/add); NodeManagement subscription calls written to the peer: %d, use-case reads: %d", id, ns, nu)
		}
		for _, out := range outs {
			switch k := c15WriteKind(out.D); {
			case k == "subscription-call" && subSeq == 0:
				subSeq = out.Seq
			case k == "use-case-read" && ucSeq == 0:
				ucSeq = out.Seq
			}
		}
		subStart, ucStart := o.wr.startOf("subscription-call"), o.wr.startOf("use-case-read")
		lines = append(lines, fmt.Sprintf("call nodeManagementSubscriptionRequestCall: handed to the writer at %d, write complete at %d", subStart, subSeq),
			fmt.Sprintf("read nodeManagementUseCaseData: handed to the writer at %d, write complete at %d", ucStart, ucSeq))
		var parked []string
		for _, po := range o.parks {
			if !po.entered {
				parked = append(parked, fmt.Sprintf("the write of the %s was to be parked but was never handed to the writer", po.what))
				continue
			}
			parked = append(parked, fmt.Sprintf("the write of the %s was parked inside the connection writer until %d; at the end of the hold: application handler entered=%v, processing of the discovery reply returned=%v", po.what, po.opened, po.appEntered, po.returned))
			if !po.appEntered && !po.returned {
				c.Count("integrated_parked_writes:neither-application-handler-nor-return-while-parked", 1)
			}
		}
		c.Events(4)
		trace = append(trace, fmt.Sprintf("%s: announced>%d subscription call@%d..%d use-case read@%d..%d %s of DeviceChange/add entered@%d HandleSpineMesssage returned@%d %v", id, o.announced, subStart, subSeq, ucStart, ucSeq, who, entry, o.returned, parked))
		ctx := fmt.Sprintf("\n writes: %v\n %s", lines, strings.Join(parked, "\n "))
		// (1) core first: the stack's own core-level handler of DeviceChange/add (DeviceLocal.HandleEvent: subscription call
		// and use-case read to the announcing peer) has FINISHED - both writes have returned - before any application-level
		// handler of that event is entered
		if subSeq == 0 || subSeq > entry {
			c.Violate("integrated/subscription-call-not-written-before-application-handler", "%s: %s of DeviceChange/add entered at %d; NodeManagement subscription call on the tap: %d (0 = never)%s", id, who, entry, subSeq, ctx)
		}
		if ucSeq == 0 || ucSeq > entry {
			c.Violate("integrated/use-case-read-not-written-before-application-handler", "%s: %s of DeviceChange/add entered at %d; use-case read on the tap: %d (0 = never)%s", id, who, entry, ucSeq, ctx)
		}
		// (2) ... and before the publication returns: the publication happens while the discovery reply is processed, so
		// when HandleSpineMesssage has returned for that reply the publication has returned
		if subSeq == 0 || subSeq > o.returned {
			c.Violate("integrated/subscription-call-not-written-when-processing-of-the-discovery-reply-returned", "%s: HandleSpineMesssage returned at %d; NodeManagement subscription call on the tap: %d (0 = never)%s", id, o.returned, subSeq, ctx)
		}
		if ucSeq == 0 || ucSeq > o.returned {
			c.Violate("integrated/use-case-read-not-written-when-processing-of-the-discovery-reply-returned", "%s: HandleSpineMesssage returned at %d; use-case read on the tap: %d (0 = never)%s", id, o.returned, ucSeq, ctx)
		}
	}
	// the expectation comes from the script, not from another bus handler: every discovery reply whose processing
	// returned announced a new connection, which is one DeviceChange/add for every subscribed handler of either level
	processed := make([]int, len(w.Peers))
	for _, o := range obs {
		processed[o.peer]++
	}
	for i, p := range w.Peers {
		for hi, h := range []*c15IntHandler{h1, h2} {
			c.Events(1)
			got := len(h.addsFor(p.Ski))
			switch {
			case got < processed[i]:
				c.Violate("integrated/missing-delivery", "peer %d: %d discovery replies of new connections were processed (one DeviceChange/add each; the case's core-level handler saw %d), application handler %d received %d; the process is quiet", i, processed[i], published[p.Ski], hi+1, got)
			case got > processed[i]:
				c.Violate("integrated/delivered-more-than-once", "peer %d: %d discovery replies of new connections were processed (one DeviceChange/add each; the case's core-level handler saw %d), application handler %d (subscribed %d times) received %d", i, processed[i], published[p.Ski], hi+1, hi+1, got)
			}
		}
		c.Events(1)
		if published[p.Ski] != processed[i] {
			c.Violate("integrated/core-level-handler-delivery-count", "peer %d: %d discovery replies of new connections were processed (one DeviceChange/add each), the case's core-level handler (subscribed before the first connection) received %d", i, processed[i], published[p.Ski])
		}
		if published[p.Ski] != rounds[i] {
			complete = false
		}
	}
	if c.Failed() {
		c.Witness(map[string]any{"peers": nPeers, "rounds": rounds, "concurrent": concurrent, "parked_writes": park, "connection_replaced_without_removal": replace, "trace": trace})
	}
	c.Shape(fmt.Sprintf("peers=%d rounds=%v concurrent=%v writer-delay=%s parked=%v replaced=%v", nPeers, rounds, concurrent, delay, park, replace))
	c.NonTrivial(complete && len(obs) > 0)
	c.Count("integrated_rounds", int64(len(obs)))
	c.Sample(map[string]any{"peers": nPeers, "rounds": rounds, "concurrent": concurrent, "writer_delay": delay.String(), "parked_writes": park, "connection_replaced_without_removal": replace, "trace": trace})
}

// ---------------------------------------------------------------------------
// integrated path, connection life cycle histories (two cases in five of part integrated)
//
// "DeviceLocal registers itself as the core handler while peers are connected": the stack's own handling of
// DeviceChange/add (subscription call + use-case read to the announcing peer) must have happened before an
// application handler of that event is entered, for EVERY connection history - in particular when the announcing
// peer is the only connection (the first one ever, or the first one after the last connection was removed: the stack
// drops its core-level subscription with the last connection), when another peer left for good between this peer's
// connection and its announcement, and when the peer answers FAST: its discovery reply is processed by the
// connection's reader goroutine while the stack's send call of the discovery read has not returned yet (the
// connection writer of these cases delivers the reply through HandleSpineMesssage from a helper goroutine from inside
// that write and returns when a core-level observer of the case - subscribed before any connection exists, hence
// called before the stack's own handler - has seen the event, i.e. when the publication has taken place; bounded,
// expiry => inconclusive). The script is sequential; verdicts on logged order exactly as in c15Integrated, and the
// number of DeviceChange/add deliveries expected per peer is the number of announcements of the script (not what
// another bus handler saw).

type c15LifeCore struct {
	tag  string
	mu   sync.Mutex
	adds map[string]int
}

func (o *c15LifeCore) HandleEvent(p api.EventPayload) {
	if !strings.HasPrefix(p.Ski, o.tag) || p.EventType != api.EventTypeDeviceChange || p.ChangeType != api.ElementChangeAdd {
		return
	}
	o.mu.Lock()
	o.adds[p.Ski]++
	o.mu.Unlock()
}

func (o *c15LifeCore) n(ski string) int { o.mu.Lock(); defer o.mu.Unlock(); return o.adds[ski] }

type c15LifeStep struct {
	kind  string // setup | announce | leave
	peer  int
	eager bool // setup: the peer's discovery reply is processed inside the write of the discovery read
	// announcing steps: application handler 1 removes the connection of the event's own device from inside HandleEvent
	handlerLeaves bool
}

func (s c15LifeStep) String() string {
	x := ""
	if s.handlerLeaves {
		x = "+handler-disconnects-it"
	}
	if s.kind == "setup" && s.eager {
		return fmt.Sprintf("setup+fast-reply(%d)%s", s.peer, x)
	}
	return fmt.Sprintf("%s(%d)%s", s.kind, s.peer, x)
}

func c15Lifecycle(c *rig.Ctx) {
	r := c.Rand
	w := rig.NewWorld(c.Tag())
	defer w.Close()
	ent := w.AddEntity(model.EntityTypeTypeCEM, []uint{1}, 4*time.Second)
	ent.GetOrAddFeature(model.FeatureTypeTypeMeasurement, model.RoleTypeClient)
	h1 := &c15IntHandler{tag: c.Tag(), w: w}
	h2 := &c15IntHandler{tag: c.Tag(), w: w}
	core := &c15LifeCore{tag: c.Tag(), adds: map[string]int{}}
	_ = spine.VerifSubscribeCore(core) // before any connection: it precedes the stack's own handler in the handler list
	_ = spine.Events.Subscribe(h1)
	_ = spine.Events.Subscribe(h2)
	_ = spine.Events.Subscribe(h2)
	defer func() {
		_ = spine.Events.Unsubscribe(h1)
		_ = spine.Events.Unsubscribe(h2)
		_ = spine.VerifUnsubscribeCore(core)
	}()
	baseline := eStableGoroutines()
	feats := []rig.FS{rig.NMFS, {Ent: []uint{1}, Id: 1, Typ: model.FeatureTypeTypeMeasurement, Role: model.RoleTypeServer}}
	delay := []time.Duration{0, 0, 100 * time.Microsecond, 300 * time.Microsecond, 2 * time.Millisecond}[r.Intn(5)]

	// ---- the script
	nPeers := []int{1, 1, 2, 2, 3}[r.Intn(5)]
	var script []c15LifeStep
	tmpl := (c.Index/5*2 + c.Index%5/2) % 11 // c.Index%5 is 1 or 3: consecutive life cycle cases walk through the templates
	switch tmpl {
	case 0: // the first connection ever answers fast
		script = []c15LifeStep{{"setup", 0, true, r.Intn(2) == 0}}
	case 1: // the last connection is removed, then the same peer connects again and answers fast
		script = []c15LifeStep{{"setup", 0, r.Intn(2) == 0, false}, {"announce", 0, false, false}, {"leave", 0, false, false}, {"setup", 0, true, false}}
	case 2: // A and B connected, A announces and leaves for good, then B announces
		nPeers = max(nPeers, 2)
		script = []c15LifeStep{{"setup", 0, false, false}, {"setup", 1, false, false}, {"announce", 0, false, false}, {"leave", 0, false, false}, {"announce", 1, false, false}}
	case 3: // A leaves for good, then B connects as the only connection and answers fast
		nPeers = max(nPeers, 2)
		script = []c15LifeStep{{"setup", 0, r.Intn(2) == 0, false}, {"announce", 0, false, false}, {"leave", 0, false, false}, {"setup", 1, true, r.Intn(3) == 0}}
	case 4: // B connects while A is there, A leaves (announced or not), then B announces
		nPeers = max(nPeers, 2)
		script = []c15LifeStep{{"setup", 0, r.Intn(2) == 0, false}, {"announce", 0, false, false}, {"setup", 1, false, false}, {"leave", 0, false, false}, {"announce", 1, false, false}}
		if r.Intn(2) == 0 {
			script = []c15LifeStep{{"setup", 0, false, false}, {"setup", 1, false, false}, {"leave", 0, false, false}, {"announce", 1, false, false}}
		}
	// 6-8: a connection is REPLACED - SetupRemoteDevice for a SKI that is still registered (the connection layer reports the
	// new connection before the end of the old one, or never reports that)
	case 6: // the only connection has announced itself and is replaced
		script = []c15LifeStep{{"setup", 0, r.Intn(2) == 0, false}, {"announce", 0, false, false}, {"setup", 0, r.Intn(2) == 0, false}, {"announce", 0, false, false}}
	case 7: // the only connection is replaced before it announced itself
		script = []c15LifeStep{{"setup", 0, false, false}, {"setup", 0, r.Intn(2) == 0, false}, {"announce", 0, false, false}}
	case 8: // two connections, one leaves for good, then the remaining one is replaced
		nPeers = max(nPeers, 2)
		script = []c15LifeStep{{"setup", 0, false, false}, {"setup", 1, false, false}, {"announce", 0, false, false}, {"announce", 1, false, false}, {"leave", 1, false, false}, {"setup", 0, r.Intn(2) == 0, false}, {"announce", 0, false, false}}
		if r.Intn(2) == 0 {
			script = []c15LifeStep{{"setup", 0, false, false}, {"setup", 1, false, false}, {"leave", 1, false, false}, {"setup", 0, false, false}, {"announce", 0, false, false}}
		}
	// 9-10: the end of a connection that does not exist is reported while another peer is connected and has not announced itself yet
	case 9: // ... for a peer that never connected
		nPeers = max(nPeers, 2)
		script = []c15LifeStep{{"setup", 0, false, false}, {"leave", 1, false, false}, {"announce", 0, false, false}}
	case 10: // ... a second time for a peer that has left
		nPeers = max(nPeers, 2)
		script = []c15LifeStep{{"setup", 0, r.Intn(2) == 0, false}, {"setup", 1, false, false}, {"announce", 0, false, false}, {"leave", 0, false, false}, {"leave", 0, false, false}, {"announce", 1, false, false}}
	}
	st := make([]int, nPeers) // 0 not connected, 1 connected, 2 announced
	for i := 0; i < len(script); i++ {
		s := &script[i]
		switch {
		case s.kind == "announce" && st[s.peer] == 2: // (the setup before it answered fast)
			script = append(script[:i], script[i+1:]...)
			i--
		case s.kind == "setup" && s.eager, s.kind == "announce":
			st[s.peer] = 2
			if s.handlerLeaves {
				st[s.peer] = 0
			}
		case s.kind == "setup":
			st[s.peer] = 1
		default:
			st[s.peer] = 0
		}
	}
	for n := r.Intn(5); n > 0; n-- {
		i := r.Intn(nPeers)
		hl := r.Intn(3) == 0 // the application disconnects the device from inside its handler of DeviceChange/add
		state := st[i]
		if state != 0 && r.Intn(4) == 0 {
			state = 0 // the connection is replaced: set up again without a leave
		}
		if st[i] == 0 && r.Intn(6) == 0 {
			// the end of a connection that does not exist (any more) is reported: a second leave, or one for a peer that never connected
			script = append(script, c15LifeStep{"leave", i, false, false})
			continue
		}
		switch state {
		case 0:
			eager := r.Intn(2) == 0
			script = append(script, c15LifeStep{"setup", i, eager, eager && hl})
			st[i] = 1
			if eager {
				st[i] = 2
				if hl {
					st[i] = 0
				}
			}
		case 1:
			if r.Intn(10) < 7 {
				script = append(script, c15LifeStep{"announce", i, false, hl})
				st[i] = 2
				if hl {
					st[i] = 0
				}
			} else {
				script = append(script, c15LifeStep{"leave", i, false, false})
				st[i] = 0
			}
		default:
			script = append(script, c15LifeStep{"leave", i, false, false})
			st[i] = 0
		}
	}
	var shape []string
	for _, s := range script {
		shape = append(shape, s.String())
	}
	c.Shape(fmt.Sprintf("lifecycle peers=%d writer-delay=%s %s", nPeers, delay, strings.Join(shape, " ")))

	// ---- execution
	peers := make([]*rig.Peer, nPeers)
	writers := make([]*c15Writer, nPeers)
	for i := range peers {
		peers[i] = &rig.Peer{Ski: fmt.Sprintf("%s-ski%d", c.Tag(), i), Addr: fmt.Sprintf("dev%d", i), Tap: &rig.Tap{}, W: w, Ctr: uint64(i+1) * 100000}
		w.Peers = append(w.Peers, peers[i])
	}
	type lifeObs struct {
		step, peer, idx int // idx: n-th announcement of this peer
		wr              *c15Writer
		returned        int64
		how             string
	}
	var obs []lifeObs
	var trace []string
	expected := make([]int, nPeers)
	connected := make([]bool, nPeers)
	leftSince := make([]bool, nPeers) // another peer left since this peer was set up
	anyLeft := false
	// state-changing calls into the stack from inside application handlers of DeviceChange/add ("handlers may ... call back
	// into the stack while handling an event without blocking it"): handler 1 disconnects the event's own device where the
	// script says so; handler 2 sets data on a local server feature and subscribes a local client feature to the
	// announcing device's server feature (not while handler 1 disconnects that device)
	srv := ent.GetOrAddFeature(model.FeatureTypeTypeLoadControl, model.RoleTypeServer)
	srv.AddFunctionType(model.FunctionTypeLoadControlLimitListData, true, false)
	cli := ent.GetOrAddFeature(model.FeatureTypeTypeMeasurement, model.RoleTypeClient)
	var actMu sync.Mutex
	leaveAt := map[string]bool{} // "<ski>#<n>"
	var nLeft, nSet, nSub atomic.Int64
	h1.act = func(p api.EventPayload, n int) {
		actMu.Lock()
		leave := leaveAt[fmt.Sprintf("%s#%d", p.Ski, n)]
		actMu.Unlock()
		if leave {
			w.Local.RemoveRemoteDeviceConnection(p.Ski)
			nLeft.Add(1)
		}
	}
	h2.act = func(p api.EventPayload, n int) {
		srv.SetData(model.FunctionTypeLoadControlLimitListData, &model.LoadControlLimitListDataType{LoadControlLimitData: []model.LoadControlLimitDataType{{LimitId: util.Ptr(model.LoadControlLimitIdType(n + 1))}}})
		nSet.Add(1)
		actMu.Lock()
		leave := leaveAt[fmt.Sprintf("%s#%d", p.Ski, n)]
		actMu.Unlock()
		if rd := w.Local.RemoteDeviceForSki(p.Ski); rd != nil && rd.Address() != nil && !leave {
			_, _ = cli.SubscribeToRemote(rig.FA(string(*rd.Address()), []uint{1}, 1))
			nSub.Add(1)
		}
	}
	handlersDone := func(si int) bool {
		if h1.inAct.Load() == 0 && h2.inAct.Load() == 0 {
			return true
		}
		c.Inconclusive("step %d: a call into the stack made from inside an application handler of DeviceChange/add has not returned; parking for the hang monitor", si)
		for {
			time.Sleep(time.Hour)
		}
	}
	awaitApp := func(p *rig.Peer, want int) {
		// until both application handlers have the event, or nothing is left in the process that could deliver it
		stable := 0
		for t0 := time.Now(); time.Since(t0) < 30*time.Second; time.Sleep(200 * time.Microsecond) {
			if len(h1.addsFor(p.Ski)) >= want && len(h2.addsFor(p.Ski)) >= want {
				return
			}
			if runtime.NumGoroutine() > baseline {
				stable = 0
			} else if stable++; stable >= 10 {
				return
			}
		}
	}
	for si, s := range script {
		p := peers[s.peer]
		others := 0
		for j, x := range connected {
			if x && j != s.peer {
				others++
			}
		}
		switch s.kind {
		case "setup":
			wr := &c15Writer{delay: delay, gates: map[string]*c15WriteGate{}}
			writers[s.peer] = wr
			leftSince[s.peer] = false
			if connected[s.peer] {
				c.Count("lifecycle:connection-replaced-without-leave", 1)
				if others == 0 {
					c.Count("lifecycle:connection-replaced-without-leave:only-connection", 1)
				}
			}
			if s.handlerLeaves {
				actMu.Lock()
				leaveAt[fmt.Sprintf("%s#%d", p.Ski, expected[s.peer])] = true
				actMu.Unlock()
			}
			var retSeq int64
			var panicked string
			var expired, noRD atomic.Bool
			done := make(chan struct{})
			want := expected[s.peer] + 1
			if s.eager {
				wr.eager = func(d model.DatagramType) {
					ref := d.Header.MsgCounter
					go func() { // the connection's reader goroutine
						defer close(done)
						defer func() {
							if x := recover(); x != nil {
								panicked = fmt.Sprint(x)
							}
						}()
						rd := w.Local.RemoteDeviceForSki(p.Ski)
						if rd == nil {
							noRD.Store(true)
							return
						}
						dg := rig.Datagram(model.CmdClassifierTypeReply, p.NM(), rig.LNM, p.NextCounter(), false, ref, model.CmdType{NodeManagementDetailedDiscoveryData: p.Discovery(feats, nil, nil)})
						b, _ := json.Marshal(dg)
						_, _ = rd.HandleSpineMesssage(b)
						retSeq = rig.Seq()
					}()
					for t0 := time.Now(); ; time.Sleep(50 * time.Microsecond) {
						select {
						case <-done:
							return
						default:
						}
						if core.n(p.Ski) >= want {
							return
						}
						if time.Since(t0) > 15*time.Second {
							expired.Store(true)
							return
						}
					}
				}
			}
			if pan := eGuard(c, "SetupRemoteDevice", func() {
				w.Local.SetupRemoteDevice(p.Ski, wr)
				p.RD = w.Local.RemoteDeviceForSki(p.Ski)
			}); pan != "" {
				c.Violate("integrated/setup-panics", "%s", pan)
				return
			}
			connected[s.peer] = true
			if s.eager {
				select {
				case <-done:
				case <-time.After(30 * time.Second):
					c.Inconclusive("step %d: the processing of the discovery reply delivered inside the write of the discovery read did not return within 30s; parking for the hang monitor", si)
					for {
						time.Sleep(time.Hour)
					}
				}
				switch {
				case panicked != "":
					c.Violate("integrated/announce-panics", "%s", panicked)
					return
				case noRD.Load():
					c.Inconclusive("step %d: the remote device was not registered when its discovery read was written", si)
					return
				case expired.Load():
					c.Inconclusive("step %d: the discovery reply delivered inside the write of the discovery read was not published within 15s", si)
					return
				}
				expected[s.peer]++
				how := "fast reply (inside the write of the discovery read)"
				if others == 0 {
					how += ", only connection"
					c.Count("lifecycle:fast-reply-as-the-only-connection", 1)
					if anyLeft {
						how += " after the last connection was removed"
						c.Count("lifecycle:fast-reply-as-the-only-connection-after-the-last-one-was-removed", 1)
					}
				} else {
					c.Count("lifecycle:fast-reply-with-other-connections", 1)
				}
				awaitApp(p, want)
				obs = append(obs, lifeObs{step: si, peer: s.peer, idx: want - 1, wr: wr, returned: retSeq, how: how})
			}
		case "announce":
			var retSeq int64
			if s.handlerLeaves {
				actMu.Lock()
				leaveAt[fmt.Sprintf("%s#%d", p.Ski, expected[s.peer])] = true
				actMu.Unlock()
			}
			if pan := eGuard(c, "processing of the discovery reply", func() {
				p.Announce(feats)
				retSeq = rig.Seq()
			}); pan != "" {
				c.Violate("integrated/announce-panics", "%s", pan)
				return
			}
			if n := p.PanicCount(); n > 0 {
				c.Violate("integrated/announce-panics", "%s", p.Panics[n-1])
				return
			}
			expected[s.peer]++
			how := "reply after the connection was set up"
			if leftSince[s.peer] {
				how += ", another peer left for good meanwhile"
				c.Count("lifecycle:announce-after-another-peer-left", 1)
				if others == 0 {
					c.Count("lifecycle:announce-after-another-peer-left:only-connection-now", 1)
				}
			}
			awaitApp(p, expected[s.peer])
			obs = append(obs, lifeObs{step: si, peer: s.peer, idx: expected[s.peer] - 1, wr: writers[s.peer], returned: retSeq, how: how})
		case "leave":
			if pan := eGuard(c, "RemoveRemoteDeviceConnection", func() { w.Local.RemoveRemoteDeviceConnection(p.Ski) }); pan != "" {
				c.Violate("integrated/disconnect-panics", "%s", pan)
				return
			}
			if !connected[s.peer] {
				c.Count("lifecycle:leave-of-a-peer-that-is-not-connected", 1)
				break
			}
			connected[s.peer] = false
			anyLeft = true
			for j := range leftSince {
				if j != s.peer && connected[j] {
					leftSince[j] = true
				}
			}
		}
		if !rig.WaitQuiet(baseline, 30*time.Second) {
			if handlersDone(si) {
				c.Inconclusive("goroutine count did not return to its baseline (%d, now %d) after step %d", baseline, runtime.NumGoroutine(), si)
			}
			return
		}
		if s.handlerLeaves && s.kind != "leave" {
			// application handler 1 has disconnected the device from inside its handler
			if w.Local.RemoteDeviceForSki(p.Ski) != nil {
				c.Violate("integrated/disconnect-from-inside-a-handler-has-no-effect", "step %d %s: RemoveRemoteDeviceConnection(%s) was called from inside the application handler of DeviceChange/add and returned, the device is still registered", si, s, p.Ski)
			}
			connected[s.peer] = false
			anyLeft = true
			for j := range leftSince {
				if j != s.peer && connected[j] {
					leftSince[j] = true
				}
			}
		}
	}
	for hi, h := range []*c15IntHandler{h1, h2} {
		h.mu.Lock()
		if len(h.panics) > 0 {
			c.Violate("reentrant/state-changing-stack-call-panics", "application handler %d: %v", hi+1, h.panics)
		}
		h.mu.Unlock()
	}
	c.Count("lifecycle:handler_disconnected_the_events_own_device", nLeft.Load())
	c.Count("lifecycle:handler_SetData", nSet.Load())
	c.Count("lifecycle:handler_SubscribeToRemote", nSub.Load())

	// ---- verdicts (logged order)
	taken := map[*c15Writer][]rig.Out{}
	for _, o := range obs {
		p := peers[o.peer]
		id := fmt.Sprintf("step %d %s, peer %d (%s): %s", o.step, script[o.step], o.peer, p.Ski, o.how)
		adds, adds2 := h1.addsFor(p.Ski), h2.addsFor(p.Ski)
		if _, ok := taken[o.wr]; !ok {
			taken[o.wr] = o.wr.take()
			// exactly once: the stack's own handler is a subscribed handler like any other; a connection announces itself once
			c.Events(1)
			if ns, nu := c15StackReaction(taken[o.wr]); ns > 1 || nu > 1 {
				c.Violate("integrated/stack-handler-reacted-more-than-once", "%s: one discovery reply was processed on this connection (one DeviceChange/add); NodeManagement subscription calls written to the peer: %d, use-case reads: %d\n script: %s", id, ns, nu, strings.Join(shape, " "))
			}
		}
		var subSeq, ucSeq int64
		for _, out := range taken[o.wr] {
			switch k := c15WriteKind(out.D); {
			case k == "subscription-call" && subSeq == 0:
				subSeq = out.Seq
			case k == "use-case-read" && ucSeq == 0:
				ucSeq = out.Seq
			}
		}
		c.Events(4)
		if len(adds) <= o.idx || len(adds2) <= o.idx {
			trace = append(trace, fmt.Sprintf("%s: subscription call written@%d use-case read written@%d, DeviceChange/add not delivered to every application handler (%d, %d of %d)", id, subSeq, ucSeq, len(adds), len(adds2), o.idx+1))
			continue // reported below as a missing delivery
		}
		entry, who := adds[o.idx].entry, "application handler 1"
		if adds2[o.idx].entry < entry {
			entry, who = adds2[o.idx].entry, "application handler 2"
		}
		trace = append(trace, fmt.Sprintf("%s: subscription call written@%d use-case read written@%d %s of DeviceChange/add entered@%d HandleSpineMesssage returned@%d", id, subSeq, ucSeq, who, entry, o.returned))
		ctx := "\n script: " + strings.Join(shape, " ")
		if subSeq == 0 || subSeq > entry {
			c.Violate("integrated/subscription-call-not-written-before-application-handler", "%s: %s of DeviceChange/add entered at %d; NodeManagement subscription call on the tap: %d (0 = never)%s", id, who, entry, subSeq, ctx)
		}
		if ucSeq == 0 || ucSeq > entry {
			c.Violate("integrated/use-case-read-not-written-before-application-handler", "%s: %s of DeviceChange/add entered at %d; use-case read on the tap: %d (0 = never)%s", id, who, entry, ucSeq, ctx)
		}
		if subSeq == 0 || subSeq > o.returned {
			c.Violate("integrated/subscription-call-not-written-when-processing-of-the-discovery-reply-returned", "%s: HandleSpineMesssage returned at %d; NodeManagement subscription call on the tap: %d (0 = never)%s", id, o.returned, subSeq, ctx)
		}
		if ucSeq == 0 || ucSeq > o.returned {
			c.Violate("integrated/use-case-read-not-written-when-processing-of-the-discovery-reply-returned", "%s: HandleSpineMesssage returned at %d; use-case read on the tap: %d (0 = never)%s", id, o.returned, ucSeq, ctx)
		}
	}
	complete := len(obs) > 0
	for i, p := range peers {
		for hi, h := range []*c15IntHandler{h1, h2} {
			c.Events(1)
			switch got := len(h.addsFor(p.Ski)); {
			case got < expected[i]:
				complete = false
				c.Violate("integrated/missing-delivery", "peer %d: %d discovery replies were processed (one DeviceChange/add each), application handler %d received %d; the process is quiet\n script: %s", i, expected[i], hi+1, got, strings.Join(shape, " "))
			case got > expected[i]:
				c.Violate("integrated/delivered-more-than-once", "peer %d: %d discovery replies were processed (one DeviceChange/add each), application handler %d (subscribed %d times) received %d\n script: %s", i, expected[i], hi+1, hi+1, got, strings.Join(shape, " "))
			}
		}
	}
	if c.Failed() {
		c.Witness(map[string]any{"peers": nPeers, "script": shape, "trace": trace})
	}
	c.NonTrivial(complete)
	c.Count("lifecycle_announcements_judged", int64(len(obs)))
	c.Seen("lifecycle_templates", fmt.Sprint(tmpl))
	c.Sample(map[string]any{"peers": nPeers, "script": shape, "writer_delay": delay.String(), "trace": trace})
}
