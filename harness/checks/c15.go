package checks

import (
	"encoding/json"
	"fmt"
	"math/rand"
	"runtime"
	"sort"
	"strings"
	"sync"
	"sync/atomic"
	"time"

	"github.com/enbility/spine-go/api"
	"github.com/enbility/spine-go/model"
	"github.com/enbility/spine-go/spine"
	"github.com/enbility/spine-go/util"

	"verifharness/rig"
)

// C15 — the event bus delivers every state change once, core first, without deadlock.
//
// bus:        2 core-level harness handlers (spine.VerifSubscribeCore) + 3 application-level ones
//             (spine.Events.Subscribe; in a third of the cases the third one is ALSO subscribed at the core
//             level, so that "unsubscribe removes the right level" is observable). 1-4 publisher goroutines run
//             20-60 subscribe / unsubscribe / double-subscribe / publish operations; handlers carry a per
//             (handler, event) re-entrant action (subscribe, unsubscribe self or others, re-subscribe, publish a
//             follow-up event, call DataCopy/Subscriptions/RemoteDevices/HasUseCaseSupport, open and close a
//             connection, block until Publish returned). Every operation is bracketed by rig.Seq and every
//             handler logs entry and exit with the token carried in EventPayload.Data; the oracles read only
//             that log (DESIGN.md C15).
//             Every second case ends with a mutual-wait stage: the application handlers are subscribed anew in a
//             drawn order and one event is published during which an EARLIER subscribed application handler stays
//             inside HandleEvent until a LATER subscribed one has entered HandleEvent for the same event (c15Await;
//             also the other way round, and all of them waiting for each other).
// integrated: after a peer's discovery reply the application handler of DeviceChange/add must find the
//             NodeManagement subscription call and the use-case read on that peer's tap already written.
//             The ordering the statement demands: core-level handlers run to completion before the publication
//             returns and before any application-level handler of the same event is entered. The stack's own
//             core-level handler of DeviceChange/add is DeviceLocal.HandleEvent; its work is observable as two
//             writes to the announcing peer's connection. Judged on logged order (rig.Seq): both writes have
//             RETURNED (a) before the first application-level handler of that DeviceChange/add is entered and
//             (b) before DeviceRemote.HandleSpineMesssage returns for the discovery reply (the publication
//             happens inside it). To make that deciding the connection writer is slow (0-2 ms) and, in 60% of the
//             rounds, does not return from the write of the subscription call and/or the use-case read until the
//             case opens a gate: while the write is parked the core-level handler has not finished, so neither
//             may an application handler run nor the processing return; the case holds the write until the process
//             is quiet except for the parked goroutine (sequential cases) or for a moment (concurrent cases), which
//             is pacing only - the verdict compares the logged Seq of "write complete" with "handler entered" and
//             "processing returned".
//
// The bus is process-global: foreign handlers (the World's core sink, DeviceLocal) stay subscribed and
// simply ignore the tokens; spine.VerifHandlerCount is only recorded.

const c15SkiPrefix = "c15ev:" // dedicated prefix, ignored by every rig.World sink

const (
	c15Core = 0
	c15App  = 1
)

func init() {
	rig.Register(&rig.Check{
		ID:    "C15",
		Floor: 120,
		Rule: "bus: case = one generated history (sequential prologue, 1-4 concurrent publisher goroutines with 20-60 operations, sequential epilogue with unsubscribe-then-publish) plus one re-entrant action per (handler, event) slot, all drawn from the case PRNG; " +
			"every second case ends with a mutual-wait stage (1-2 rounds): the application handlers are unsubscribed and subscribed anew in a drawn order (2 or 3 of them), then one event is published during which an earlier subscribed application handler stays inside HandleEvent until a later subscribed one has entered HandleEvent for the same event (bounded wait; first round: that, or all of them wait for all the others; second round also a later subscribed one waiting for an earlier one); " +
			"non-trivial if at least one exactly-once pair, one zero pair (unsubscribed before the publication) and one re-entrant action inside a handler were judged. " +
			"integrated: case = 1-3 peers announcing (concurrently in half of the cases), some after a reconnect, over a connection writer that takes 0/0.1/0.3/2 ms per write and, per round drawn, parks the write of the NodeManagement subscription call, of the use-case read, of both or of neither until the case releases it; non-trivial if every DeviceChange/add reached both application handlers and the completion of the two writes was compared with the entry of the first application handler and with the return of HandleSpineMesssage. " +
			"distinct = hash of operation kinds, targets, goroutine split and action slots.",
		Assumptions: []string{
			"a delivery is attributed to the core level if it ran on the goroutine that called Publish, else to the application level (only needed for the handler that is subscribed at both levels)",
			"handlers whose (un)subscription overlaps a publication may or may not receive it: only 'at most once' is asserted for them",
			"'not delivered' is decided after the process is back at its baseline goroutine count (every go HandleEvent has finished), never after a sleep; if that is not reached within the watchdog the case is inconclusive",
			"publishing from inside a core-level handler is not generated (the stack never does it; Publish holds its handling mutex there)",
			"a publisher or handler that does not return parks the case for the parent's hang monitor (hang@<frame>)",
			"integrated: 'the stack's internal handlers have finished' is observed through the two messages DeviceLocal.HandleEvent (the stack's core-level handler of DeviceChange/add) sends to the announcing peer: the handler has finished only when both connection writes have returned (sending is synchronous). 'before publication returns' is observed at the return of DeviceRemote.HandleSpineMesssage for the discovery reply, inside which the event is published. A parked write is released by the case at a logical point; the length of the hold never enters a verdict",
			"mutual-wait stage: 'application handlers run asynchronously' includes 'with respect to each other': the delivery of an event to one application handler does not wait for another application handler of the same event to return. A handler's wait for another handler's entry is bounded by 5 s with nothing else pending in the process (Publish has started the later handler's goroutine before it returned); the verdict needs the expiry AND the logged order 'the awaited handler entered only after the waiting one had left'",
		},
		Parts: []rig.Part{
			{Name: "bus", Run: c15Bus, Procs: 4, Quiet: 50 * time.Second, Cases: func(t rig.Tier) int { return map[rig.Tier]int{rig.Quick: 300, rig.Thorough: 5000}[t] }},
			{Name: "bus-race", Race: true, Run: c15Bus, Procs: 4, Quiet: 90 * time.Second, Cases: func(t rig.Tier) int { return map[rig.Tier]int{rig.Quick: 64, rig.Thorough: 800}[t] }},
			{Name: "integrated", Run: c15Integrated, Procs: 4, Quiet: 50 * time.Second, Cases: func(t rig.Tier) int { return map[rig.Tier]int{rig.Quick: 60, rig.Thorough: 600}[t] }},
			{Name: "integrated-race", Race: true, Run: c15Integrated, Procs: 4, Quiet: 90 * time.Second, Cases: func(t rig.Tier) int { return map[rig.Tier]int{rig.Quick: 16, rig.Thorough: 160}[t] }},
		},
	})
}

// ---------------------------------------------------------------------------
// log records

type c15Token struct {
	cs       *c15Case
	id       int
	depth    int
	returned chan struct{} // closed when Publish returned (or panicked)
}

type c15Pub struct {
	id        int
	by        string
	goid      int64
	call, ret int64
	returned  bool
}

type c15BusOp struct {
	kind      string // sub | unsub
	level, h  int
	call, ret int64
	by        string
}

type c15Del struct {
	h, tok      int
	entry, exit int64
	goid        int64
	act         string
}

type c15Act struct {
	kind   string // "" slow sub unsub dsub resub publish stack conn block
	level  int
	target int
}

func (a c15Act) String() string {
	switch a.kind {
	case "":
		return "-"
	case "sub", "unsub", "dsub", "resub":
		return fmt.Sprintf("%s(%s,%d)", a.kind, c15LevelName(a.level), a.target)
	}
	return a.kind
}

func c15LevelName(l int) string {
	if l == c15Core {
		return "core"
	}
	return "app"
}

type c15Handler struct {
	cs  *c15Case
	idx int
}

type c15Case struct {
	c     *rig.Ctx
	w     *rig.World
	ent   *spine.EntityLocal
	feat  api.FeatureLocalInterface
	peer  *rig.Peer
	names []string
	hs    []*c15Handler
	acts  [][]c15Act

	mu        sync.Mutex
	pubs      map[int]*c15Pub
	ops       []c15BusOp
	dels      []c15Del
	nextTok   int
	reentrant map[string]int
	connSeq   int64

	// mutual-wait stage: the next top-level publication gets nextAwait; awaits is keyed by token id
	nextAwait *c15Await
	awaits    map[int]*c15Await
	stage     []string
}

// c15Await: while handling ONE event, an application handler stays inside HandleEvent until other application
// handlers have entered HandleEvent for the SAME event. Every application handler runs asynchronously, so the
// delivery to one of them cannot depend on another one returning: every such wait succeeds at once. It is bounded
// (c15AwaitBound) so that a bus that delivers to the application handlers one after the other shows up in the log
// as "expired, and the awaited handler entered only after the waiting one had left". Modes: an EARLIER subscribed
// handler waits for a LATER subscribed one; a later one for an earlier one (a bus may walk its list backwards);
// mutual (every subscribed application handler announces its entry and waits for all the others).
type c15Await struct {
	mode    string
	order   []int         // subscription order of the application handlers in this stage
	waitFor map[int][]int // handler -> handlers whose entry it awaits inside HandleEvent
	entered map[int]chan struct{}
	once    map[int]*sync.Once
	gaveUp  atomic.Bool // one wait expired: nobody waits any longer
}

func newC15Await(mode string, order []int) *c15Await {
	aw := &c15Await{mode: mode, order: order, waitFor: map[int][]int{}, entered: map[int]chan struct{}{}, once: map[int]*sync.Once{}}
	for _, h := range order {
		aw.entered[h] = make(chan struct{})
		aw.once[h] = &sync.Once{}
	}
	return aw
}

// c15AwaitBound: nothing else is pending in the process when the awaited delivery is due (the stage is sequential
// and starts from the goroutine baseline), and Publish has started the awaited handler's goroutine before it
// returned; the bound only has to cover the scheduling of one runnable goroutine on a loaded machine.
const c15AwaitBound = 5 * time.Second

const (
	c15AwaitOK      = "await-other-handlers:entered-meanwhile"
	c15AwaitExpired = "await-other-handlers:EXPIRED"
	c15AwaitSkipped = "await-other-handlers:not-waited(another wait had expired)"
)

func (h *c15Handler) HandleEvent(p api.EventPayload) {
	tok, ok := p.Data.(*c15Token)
	if !ok || tok.cs != h.cs {
		return // an event of the stack or of another case
	}
	cs := h.cs
	g := eGoid()
	entry := rig.Seq()
	act := cs.acts[h.idx][tok.id%len(cs.acts[h.idx])]
	cs.mu.Lock()
	onPublisher := cs.pubs[tok.id] != nil && cs.pubs[tok.id].goid == g
	aw := cs.awaits[tok.id]
	cs.mu.Unlock()
	var done string
	if aw != nil {
		// an event of the mutual-wait stage: no other re-entrant action
		if ch := aw.entered[h.idx]; ch != nil {
			aw.once[h.idx].Do(func() { close(ch) })
		}
		if others := aw.waitFor[h.idx]; len(others) > 0 {
			done = c15AwaitOK
			deadline := time.After(c15AwaitBound)
		wait:
			for _, o := range others {
				if aw.gaveUp.Load() {
					done = c15AwaitSkipped
					break
				}
				select {
				case <-aw.entered[o]:
				case <-deadline:
					aw.gaveUp.Store(true)
					done = c15AwaitExpired
					break wait
				}
			}
		}
	} else {
		done = cs.perform(h, tok, act, onPublisher)
	}
	exit := rig.Seq()
	cs.mu.Lock()
	cs.dels = append(cs.dels, c15Del{h: h.idx, tok: tok.id, entry: entry, exit: exit, goid: g, act: done})
	cs.mu.Unlock()
}

// perform runs the re-entrant action of one delivery and returns what was actually done.
func (cs *c15Case) perform(h *c15Handler, tok *c15Token, a c15Act, onPublisher bool) string {
	by := fmt.Sprintf("%s@e%d", cs.names[h.idx], tok.id)
	switch a.kind {
	case "":
		return ""
	case "slow":
		runtime.Gosched()
		time.Sleep(time.Duration(100+tok.id%5*100) * time.Microsecond) // schedule widening only
		runtime.Gosched()
	case "sub":
		cs.busOp("sub", a.level, a.target, by)
	case "unsub":
		cs.busOp("unsub", a.level, a.target, by)
	case "dsub":
		cs.busOp("sub", a.level, a.target, by)
		cs.busOp("sub", a.level, a.target, by)
	case "resub":
		cs.busOp("unsub", a.level, a.target, by)
		cs.busOp("sub", a.level, a.target, by)
	case "stack":
		if p := eGuard(cs.c, "stack call from inside "+by, func() {
			_ = cs.feat.DataCopy(model.FunctionTypeMeasurementListData)
			_ = cs.w.Local.SubscriptionManager().Subscriptions(cs.peer.RD)
			_ = cs.w.Local.RemoteDevices()
			_ = cs.ent.HasUseCaseSupport(model.UseCaseActorTypeCEM, model.UseCaseNameTypeEVStateOfCharge)
			_ = spine.VerifHandlerCount()
		}); p != "" {
			cs.c.Violate("reentrant/stack-call-panics", "%s: %s", by, p)
		}
	case "publish", "conn", "block":
		// these would dead-lock by construction on the publishing goroutine (Publish holds its handling
		// mutex while core-level handlers run), and the stack never does them there
		if onPublisher || tok.depth >= 1 {
			return "skipped-" + a.kind
		}
		switch a.kind {
		case "publish":
			cs.publish(tok.depth+1, by)
		case "conn":
			// open and close a connection: DeviceLocal (un)subscribes itself at the core level and publishes
			ski := fmt.Sprintf("%s-x%d", cs.c.Tag(), atomic.AddInt64(&cs.connSeq, 1))
			if p := eGuard(cs.c, "connect/disconnect from inside "+by, func() {
				cs.w.Local.SetupRemoteDevice(ski, &rig.Tap{})
				cs.w.Local.RemoveRemoteDeviceConnection(ski)
			}); p != "" {
				cs.c.Violate("reentrant/connection-call-panics", "%s: %s", by, p)
			}
		case "block":
			// application handlers are asynchronous: Publish returns although this handler has not
			select {
			case <-tok.returned:
			case <-time.After(60 * time.Second):
				cs.c.Inconclusive("%s: Publish of e%d had not returned 60s after an application handler started", by, tok.id)
			}
		}
	}
	cs.mu.Lock()
	cs.reentrant[a.kind]++
	cs.mu.Unlock()
	return a.kind
}

func (cs *c15Case) busOp(kind string, level, h int, by string) {
	var call, ret int64
	p := eGuard(cs.c, kind+" "+cs.names[h], func() {
		call = rig.Seq()
		switch {
		case kind == "sub" && level == c15Core:
			_ = spine.VerifSubscribeCore(cs.hs[h])
		case kind == "sub":
			_ = spine.Events.Subscribe(cs.hs[h])
		case level == c15Core:
			_ = spine.VerifUnsubscribeCore(cs.hs[h])
		default:
			_ = spine.Events.Unsubscribe(cs.hs[h])
		}
		ret = rig.Seq()
	})
	if p != "" {
		cs.c.Violate("bus/"+kind+"-panics", "%s by %s: %s", kind, by, p)
		return
	}
	cs.mu.Lock()
	cs.ops = append(cs.ops, c15BusOp{kind: kind, level: level, h: h, call: call, ret: ret, by: by})
	cs.mu.Unlock()
}

func (cs *c15Case) publish(depth int, by string) {
	cs.mu.Lock()
	id := cs.nextTok
	cs.nextTok++
	pub := &c15Pub{id: id, by: by}
	cs.pubs[id] = pub
	if depth == 0 && cs.nextAwait != nil {
		cs.awaits[id], cs.nextAwait = cs.nextAwait, nil
	}
	cs.mu.Unlock()
	tok := &c15Token{cs: cs, id: id, depth: depth, returned: make(chan struct{})}
	payload := api.EventPayload{Ski: c15SkiPrefix + cs.c.Tag(), EventType: api.EventTypeDataChange, ChangeType: api.ElementChangeUpdate, Data: tok}
	p := eGuard(cs.c, fmt.Sprintf("Publish(e%d) by %s", id, by), func() {
		defer close(tok.returned)
		g := eGoid()
		cs.mu.Lock()
		pub.goid = g
		pub.call = rig.Seq()
		cs.mu.Unlock()
		spine.Events.Publish(payload)
		r := rig.Seq()
		cs.mu.Lock()
		pub.ret, pub.returned = r, true
		cs.mu.Unlock()
	})
	if p != "" {
		cs.c.Violate("bus/publish-panics", "Publish(e%d) by %s: %s", id, by, p)
	}
}

// ---------------------------------------------------------------------------
// plan

type c15PlanOp struct {
	kind     string // pub sub unsub dsub
	level, h int
}

func (o c15PlanOp) String() string {
	if o.kind == "pub" {
		return "pub"
	}
	return fmt.Sprintf("%s(%s,%d)", o.kind, c15LevelName(o.level), o.h)
}

func c15Bus(c *rig.Ctx) {
	r := c.Rand
	w := rig.NewWorld(c.Tag())
	defer w.Close()
	ent := w.AddEntity(model.EntityTypeTypeCEM, []uint{1}, 4*time.Second)
	feat := ent.GetOrAddFeature(model.FeatureTypeTypeMeasurement, model.RoleTypeServer)
	feat.AddFunctionType(model.FunctionTypeMeasurementListData, true, false)
	feat.SetData(model.FunctionTypeMeasurementListData, &model.MeasurementListDataType{MeasurementData: []model.MeasurementDataType{{MeasurementId: util.Ptr(model.MeasurementIdType(1))}}})
	ent.AddUseCaseSupport(model.UseCaseActorTypeCEM, model.UseCaseNameTypeEVStateOfCharge, "1.0.0", "", true, nil)
	peer := w.AddPeer(0)
	peer.Announce([]rig.FS{rig.NMFS, {Ent: []uint{1}, Id: 1, Typ: model.FeatureTypeTypeMeasurement, Role: model.RoleTypeClient}})
	peer.Subscribe(rig.FA(peer.Addr, []uint{1}, 1), feat.Address(), model.FeatureTypeTypeMeasurement)
	peer.Tap.Take()
	baseline := eStableGoroutines()
	c.Count("foreign_handlers_subscribed_at_start", int64(spine.VerifHandlerCount()))

	cs := &c15Case{c: c, w: w, ent: ent, feat: feat, peer: peer, names: []string{"K1", "K2", "A1", "A2", "A3"},
		pubs: map[int]*c15Pub{}, reentrant: map[string]int{}, awaits: map[int]*c15Await{}}
	for i := range cs.names {
		cs.hs = append(cs.hs, &c15Handler{cs: cs, idx: i})
	}
	defer func() {
		for _, h := range cs.hs {
			_ = spine.VerifUnsubscribeCore(h)
			_ = spine.Events.Unsubscribe(h)
		}
	}()
	dual := r.Intn(3) == 0 // A3 is also used at the core level
	levelsOf := func(h int) []int {
		switch {
		case h < 2:
			return []int{c15Core}
		case h == 4 && dual:
			return []int{c15Core, c15App}
		}
		return []int{c15App}
	}
	// stable handlers are never (un)subscribed after the prologue: they give exactly-once pairs under concurrency
	stable := map[int]bool{}
	if r.Intn(3) > 0 {
		stable[r.Intn(2)] = true
		stable[2+r.Intn(2)] = true
	}
	var movable []int
	for h := range cs.hs {
		if !stable[h] {
			movable = append(movable, h)
		}
	}
	pickTarget := func(rr *rand.Rand, self int) (level, h int) {
		h = movable[rr.Intn(len(movable))]
		if self >= 0 && rr.Intn(3) == 0 && !stable[self] {
			h = self
		}
		ls := levelsOf(h)
		return ls[rr.Intn(len(ls))], h
	}

	// action slots
	const slots = 32
	var shape []string
	for h := range cs.hs {
		var as []c15Act
		for s := 0; s < slots; s++ {
			var a c15Act
			if r.Intn(100) < 45 {
				kinds := []string{"slow", "slow", "sub", "unsub", "dsub", "resub", "stack"}
				if h >= 2 {
					kinds = append(kinds, "publish", "publish", "conn", "block", "stack")
				}
				a.kind = kinds[r.Intn(len(kinds))]
				if a.kind == "sub" || a.kind == "unsub" || a.kind == "dsub" || a.kind == "resub" {
					a.level, a.target = pickTarget(r, h)
				}
			}
			as = append(as, a)
			shape = append(shape, a.String())
		}
		cs.acts = append(cs.acts, as)
	}

	// prologue
	var prologue, epilogue []c15PlanOp
	for h := range cs.hs {
		for _, l := range levelsOf(h) {
			if stable[h] || r.Intn(10) < 8 {
				prologue = append(prologue, c15PlanOp{"sub", l, h})
				if r.Intn(10) < 3 {
					prologue = append(prologue, c15PlanOp{"sub", l, h})
				}
			}
		}
	}
	// the order of the handler list must not matter: application handlers may precede core handlers in it
	r.Shuffle(len(prologue), func(i, j int) { prologue[i], prologue[j] = prologue[j], prologue[i] })
	prologue = append(prologue, c15PlanOp{kind: "pub"})
	// concurrent phase
	nPub := 1 + r.Intn(4)
	total := 20 + r.Intn(41)
	lists := make([][]c15PlanOp, nPub)
	for i := 0; i < total; i++ {
		g := r.Intn(nPub)
		var o c15PlanOp
		switch x := r.Intn(100); {
		case x < 50:
			o = c15PlanOp{kind: "pub"}
		case x < 68:
			o.kind = "sub"
			o.level, o.h = pickTarget(r, -1)
		case x < 88:
			o.kind = "unsub"
			o.level, o.h = pickTarget(r, -1)
		default:
			o.kind = "dsub"
			o.level, o.h = pickTarget(r, -1)
		}
		lists[g] = append(lists[g], o)
	}
	// epilogue: unsubscribe, publish (zero pairs), subscribe again twice, publish (exactly-once pairs)
	for n := 1 + r.Intn(2); n > 0; n-- {
		h := r.Intn(len(cs.hs))
		ls := levelsOf(h)
		epilogue = append(epilogue, c15PlanOp{"unsub", ls[r.Intn(len(ls))], h})
	}
	epilogue = append(epilogue, c15PlanOp{kind: "pub"}, c15PlanOp{kind: "pub"})
	{
		h := r.Intn(len(cs.hs))
		ls := levelsOf(h)
		l := ls[r.Intn(len(ls))]
		epilogue = append(epilogue, c15PlanOp{"dsub", l, h}, c15PlanOp{kind: "pub"})
	}
	for _, l := range append(append([][]c15PlanOp{prologue}, lists...), epilogue) {
		for _, o := range l {
			shape = append(shape, o.String())
		}
		shape = append(shape, "|")
	}

	exec := func(o c15PlanOp, by string) {
		switch o.kind {
		case "pub":
			cs.publish(0, by)
		case "dsub":
			cs.busOp("sub", o.level, o.h, by)
			cs.busOp("sub", o.level, o.h, by)
		default:
			cs.busOp(o.kind, o.level, o.h, by)
		}
	}
	for _, o := range prologue {
		exec(o, "main")
	}
	var wg sync.WaitGroup
	for g := range lists {
		wg.Add(1)
		go func(g int) {
			defer wg.Done()
			for _, o := range lists[g] {
				exec(o, fmt.Sprint("pub", g))
				if g%2 == 1 {
					runtime.Gosched()
				}
			}
		}(g)
	}
	wg.Wait()
	// let the asynchronous deliveries of the concurrent phase finish, so the epilogue is sequential
	if !rig.WaitQuiet(baseline, 30*time.Second) {
		c.Inconclusive("goroutine count did not return to its baseline (%d, now %d) after the concurrent phase", baseline, runtime.NumGoroutine())
		return
	}
	for _, o := range epilogue {
		exec(o, "main")
		// follow-up publications and (un)subscriptions made by handlers must not overlap the next step
		if !rig.WaitQuiet(baseline, 30*time.Second) {
			c.Inconclusive("goroutine count did not return to its baseline (%d, now %d) in the epilogue", baseline, runtime.NumGoroutine())
			return
		}
	}
	// mutual-wait stage (every second case): the application handlers are subscribed anew in a drawn order, then
	// one event is published during which an earlier subscribed one waits, inside HandleEvent, for a later one
	var stage []string
	if c.Index%2 == 0 {
		for round, n := 0, 1+r.Intn(2); round < n; round++ {
			var plan []c15PlanOp
			for h := 2; h < len(cs.hs); h++ {
				for _, l := range levelsOf(h) {
					plan = append(plan, c15PlanOp{"unsub", l, h})
				}
			}
			order := r.Perm(3)
			for i := range order {
				order[i] += 2
			}
			if r.Intn(3) == 0 {
				order = order[:2] // the third application handler stays unsubscribed
			}
			for _, h := range order {
				plan = append(plan, c15PlanOp{"sub", c15App, h})
			}
			modes := []string{"earlier-awaits-later", "mutual"}
			if round > 0 {
				modes = []string{"later-awaits-earlier", "later-awaits-earlier", "mutual", "earlier-awaits-later"}
			}
			aw := newC15Await(modes[r.Intn(len(modes))], order)
			a, b := 0, 1 // positions in the subscription order, a < b
			if len(order) == 3 {
				switch r.Intn(3) {
				case 1:
					b = 2
				case 2:
					a, b = 1, 2
				}
			}
			switch aw.mode {
			case "earlier-awaits-later":
				aw.waitFor[order[a]] = []int{order[b]}
			case "later-awaits-earlier":
				aw.waitFor[order[b]] = []int{order[a]}
			default:
				for _, h := range order {
					for _, o := range order {
						if o != h {
							aw.waitFor[h] = append(aw.waitFor[h], o)
						}
					}
				}
			}
			for _, o := range plan {
				exec(o, "main")
				stage = append(stage, o.String())
			}
			stage = append(stage, fmt.Sprintf("pub[%s %s]", aw.mode, aw.describe(cs.names)))
			cs.mu.Lock()
			cs.nextAwait = aw
			cs.mu.Unlock()
			exec(c15PlanOp{kind: "pub"}, "main")
			if !rig.WaitQuiet(baseline, 30*time.Second) {
				c.Inconclusive("goroutine count did not return to its baseline (%d, now %d) in the mutual-wait stage", baseline, runtime.NumGoroutine())
				return
			}
			expired := false
			cs.mu.Lock()
			for _, d := range cs.dels {
				if d.act == c15AwaitExpired {
					expired = true
				}
			}
			cs.mu.Unlock()
			if expired {
				break
			}
		}
		shape = append(shape, stage...)
	}
	cs.stage = stage
	cs.judge(dual, levelsOf, nPub, strings.Join(shape, ","), prologue, lists, epilogue)
}

// ---------------------------------------------------------------------------
// oracle

type c15Interval struct{ call, ret int64 }

func (cs *c15Case) judge(dual bool, levelsOf func(int) []int, nPub int, shape string, prologue []c15PlanOp, lists [][]c15PlanOp, epilogue []c15PlanOp) {
	c := cs.c
	cs.mu.Lock()
	defer cs.mu.Unlock()
	type lh struct{ level, h int }
	subs, unsubs := map[lh][]c15Interval{}, map[lh][]c15Interval{}
	for _, o := range cs.ops {
		k := lh{o.level, o.h}
		if o.kind == "sub" {
			subs[k] = append(subs[k], c15Interval{o.call, o.ret})
		} else {
			unsubs[k] = append(unsubs[k], c15Interval{o.call, o.ret})
		}
	}
	delsByTok := map[int][]c15Del{}
	for _, d := range cs.dels {
		delsByTok[d.tok] = append(delsByTok[d.tok], d)
	}
	classify := func(k lh, t0, t1 int64) string {
		must := false
		for _, s := range subs[k] {
			if s.ret >= t0 {
				continue
			}
			ok := true
			for _, u := range unsubs[k] {
				if !(u.ret < s.call || u.call > t1) {
					ok = false
					break
				}
			}
			if ok {
				must = true
				break
			}
		}
		if must {
			return "must"
		}
		zero := true
		for _, s := range subs[k] {
			if s.call > t1 {
				continue
			}
			covered := false
			for _, u := range unsubs[k] {
				if u.call > s.ret && u.ret < t0 {
					covered = true
					break
				}
			}
			if !covered {
				zero = false
				break
			}
		}
		if zero {
			return "zero"
		}
		return "may"
	}
	var ids []int
	for id := range cs.pubs {
		ids = append(ids, id)
	}
	sort.Ints(ids)
	var nMust, nZero, nMay, nOrder int
	witness := func() string { return cs.renderLocked(400) }
	for _, id := range ids {
		p := cs.pubs[id]
		if !p.returned {
			continue
		}
		t0, t1 := p.call, p.ret
		// attribute deliveries to levels
		got := map[lh][]c15Del{}
		for _, d := range delsByTok[id] {
			ls := levelsOf(d.h)
			l := ls[0]
			if len(ls) == 2 {
				l = c15App
				if d.goid == p.goid {
					l = c15Core
				}
			}
			got[lh{l, d.h}] = append(got[lh{l, d.h}], d)
		}
		var lastCoreExit int64
		for h := range cs.hs {
			for _, l := range levelsOf(h) {
				k := lh{l, h}
				cl := classify(k, t0, t1)
				n := len(got[k])
				c.Events(1)
				lv := c15LevelName(l)
				switch cl {
				case "must":
					nMust++
				case "zero":
					nZero++
				default:
					nMay++
				}
				switch {
				case n > 1:
					c.Violate(lv+"/delivered-more-than-once", "event e%d (published by %s in [%d,%d]) reached %s at the %s level %d times (%s)\n%s", id, p.by, t0, t1, cs.names[h], lv, n, cl, witness())
				case cl == "must" && n == 0:
					c.Violate(lv+"/missing-delivery", "event e%d (published by %s in [%d,%d]) never reached %s although its %s-level subscription was complete before the publication and no unsubscription had started before it returned\n%s", id, p.by, t0, t1, cs.names[h], lv, witness())
				case cl == "zero" && n > 0:
					dev := "/delivery-after-unsubscribe-returned"
					if len(subs[k]) == 0 {
						dev = "/delivery-to-never-subscribed-handler"
					}
					c.Violate(lv+dev, "event e%d (published by %s in [%d,%d]) reached %s at the %s level (entry %d) although it was not subscribed when Publish was called\n%s", id, p.by, t0, t1, cs.names[h], lv, got[k][0].entry, witness())
				}
				if l == c15Core {
					for _, d := range got[k] {
						nOrder++
						c.Events(1)
						if d.exit > t1 {
							c.Violate("core/exit-after-publish-returned", "core handler %s left e%d at %d, Publish had returned at %d\n%s", cs.names[h], id, d.exit, t1, witness())
						}
						if d.entry < t0 {
							c.Violate("core/entry-before-publish", "core handler %s entered e%d at %d, Publish was called at %d", cs.names[h], id, d.entry, t0)
						}
						if d.exit > lastCoreExit {
							lastCoreExit = d.exit
						}
					}
				}
			}
		}
		for k, ds := range got {
			if k.level != c15App {
				continue
			}
			for _, d := range ds {
				nOrder++
				c.Events(1)
				if d.goid == p.goid {
					c.Violate("app/ran-on-publisher-goroutine", "application handler %s handled e%d on goroutine %d, the one that called Publish: not asynchronous\n%s", cs.names[k.h], id, d.goid, witness())
				}
				if d.entry < lastCoreExit {
					c.Violate("app/entered-before-core-handlers-finished", "application handler %s entered e%d at %d, the last core handler left at %d\n%s", cs.names[k.h], id, d.entry, lastCoreExit, witness())
				}
				if d.entry < t0 {
					c.Violate("app/entry-before-publish", "application handler %s entered e%d at %d, Publish was called at %d", cs.names[k.h], id, d.entry, t0)
				}
			}
		}
	}
	// mutual-wait stage: every wait of an application handler for the entry of other application handlers of the
	// same event must succeed
	for _, id := range ids {
		aw := cs.awaits[id]
		if aw == nil || !cs.pubs[id].returned {
			continue
		}
		del := map[int]*c15Del{}
		for i, d := range delsByTok[id] {
			if del[d.h] == nil {
				del[d.h] = &delsByTok[id][i]
			}
		}
		var ord []string
		for _, h := range aw.order {
			ord = append(ord, cs.names[h])
		}
		for _, x := range aw.order {
			others := aw.waitFor[x]
			dx := del[x]
			if len(others) == 0 || dx == nil {
				continue // dx == nil: the exactly-once pair above reports the missing delivery
			}
			c.Events(1)
			switch dx.act {
			case c15AwaitOK:
				c.Count("app_handler_inside_HandleEvent_saw_other_application_handlers_receive_the_same_event", 1)
				c.Count("mutual_wait:"+aw.mode, 1)
				c.Seen("mutual_wait_shapes", fmt.Sprintf("%s, %d subscribed, position %d awaits %d other(s)", aw.mode, len(aw.order), c15Pos(aw.order, x), len(others)))
			case c15AwaitExpired:
				var after, meanwhile []string
				for _, o := range others {
					switch do := del[o]; {
					case do == nil:
						// never delivered: the exactly-once pair above reports the missing delivery
					case do.entry > dx.exit:
						after = append(after, fmt.Sprintf("%s entered at %d", cs.names[o], do.entry))
					default:
						meanwhile = append(meanwhile, cs.names[o])
					}
				}
				if len(after) > 0 {
					c.Violate("app/delivery-waits-for-other-application-handler", "application handlers subscribed in the order %v (%s); while handling e%d %s stayed inside HandleEvent [%d,%d] until %s would have entered HandleEvent for the same event, nothing else was pending in the process: "+
						"that did not happen within %s; %v, after %s had returned. The delivery to an application handler waits for another application handler to return: they do not run asynchronously\n%s",
						ord, aw.mode, id, cs.names[x], dx.entry, dx.exit, aw.names(cs.names, others), c15AwaitBound, after, cs.names[x], witness())
				} else if len(meanwhile) == len(others) {
					c.Inconclusive("e%d: the %s wait of %s [%d,%d] for the entry of %v expired although they entered before it left", id, c15AwaitBound, cs.names[x], dx.entry, dx.exit, meanwhile)
				}
			}
		}
	}
	re := 0
	for k, n := range cs.reentrant {
		if k != "slow" {
			re += n
		}
		c.Count("reentrant_"+k, int64(n))
	}
	c.Count("pairs_exactly_once", int64(nMust))
	c.Count("pairs_zero", int64(nZero))
	c.Count("pairs_at_most_once(overlap)", int64(nMay))
	c.Count("ordering_checks", int64(nOrder))
	c.Count("publications", int64(len(ids)))
	c.Count("deliveries", int64(len(cs.dels)))
	c.Shape(eHash(shape))
	c.NonTrivial(nMust > 0 && nZero > 0 && re > 0)
	c.Seen("publisher_goroutines", fmt.Sprint(nPub))
	if c.Failed() {
		c.Witness(map[string]any{"dual_level_handler_A3": dual, "log": strings.Split(cs.renderLocked(2000), "\n")})
	}
	plan := func(l []c15PlanOp) string {
		var s []string
		for _, o := range l {
			s = append(s, o.String())
		}
		return strings.Join(s, " ")
	}
	var pl []string
	for _, l := range lists {
		pl = append(pl, plan(l))
	}
	c.Sample(map[string]any{"handlers": cs.names, "A3_also_core": dual, "prologue": plan(prologue), "publishers": pl, "epilogue": plan(epilogue), "mutual_wait_stage": strings.Join(cs.stage, " "),
		"log_head": strings.Split(cs.renderLocked(60), "\n")})
}

func (aw *c15Await) names(names []string, hs []int) string {
	var l []string
	for _, h := range hs {
		l = append(l, names[h])
	}
	return strings.Join(l, "+")
}

// describe renders who waits for whom, in subscription order.
func (aw *c15Await) describe(names []string) string {
	var l []string
	for _, h := range aw.order {
		if o := aw.waitFor[h]; len(o) > 0 {
			l = append(l, names[h]+" awaits "+aw.names(names, o))
		}
	}
	return strings.Join(l, "; ")
}

func c15Pos(order []int, h int) int {
	for i, x := range order {
		if x == h {
			return i + 1
		}
	}
	return 0
}

// renderLocked renders the log in Seq order (cs.mu held).
func (cs *c15Case) renderLocked(max int) string {
	type line struct {
		seq int64
		s   string
	}
	var ls []line
	for _, o := range cs.ops {
		ls = append(ls, line{o.call, fmt.Sprintf("[%d,%d] %s(%s,%s) by %s", o.call, o.ret, o.kind, c15LevelName(o.level), cs.names[o.h], o.by)})
	}
	for _, p := range cs.pubs {
		ls = append(ls, line{p.call, fmt.Sprintf("[%d,%d] Publish(e%d) by %s on g%d", p.call, p.ret, p.id, p.by, p.goid)})
	}
	for _, d := range cs.dels {
		ls = append(ls, line{d.entry, fmt.Sprintf("[%d,%d]   %s handles e%d on g%d %s", d.entry, d.exit, cs.names[d.h], d.tok, d.goid, d.act)})
	}
	sort.Slice(ls, func(i, j int) bool { return ls[i].seq < ls[j].seq })
	var out []string
	for i, l := range ls {
		if i >= max {
			out = append(out, fmt.Sprintf("… %d more", len(ls)-max))
			break
		}
		out = append(out, l.s)
	}
	return strings.Join(out, "\n")
}

// ---------------------------------------------------------------------------
// integrated path

type c15IntEv struct {
	ski   string
	entry int64
	goid  int64
}

type c15IntHandler struct {
	tag  string
	w    *rig.World
	mu   sync.Mutex
	adds []c15IntEv // DeviceChange/add deliveries
	all  int
}

func (h *c15IntHandler) HandleEvent(p api.EventPayload) {
	if !strings.HasPrefix(p.Ski, h.tag) {
		return
	}
	entry := rig.Seq()
	g := eGoid()
	isAdd := p.EventType == api.EventTypeDeviceChange && p.ChangeType == api.ElementChangeAdd
	if isAdd {
		// call back into the stack, as an application would
		if rd := h.w.Local.RemoteDeviceForSki(p.Ski); rd != nil {
			_ = rd.UseCases()
			_ = rd.Entities()
		}
		_ = h.w.Local.RemoteDevices()
	}
	h.mu.Lock()
	h.all++
	if isAdd {
		h.adds = append(h.adds, c15IntEv{p.Ski, entry, g})
	}
	h.mu.Unlock()
}

func (h *c15IntHandler) addsFor(ski string) []c15IntEv {
	h.mu.Lock()
	defer h.mu.Unlock()
	var r []c15IntEv
	for _, e := range h.adds {
		if e.ski == ski {
			r = append(r, e)
		}
	}
	return r
}

// c15Writer is the connection writer of the integrated part: it records like rig.Tap (Seq taken when the
// write is complete) and can be slow, like a congested connection, which widens the window between the
// publication of DeviceChange/add and the end of the stack's own reaction - or it does not return at all until the
// case lets it: the write of the NodeManagement subscription call and/or of the use-case read (the two messages the
// stack's own core-level handler of DeviceChange/add sends to the announcing peer) parks on a gate that the case
// opens at a logical point of its script. While such a write is parked the core-level handler that issued it has
// not returned, so the publication has not returned and no application-level handler of that event has started.
type c15Writer struct {
	mu     sync.Mutex
	outs   []rig.Out
	starts []c15WriteStart
	delay  time.Duration
	gates  map[string]*c15WriteGate // "subscription-call" / "use-case-read" -> gate of the first such write
}

type c15WriteStart struct {
	seq  int64
	what string
}

type c15WriteGate struct {
	g       *eGate
	entered chan struct{} // closed when the write has been handed to the writer (and parks)
	once    sync.Once
}

func c15WriteKind(d model.DatagramType) string {
	if len(d.Payload.Cmd) != 1 || d.Header.CmdClassifier == nil {
		return ""
	}
	switch cmd, cl := d.Payload.Cmd[0], *d.Header.CmdClassifier; {
	case cl == model.CmdClassifierTypeCall && cmd.NodeManagementSubscriptionRequestCall != nil:
		return "subscription-call"
	case cl == model.CmdClassifierTypeRead && cmd.NodeManagementUseCaseData != nil:
		return "use-case-read"
	}
	return ""
}

func (t *c15Writer) WriteShipMessageWithPayload(m []byte) {
	var d model.Datagram
	if err := json.Unmarshal(m, &d); err != nil {
		return
	}
	kind := c15WriteKind(d.Datagram)
	t.mu.Lock()
	t.starts = append(t.starts, c15WriteStart{rig.Seq(), kind})
	gate := t.gates[kind]
	t.mu.Unlock()
	if gate != nil {
		first := false
		gate.once.Do(func() { first = true })
		if first {
			close(gate.entered)
			gate.g.wait()
		}
	}
	if t.delay > 0 {
		time.Sleep(t.delay)
	}
	t.mu.Lock()
	t.outs = append(t.outs, rig.Out{Seq: rig.Seq(), D: d.Datagram})
	t.mu.Unlock()
}

func (t *c15Writer) startOf(kind string) int64 {
	t.mu.Lock()
	defer t.mu.Unlock()
	for _, s := range t.starts {
		if s.what == kind {
			return s.seq
		}
	}
	return 0
}

func (t *c15Writer) take() []rig.Out {
	t.mu.Lock()
	defer t.mu.Unlock()
	r := t.outs
	t.outs = nil
	return r
}

func c15Integrated(c *rig.Ctx) {
	r := c.Rand
	w := rig.NewWorld(c.Tag())
	defer w.Close()
	ent := w.AddEntity(model.EntityTypeTypeCEM, []uint{1}, 4*time.Second)
	ent.GetOrAddFeature(model.FeatureTypeTypeMeasurement, model.RoleTypeClient)
	h1 := &c15IntHandler{tag: c.Tag(), w: w}
	h2 := &c15IntHandler{tag: c.Tag(), w: w}
	_ = spine.Events.Subscribe(h1)
	_ = spine.Events.Subscribe(h2)
	_ = spine.Events.Subscribe(h2) // subscribed twice: no second delivery
	defer func() { _ = spine.Events.Unsubscribe(h1); _ = spine.Events.Unsubscribe(h2) }()
	baseline := eStableGoroutines()

	nPeers := 1 + r.Intn(3)
	concurrent := r.Intn(2) == 0
	rounds := make([]int, nPeers)
	feats := []rig.FS{rig.NMFS, {Ent: []uint{1}, Id: 1, Typ: model.FeatureTypeTypeMeasurement, Role: model.RoleTypeServer}}
	delay := []time.Duration{0, 100 * time.Microsecond, 300 * time.Microsecond, 2 * time.Millisecond}[r.Intn(4)]
	// per round: which writes of the stack's own reaction do not return until the case lets them
	park := make([][]string, nPeers)
	var gatesMu sync.Mutex
	var allGates []*eGate
	defer func() {
		gatesMu.Lock()
		defer gatesMu.Unlock()
		for _, g := range allGates {
			g.open()
			if g.expiries() > 0 {
				c.Inconclusive("a parked connection write was not released within 90s")
			}
		}
	}()
	newWriter := func(mode string) *c15Writer {
		wr := &c15Writer{delay: delay, gates: map[string]*c15WriteGate{}}
		for _, k := range []string{"subscription-call", "use-case-read"} {
			if mode == k || mode == "both" {
				g := &c15WriteGate{g: newEGate(90 * time.Second), entered: make(chan struct{})}
				wr.gates[k] = g
				gatesMu.Lock()
				allGates = append(allGates, g.g)
				gatesMu.Unlock()
			}
		}
		return wr
	}
	writers := make([]*c15Writer, nPeers)
	for i := 0; i < nPeers; i++ {
		rounds[i] = 1 + r.Intn(2)
		for rd := 0; rd < rounds[i]; rd++ {
			park[i] = append(park[i], []string{"", "", "subscription-call", "use-case-read", "both"}[r.Intn(5)])
		}
		p := &rig.Peer{Ski: fmt.Sprintf("%s-ski%d", c.Tag(), i), Addr: fmt.Sprintf("dev%d", i), Tap: &rig.Tap{}, W: w, Ctr: uint64(i+1) * 100000}
		writers[i] = newWriter(park[i][0])
		w.Local.SetupRemoteDevice(p.Ski, writers[i])
		p.RD = w.Local.RemoteDeviceForSki(p.Ski)
		w.Peers = append(w.Peers, p)
	}
	type parkObs struct {
		what                 string
		entered              bool
		opened               int64 // Seq when the gate was opened
		appEntered, returned bool  // observed at the end of the hold, before the gate was opened
	}
	type roundObs struct {
		peer, round int
		wr          *c15Writer
		announced   int64 // Seq before the announcement
		returned    int64 // Seq right after HandleSpineMesssage returned for the discovery reply
		parks       []parkObs
	}
	var mu sync.Mutex
	var obs []roundObs
	var trace []string
	var aborted atomic.Bool
	closed := func(ch <-chan struct{}) bool {
		select {
		case <-ch:
			return true
		default:
			return false
		}
	}
	run := func(i int) {
		p := w.Peers[i]
		for rd := 0; rd < rounds[i] && !aborted.Load(); rd++ {
			if rd > 0 {
				if pan := eGuard(c, "reconnect", func() {
					w.Local.RemoveRemoteDeviceConnection(p.Ski)
					writers[i] = newWriter(park[i][rd])
					w.Local.SetupRemoteDevice(p.Ski, writers[i])
					p.RD = w.Local.RemoteDeviceForSki(p.Ski)
				}); pan != "" {
					c.Violate("integrated/reconnect-panics", "%s", pan)
					return
				}
			}
			wr := writers[i]
			want := rd + 1
			before := rig.Seq()
			// the discovery reply is delivered on a goroutine of its own (exactly one: the holds below compare the
			// goroutine count with the baseline); HandleSpineMesssage does not return while a write is parked
			returned := make(chan struct{})
			var retSeq int64
			var panicked string
			go func() {
				defer close(returned)
				defer func() {
					if x := recover(); x != nil {
						panicked = fmt.Sprint(x)
					}
				}()
				p.Announce(feats)
				retSeq = rig.Seq()
			}()
			var parks []parkObs
			var pending []string
			for _, k := range []string{"subscription-call", "use-case-read"} {
				if wr.gates[k] != nil {
					pending = append(pending, k)
				}
			}
			openAll := func() {
				gatesMu.Lock()
				defer gatesMu.Unlock()
				for _, g := range allGates {
					g.open()
				}
			}
			enteredOne := func() int { // whichever of the round's parking writes has been handed to the writer
				for j, k := range pending {
					if closed(wr.gates[k].entered) {
						return j
					}
				}
				return -1
			}
			for len(pending) > 0 {
				// wait until one of them has been handed to the writer. If the processing of the reply has returned
				// without that, give the stack until the process is quiet (sequential cases) or a moment (concurrent ones)
				deadline := time.Now().Add(30 * time.Second)
				idx := enteredOne()
				for idx < 0 {
					if closed(returned) {
						stable := 0
						for t0 := time.Now(); enteredOne() < 0 && time.Since(t0) < 5*time.Second; time.Sleep(200 * time.Microsecond) {
							if concurrent {
								if time.Since(t0) > 20*time.Millisecond { // pacing only
									break
								}
								continue
							}
							if runtime.NumGoroutine() > baseline {
								stable = 0
							} else if stable++; stable >= 5 {
								break // the process is quiet: nobody is left who could still write it
							}
						}
						idx = enteredOne()
						break
					}
					if time.Now().After(deadline) {
						c.Inconclusive("peer %d round %d: neither was any of %v handed to the connection writer nor did the processing of the discovery reply return within 30s", i, rd, pending)
						aborted.Store(true)
						openAll()
						return
					}
					time.Sleep(100 * time.Microsecond)
					idx = enteredOne()
				}
				if idx < 0 {
					for _, k := range pending {
						parks = append(parks, parkObs{what: k, opened: rig.Seq()})
					}
					break
				}
				k := pending[idx]
				pending = append(pending[:idx], pending[idx+1:]...)
				g := wr.gates[k]
				po := parkObs{what: k, entered: true}
				// HOLD: the write is parked inside the writer. Nothing the statement allows can happen now: the core-level
				// handler has not returned. The hold only gives a deviating stack the opportunity to show itself (the
				// verdicts below are on logged order, not on this wait): it ends when an application handler of the event
				// has been entered or the processing has returned (the deviation is on the log), when the process is quiet
				// except for the one goroutine parked in the write (sequential cases: nothing more can happen), or after a
				// moment (concurrent cases).
				stable, how := 0, "pacing-limit-of-2s"
				for t0 := time.Now(); time.Since(t0) < 2*time.Second; time.Sleep(100 * time.Microsecond) {
					if len(h1.addsFor(p.Ski)) >= want || len(h2.addsFor(p.Ski)) >= want || closed(returned) {
						how = "deviation-on-the-log"
						break
					}
					if concurrent {
						if time.Since(t0) > 3*time.Millisecond {
							how = "a-moment(concurrent-case)"
							break
						}
						continue
					}
					if runtime.NumGoroutine() > baseline+1 {
						stable = 0
					} else if stable++; stable >= 5 {
						how = "process-quiet-except-for-the-parked-write"
						break
					}
				}
				c.Count("integrated_hold_ended_by:"+how, 1)
				po.appEntered = len(h1.addsFor(p.Ski)) >= want || len(h2.addsFor(p.Ski)) >= want
				po.returned = closed(returned)
				c.Count("integrated_writes_parked:"+k, 1)
				po.opened = rig.Seq()
				g.g.open()
				parks = append(parks, po)
			}
			select {
			case <-returned:
			case <-time.After(30 * time.Second):
				c.Inconclusive("peer %d round %d: the processing of the discovery reply did not return within 30s; parking for the hang monitor", i, rd)
				openAll()
				for {
					time.Sleep(time.Hour)
				}
			}
			if panicked != "" {
				c.Violate("integrated/announce-panics", "%s", panicked)
				return
			}
			if n := p.PanicCount(); n > 0 {
				c.Violate("integrated/announce-panics", "%s", p.Panics[n-1])
				return
			}
			// wait for the application-level deliveries of this round before the connection is replaced
			_ = rig.WaitFor(30*time.Second, func() bool { return len(h1.addsFor(p.Ski)) >= want && len(h2.addsFor(p.Ski)) >= want }) // expiry is decided below on the goroutine baseline
			mu.Lock()
			obs = append(obs, roundObs{peer: i, round: rd, wr: wr, announced: before, returned: retSeq, parks: parks})
			mu.Unlock()
		}
	}
	if concurrent {
		var wg sync.WaitGroup
		for i := 0; i < nPeers; i++ {
			wg.Add(1)
			go func(i int) { defer wg.Done(); run(i) }(i)
		}
		wg.Wait()
	} else {
		for _, i := range r.Perm(nPeers) {
			run(i)
		}
	}
	if aborted.Load() {
		return
	}
	if !rig.WaitQuiet(baseline, 30*time.Second) {
		c.Inconclusive("goroutine count did not return to its baseline (%d, now %d)", baseline, runtime.NumGoroutine())
		return
	}
	published := map[string]int{}
	for _, e := range w.Core.Take() {
		if e.P.EventType == api.EventTypeDeviceChange && e.P.ChangeType == api.ElementChangeAdd {
			published[e.P.Ski]++
		}
	}
	complete := true
	for _, o := range obs {
		p := w.Peers[o.peer]
		id := fmt.Sprintf("peer %d (%s) round %d", o.peer, p.Ski, o.round)
		adds, adds2 := h1.addsFor(p.Ski), h2.addsFor(p.Ski)
		if len(adds) <= o.round || len(adds2) <= o.round {
			complete = false
			continue // counted below as missing delivery
		}
		// the earliest entry of an application-level handler for this event
		entry, who := adds[o.round].entry, "application handler 1"
		if adds2[o.round].entry < entry {
			entry, who = adds2[o.round].entry, "application handler 2"
		}
		var subSeq, ucSeq int64
		var lines []string
		for _, out := range o.wr.take() { // everything this connection's writer completed until the process was quiet
			switch k := c15WriteKind(out.D); {
			case k == "subscription-call" && subSeq == 0:
				subSeq = out.Seq
			case k == "use-case-read" && ucSeq == 0:
				ucSeq = out.Seq
			}
		}
		subStart, ucStart := o.wr.startOf("subscription-call"), o.wr.startOf("use-case-read")
		lines = append(lines, fmt.Sprintf("call nodeManagementSubscriptionRequestCall: handed to the writer at %d, write complete at %d", subStart, subSeq),
			fmt.Sprintf("read nodeManagementUseCaseData: handed to the writer at %d, write complete at %d", ucStart, ucSeq))
		var parked []string
		for _, po := range o.parks {
			if !po.entered {
				parked = append(parked, fmt.Sprintf("the write of the %s was to be parked but was never handed to the writer", po.what))
				continue
			}
			parked = append(parked, fmt.Sprintf("the write of the %s was parked inside the connection writer until %d; at the end of the hold: application handler entered=%v, processing of the discovery reply returned=%v", po.what, po.opened, po.appEntered, po.returned))
			if !po.appEntered && !po.returned {
				c.Count("integrated_parked_writes:neither-application-handler-nor-return-while-parked", 1)
			}
		}
		c.Events(4)
		trace = append(trace, fmt.Sprintf("%s: announced>%d subscription call@%d..%d use-case read@%d..%d %s of DeviceChange/add entered@%d HandleSpineMesssage returned@%d %v", id, o.announced, subStart, subSeq, ucStart, ucSeq, who, entry, o.returned, parked))
		ctx := fmt.Sprintf("\n writes: %v\n %s", lines, strings.Join(parked, "\n "))
		// (1) core first: the stack's own core-level handler of DeviceChange/add (DeviceLocal.HandleEvent: subscription call
		// and use-case read to the announcing peer) has FINISHED - both writes have returned - before any application-level
		// handler of that event is entered
		if subSeq == 0 || subSeq > entry {
			c.Violate("integrated/subscription-call-not-written-before-application-handler", "%s: %s of DeviceChange/add entered at %d; NodeManagement subscription call on the tap: %d (0 = never)%s", id, who, entry, subSeq, ctx)
		}
		if ucSeq == 0 || ucSeq > entry {
			c.Violate("integrated/use-case-read-not-written-before-application-handler", "%s: %s of DeviceChange/add entered at %d; use-case read on the tap: %d (0 = never)%s", id, who, entry, ucSeq, ctx)
		}
		// (2) ... and before the publication returns: the publication happens while the discovery reply is processed, so
		// when HandleSpineMesssage has returned for that reply the publication has returned
		if subSeq == 0 || subSeq > o.returned {
			c.Violate("integrated/subscription-call-not-written-when-processing-of-the-discovery-reply-returned", "%s: HandleSpineMesssage returned at %d; NodeManagement subscription call on the tap: %d (0 = never)%s", id, o.returned, subSeq, ctx)
		}
		if ucSeq == 0 || ucSeq > o.returned {
			c.Violate("integrated/use-case-read-not-written-when-processing-of-the-discovery-reply-returned", "%s: HandleSpineMesssage returned at %d; use-case read on the tap: %d (0 = never)%s", id, o.returned, ucSeq, ctx)
		}
	}
	for i, p := range w.Peers {
		for hi, h := range []*c15IntHandler{h1, h2} {
			c.Events(1)
			got := len(h.addsFor(p.Ski))
			switch {
			case got < published[p.Ski]:
				c.Violate("integrated/missing-delivery", "peer %d: %d DeviceChange/add events were published (core level), application handler %d received %d", i, published[p.Ski], hi+1, got)
			case got > published[p.Ski]:
				c.Violate("integrated/delivered-more-than-once", "peer %d: %d DeviceChange/add events were published (core level), application handler %d (subscribed %d times) received %d", i, published[p.Ski], hi+1, hi+1, got)
			}
		}
		if published[p.Ski] != rounds[i] {
			complete = false
		}
	}
	if c.Failed() {
		c.Witness(map[string]any{"peers": nPeers, "rounds": rounds, "concurrent": concurrent, "parked_writes": park, "trace": trace})
	}
	c.Shape(fmt.Sprintf("peers=%d rounds=%v concurrent=%v writer-delay=%s parked=%v", nPeers, rounds, concurrent, delay, park))
	c.NonTrivial(complete && len(obs) > 0)
	c.Count("integrated_rounds", int64(len(obs)))
	c.Sample(map[string]any{"peers": nPeers, "rounds": rounds, "concurrent": concurrent, "writer_delay": delay.String(), "parked_writes": park, "trace": trace})
}
