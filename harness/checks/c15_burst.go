package checks

import (
	"fmt"
	"math/rand"
	"runtime"
	"sync"
	"sync/atomic"
	"time"

	"verifharness/rig"
)

// C15, part "bus", burst stage (every case without a mutual-wait stage): MANY application-level handler invocations
// are inside HandleEvent at the same moment.
//
// "application handlers run asynchronously" and "handlers may ... call back into the stack while handling an event
// without blocking it" are quantified over all histories: also over those in which a burst of K events goes to H
// application handlers that are slow. The other stages have at most a handful of invocations in flight; here the
// number in flight is a drawn dimension (a few ... well over a thousand; K from 1 to several hundred events, H from 1
// to more than 200 application handlers, 1-3 publishing goroutines).
//
// Every application-level invocation of a burst event stays inside HandleEvent until
//   (a) every Publish call of the burst has returned, and
//   (b) every application-level invocation of the burst (all K x H of them) has been entered.
// A conforming bus reaches that point by itself: a publication does not wait for application handlers, and an
// application-level delivery is started without waiting for another one to return. The wait has no deadline of its
// own: a watchdog of the stage gives up when NOTHING moved (no Publish returned, no handler was entered) for
// c15BurstStall, then everybody leaves. The verdict needs that AND the logged order: a Publish of the burst that
// returned only after the handlers had been let go (or never), or an invocation that was entered only after that.
// Drawn per stage: what an invocation does BEFORE it waits (nothing / calls into the stack / everybody, or a drawn
// subset, publishes a follow-up event from inside HandleEvent while the burst is still being published) and AFTER it
// (nothing, or the handler's ordinary re-entrant action: (un)subscribe, publish, connect, stack calls - by then
// hundreds of invocations are in flight and act at once). The stage ends with the extra handlers unsubscribed and one
// more publication (zero pairs for every one of them). All deliveries are judged by the ordinary oracle of the part.

const c15BurstStall = 8 * time.Second

const (
	c15BurstOK     = "burst:all-in-flight"
	c15BurstGaveUp = "burst:LET-GO(nothing moved)"
)

type c15Burst struct {
	mode        string // what an invocation does before it waits: hold | stack-then-hold | some-publish-then-hold | all-publish-then-hold
	post        bool   // ordinary re-entrant action after the wait
	k, h, pubs  int
	wantEntries int64
	wantReturns int64
	entries     atomic.Int64
	returns     atomic.Int64
	allIn       chan struct{}
	allInOnce   sync.Once
	allInSeq    atomic.Int64
	giveUp      chan struct{}
	giveUpSeq   int64
	pubEvery    int // some-publish: one invocation in pubEvery publishes a follow-up
	salt        uint64
	ids         []int // token ids of the burst (cs.mu)
}

func (bs *c15Burst) check() {
	if bs.entries.Load() >= bs.wantEntries && bs.returns.Load() >= bs.wantReturns {
		bs.allInOnce.Do(func() {
			bs.allInSeq.Store(rig.Seq())
			close(bs.allIn)
		})
	}
}

// handle is the application-level delivery of a burst event (never on the publishing goroutine).
func (bs *c15Burst) handle(cs *c15Case, h *c15Handler, tok *c15Token, act c15Act) string {
	by := fmt.Sprintf("%s@e%d", cs.names[h.idx], tok.id)
	bs.entries.Add(1)
	bs.check()
	x := (uint64(tok.id)*0x9E3779B97F4A7C15 + uint64(h.idx)*0xBF58476D1CE4E5B9) ^ bs.salt
	x ^= x >> 31
	switch bs.mode {
	case "stack-then-hold":
		if x%4 == 0 {
			cs.perform(h, tok, c15Act{kind: "stack"}, false)
		}
	case "all-publish-then-hold":
		cs.publishPlain(by)
	case "some-publish-then-hold":
		if bs.pubEvery > 0 && x%uint64(bs.pubEvery) == 0 {
			cs.publishPlain(by)
		}
	}
	select {
	case <-bs.allIn:
	case <-bs.giveUp:
		return c15BurstGaveUp
	}
	if bs.post && act.kind != "" {
		return c15BurstOK + "+" + cs.perform(h, tok, act, false)
	}
	return c15BurstOK
}

// publishPlain publishes a follow-up event from inside a handler whose deliveries carry no re-entrant action (the set of
// subscribed handlers must not change while the burst is being published: the stage knows how many invocations to expect).
func (cs *c15Case) publishPlain(by string) {
	cs.mu.Lock()
	cs.reentrant["publish"]++
	cs.mu.Unlock()
	cs.publishX(1, by, true)
}

// burstStage runs the stage; it returns its description (for the shape and the sample) and false if the case ended
// inconclusive.
func (cs *c15Case) burstStage(r *rand.Rand, baseline int, exec func(o c15PlanOp, by string)) ([]string, bool) {
	c := cs.c
	var desc []string
	do := func(o c15PlanOp) {
		exec(o, "main")
		desc = append(desc, o.String())
	}
	// the application handlers are subscribed anew: 1-3 of A1..A3 and M extra ones, in a drawn order
	for h := 2; h < 5; h++ {
		do(c15PlanOp{"unsub", c15App, h})
	}
	m := []int{0, 0, 5, 30, 70, 70, 130, 220}[r.Intn(8)]
	k := []int{1, 3, 20, 70, 150, 400}[r.Intn(6)]
	capInFlight := 1500
	if c.Thorough() {
		capInFlight = 5000
	}
	if c.Race {
		capInFlight = 900
		if m > 130 {
			m = 130
		}
	}
	apps := r.Perm(3)[:1+r.Intn(3)]
	var order []int
	for _, a := range apps {
		order = append(order, 2+a)
	}
	first := len(cs.hs)
	for i := 0; i < m; i++ {
		idx := len(cs.hs)
		cs.names = append(cs.names, fmt.Sprintf("X%d", i+1))
		cs.hs = append(cs.hs, &c15Handler{cs: cs, idx: idx})
		as := make([]c15Act, 32)
		for s := range as {
			switch x := r.Intn(100); {
			case x < 3:
				as[s].kind = "publish"
			case x < 6:
				as[s].kind = "stack"
			case x < 9:
				as[s].kind = "slow"
			}
		}
		cs.acts = append(cs.acts, as)
		order = append(order, idx)
	}
	r.Shuffle(len(order), func(i, j int) { order[i], order[j] = order[j], order[i] })
	for i, h := range order {
		exec(c15PlanOp{"sub", c15App, h}, "main")
		if i%7 == 3 {
			exec(c15PlanOp{"sub", c15App, h}, "main") // subscribed twice: no second delivery
		}
	}
	nh := len(order)
	if k*nh > capInFlight {
		k = max(1, capInFlight/nh)
	}
	bs := &c15Burst{k: k, h: nh, wantEntries: int64(k * nh), wantReturns: int64(k), allIn: make(chan struct{}), giveUp: make(chan struct{}), salt: r.Uint64()}
	modes := []string{"hold", "hold", "hold", "stack-then-hold", "some-publish-then-hold"}
	if k*nh <= 150 && (!c.Race || nh <= 40) {
		modes = append(modes, "all-publish-then-hold", "all-publish-then-hold")
	}
	bs.mode = modes[r.Intn(len(modes))]
	bs.post = r.Intn(2) == 0
	bs.pubEvery = max(1, k*nh/12)
	bs.pubs = 1 + r.Intn(3)
	if bs.pubs > k {
		bs.pubs = k
	}
	desc = append(desc, fmt.Sprintf("subscribe %d application handlers (%d of A1..A3, %d extra) in a drawn order; burst[%s, then %s]: %d events by %d goroutines = %d application-level invocations in flight",
		nh, len(apps), m, bs.mode, map[bool]string{false: "return", true: "the ordinary re-entrant action"}[bs.post], k, bs.pubs, k*nh))
	cs.mu.Lock()
	cs.burstCur = bs
	cs.bursts = append(cs.bursts, bs)
	cs.mu.Unlock()
	var wg sync.WaitGroup
	pubsDone := make(chan struct{})
	for g := 0; g < bs.pubs; g++ {
		n := k / bs.pubs
		if g < k%bs.pubs {
			n++
		}
		wg.Add(1)
		go func(g, n int) {
			defer wg.Done()
			for i := 0; i < n; i++ {
				cs.publish(0, fmt.Sprint("burst", g))
				bs.returns.Add(1)
				bs.check()
				if g == 1 {
					runtime.Gosched()
				}
			}
		}(g, n)
	}
	go func() { wg.Wait(); close(pubsDone) }()
	// watchdog: gives up when nothing moved for c15BurstStall
	last, since := int64(-1), time.Now()
	tick := time.NewTicker(20 * time.Millisecond)
watch:
	for {
		select {
		case <-bs.allIn:
			break watch
		case <-tick.C:
			if p := bs.entries.Load() + bs.returns.Load(); p != last {
				last, since = p, time.Now()
			} else if time.Since(since) > c15BurstStall {
				bs.giveUpSeq = rig.Seq()
				close(bs.giveUp)
				break watch
			}
		}
	}
	tick.Stop()
	// a Publish that does not return parks in eGuard (30 s) for the parent's hang monitor
	<-pubsDone
	cs.mu.Lock()
	cs.burstCur = nil
	cs.mu.Unlock()
	if !rig.WaitQuiet(baseline, 60*time.Second) {
		c.Inconclusive("goroutine count did not return to its baseline (%d, now %d) after the burst stage", baseline, runtime.NumGoroutine())
		return desc, false
	}
	// the extra handlers leave; nothing reaches them afterwards
	for h := first; h < len(cs.hs); h++ {
		exec(c15PlanOp{"unsub", c15App, h}, "main")
	}
	if m > 0 {
		desc = append(desc, fmt.Sprintf("unsubscribe the %d extra handlers", m))
	}
	do(c15PlanOp{kind: "pub"})
	if !rig.WaitQuiet(baseline, 30*time.Second) {
		c.Inconclusive("goroutine count did not return to its baseline (%d, now %d) at the end of the burst stage", baseline, runtime.NumGoroutine())
		return desc, false
	}
	return desc, true
}

// judgeBursts: verdict of the burst stage on the log (cs.mu held).
func (cs *c15Case) judgeBursts(delsByTok map[int][]c15Del, witness func() string) {
	c := cs.c
	for _, bs := range cs.bursts {
		c.Events(2)
		inFlight := fmt.Sprintf("%d events x %d application handlers", bs.k, bs.h)
		if bs.giveUpSeq == 0 {
			c.Count("burst:every-invocation-in-flight-at-once", 1)
			c.Count("burst:application_handler_invocations_in_flight_at_once(sum)", bs.wantEntries)
			c.Seen("burst_in_flight", c15Bucket(int(bs.wantEntries)))
			c.Seen("burst_handlers", c15Bucket(bs.h))
			c.Seen("burst_events", c15Bucket(bs.k))
			c.Seen("burst_modes", fmt.Sprintf("%s post=%v", bs.mode, bs.post))
			continue
		}
		// the watchdog gave up: nothing had moved for c15BurstStall. Logged order decides
		var latePubs, lateEntries []string
		nLatePub, nLateEntry, entered, inTime := 0, 0, 0, 0
		for _, id := range bs.ids {
			p := cs.pubs[id]
			if p == nil {
				continue
			}
			if p.returned && p.ret <= bs.giveUpSeq {
				inTime++
			} else {
				nLatePub++
				if len(latePubs) < 5 {
					if p.returned {
						latePubs = append(latePubs, fmt.Sprintf("Publish(e%d) called at %d returned at %d", id, p.call, p.ret))
					} else {
						latePubs = append(latePubs, fmt.Sprintf("Publish(e%d) called at %d never returned", id, p.call))
					}
				}
			}
			for _, d := range delsByTok[id] {
				if d.goid == p.goid {
					continue // core level
				}
				if d.entry > bs.giveUpSeq {
					nLateEntry++
					if len(lateEntries) < 5 {
						lateEntries = append(lateEntries, fmt.Sprintf("%s entered e%d at %d", cs.names[d.h], id, d.entry))
					}
				} else {
					entered++
				}
			}
		}
		ctx := fmt.Sprintf("burst of %s (mode %s) published by %d goroutines; every application-level invocation stays inside HandleEvent until all %d Publish calls have returned and all %d invocations have been entered. "+
			"%d invocations were inside HandleEvent and %d Publish calls had returned when nothing had moved for %s; the handlers were let go at %d.", inFlight, bs.mode, bs.pubs, bs.wantReturns, bs.wantEntries, entered, inTime, c15BurstStall, bs.giveUpSeq)
		switch {
		case nLatePub > 0:
			c.Violate("app/publish-waits-for-application-handler", "%s %d Publish calls returned only after that (or never): %v. The publication waits for application handlers to return: application handlers do not run asynchronously\n%s", ctx, nLatePub, latePubs, witness())
		case nLateEntry > 0:
			c.Violate("app/delivery-waits-for-other-application-handler", "%s %d invocations were entered only after that: %v. The delivery to an application handler waits for other application-level invocations to return: they do not run asynchronously\n%s", ctx, nLateEntry, lateEntries, witness())
		default:
			// deliveries are missing (reported by the exactly-once oracle) or ran on the publishing goroutine (reported there too)
			if !c.Failed() {
				c.Inconclusive("%s Nothing on the log arrived late", ctx)
			}
		}
	}
}

func c15Bucket(n int) string {
	switch {
	case n <= 3:
		return "1-3"
	case n <= 16:
		return "4-16"
	case n < 64:
		return "17-63"
	case n <= 128:
		return "64-128"
	case n <= 300:
		return "129-300"
	case n <= 1100:
		return "301-1100"
	}
	return ">1100"
}
