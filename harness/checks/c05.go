package checks

import (
	"bytes"
	"encoding/json"
	"fmt"
	"hash/fnv"
	"math/rand"
	"os"
	"reflect"
	"runtime"
	"sort"
	"strings"
	"sync"
	"sync/atomic"
	"time"

	"github.com/enbility/spine-go/api"
	"github.com/enbility/spine-go/model"
	"github.com/enbility/spine-go/spine"
	"github.com/enbility/spine-go/util"

	"verifharness/rig"
)

// C05 — no inbound byte sequence can crash or wedge the stack; afterwards a valid detailed-discovery
// read is still answered on every connection.
//
// One case = one World (local LoadControl server, Measurement client, Generic server and client with a
// few randomly chosen list functions; 2-3 identically numbered peers, each in a random connection
// state; every third World with write approval callbacks) that receives 10-20 messages from random
// peers, 60 % of them mutated (structure-aware tree mutators, byte mutators, splices, garbage, deep
// nesting), through HandleSpineMesssage and HandleShipPayloadMessage. Then a sweep of valid messages
// that takes every lock an inbound handler takes, read-only API calls an application makes, the
// health probe on every connection, and the teardown. Every call into the stack runs under a watchdog;
// a call that does not return keeps the case blocked so that the parent reports hang@<frame>.

const (
	c05Watchdog = 20 * time.Second // a single call into the stack takes micro- to milliseconds
	c05Stuck    = 6 * time.Minute  // how long a blocked case stays blocked (the parent dumps and kills after ~80 s)

	c05ShortApproval = 30 * time.Millisecond // approval timeout that expires within a case (the other one is an hour)
)

func init() {
	rig.Register(&rig.Check{
		ID:    "C05",
		Floor: 700,
		Rule: "case = one World with 2-3 identically numbered peers, each in a connection state drawn from {before discovery, after discovery, after binds/subscribes, write pending approval}, every third World with approval callbacks (policies approve/deny/hold/silent, timeout 30 ms or 1 h), " +
			"10-20 messages from random peers, 60 % mutated: corpus of one valid datagram of every kind for the current World (rig builders: discovery reply/notify partial/full, subscription and binding request/delete calls, registry reads, use case read/reply/notify, destination list read/reply, read plain/selector/elements, write and notify with each filter shape for LoadControl/Measurement and for three list functions drawn from rig.DiscoverLists() via GenUpdate/Cmd, results) plus the repository's JSON fixtures; " +
			"mutators on the decoded JSON tree (remove, null, {}, [], wrong scalar type, bad string/enum, extreme numbers, duplicate, swap sub-trees, wrap, rename key, nest), targeted structural ones (header address parts, classifier, cmd list, filter/cmdControl, function mismatch, emptied lists), semantic ones (one address part replaced by another valid-looking value, aimed at registry calls of peers that hold bindings), rate-based field dropping, byte truncation/flip/insert/cut, splices, garbage, empty input, deep nesting; " +
			"then the health probe on every connection, a sweep of valid registry/read/write/notify traffic from every peer, read-only API walks, the health probe again and the teardown. " +
			"part fuzz: as described; part approval: the same case aimed at writes of a bound peer that the application approves (generated selectors/elements, sparse stored items); parts concurrent / concurrent-race: every peer delivers its sequence on its own goroutine, replies to local requests with response callbacks included. " +
			"A case is non-trivial if at least 4 mutated messages were delivered, at least one mutated message still decoded as a datagram, and both health probes were judged on every connection; " +
			"distinct = hash of the sequence (peer state, corpus kind, mutator, delivery entry point) - payload values do not count.",
		Assumptions: []string{
			"'does not return' is decided by the parent's progress watchdog: a call that exceeds 20 s keeps its case blocked, and only a goroutine parked for over a minute inside spine-go makes it hang@<frame>; anything else is inconclusive",
			"a panic in a goroutine the stack spawned kills the worker process and is attributed to the journaled case as crash@<frame>",
			"a peer that un-announced its own NodeManagement feature ([0]/0 no longer resolves in that connection's remote device) is the known finding D28 for that peer only; it is recognised by state, never by the message that caused it",
			"the application-side call ApproveOrDenyWrite made from the harness's approval callback belongs to message handling: a panic in it is recorded with its frame and the World is abandoned",
			"read-only API calls an application makes after the messages (UseCases, entity/feature walks, DataCopy, registries) must not panic either; they are part of 'the stack still works afterwards'",
			"in the concurrent parts the order of the peers' messages is unknown, so a connection that lost its own [0]/0 there is attributed to its own peer; in the race part every data race report of the stack under inbound traffic is reported (a race on a map aborts the process with a fatal error nobody can recover)",
			"the approval bookkeeping itself belongs to C12: a pending approval that is still registered 3 s after a 30 ms timeout is listed as inconclusive, not judged",
		},
		Parts: []rig.Part{{
			Name:  "fuzz",
			Cases: func(t rig.Tier) int { return map[rig.Tier]int{rig.Quick: 1350, rig.Thorough: 27000}[t] },
			Run:   c05Case,
			Quiet: 40 * time.Second,
			Procs: 2,
		}, {
			// the same case, aimed at the one inbound path that runs outside the inbound entry point: writes of a bound
			// peer that the application approves (ApproveOrDenyWrite executes them on the application's goroutine)
			Name:  "approval",
			Cases: func(t rig.Tier) int { return map[rig.Tier]int{rig.Quick: 400, rig.Thorough: 6000}[t] },
			Run:   c05Case,
			Quiet: 40 * time.Second,
			Procs: 2,
		}, {
			// the same case with every peer delivering on its own goroutine (as the SHIP readers do), replies to local
			// requests with registered response callbacks included: a fatal error of the runtime ("concurrent map
			// writes") cannot be recovered by anybody and shows as crash@<frame>
			Name:  "concurrent",
			Cases: func(t rig.Tier) int { return map[rig.Tier]int{rig.Quick: 400, rig.Thorough: 5000}[t] },
			Run:   c05Case,
			Quiet: 40 * time.Second,
			Procs: 4,
		}, {
			Name:  "concurrent-race",
			Race:  true,
			Cases: func(t rig.Tier) int { return map[rig.Tier]int{rig.Quick: 64, rig.Thorough: 640}[t] },
			Run:   c05Case,
			Quiet: 40 * time.Second,
			Procs: 4,
		}},
	})
}

// ---------------------------------------------------------------------------
// JSON tree with deterministic key order

type c05Node struct {
	kind int // 0 scalar, 1 object, 2 array
	keys []string
	kids []*c05Node
	val  any // string | json.Number | bool | nil
}

func c05FromAny(v any) *c05Node {
	switch x := v.(type) {
	case map[string]any:
		n := &c05Node{kind: 1}
		for k := range x {
			n.keys = append(n.keys, k)
		}
		sort.Strings(n.keys)
		for _, k := range n.keys {
			n.kids = append(n.kids, c05FromAny(x[k]))
		}
		return n
	case []any:
		n := &c05Node{kind: 2}
		for _, e := range x {
			n.kids = append(n.kids, c05FromAny(e))
		}
		return n
	default:
		return &c05Node{val: v}
	}
}

func c05Parse(b []byte) *c05Node {
	dec := json.NewDecoder(bytes.NewReader(b))
	dec.UseNumber()
	var v any
	if err := dec.Decode(&v); err != nil {
		return nil
	}
	return c05FromAny(v)
}

func (n *c05Node) clone() *c05Node {
	c := &c05Node{kind: n.kind, val: n.val, keys: append([]string(nil), n.keys...)}
	for _, k := range n.kids {
		c.kids = append(c.kids, k.clone())
	}
	return c
}

func (n *c05Node) write(sb *bytes.Buffer) {
	switch n.kind {
	case 1:
		sb.WriteByte('{')
		for i, k := range n.keys {
			if i > 0 {
				sb.WriteByte(',')
			}
			kb, _ := json.Marshal(k)
			sb.Write(kb)
			sb.WriteByte(':')
			n.kids[i].write(sb)
		}
		sb.WriteByte('}')
	case 2:
		sb.WriteByte('[')
		for i, k := range n.kids {
			if i > 0 {
				sb.WriteByte(',')
			}
			k.write(sb)
		}
		sb.WriteByte(']')
	default:
		switch x := n.val.(type) {
		case json.Number:
			sb.WriteString(string(x))
		default:
			vb, _ := json.Marshal(x)
			sb.Write(vb)
		}
	}
}

func (n *c05Node) bytes() []byte { var sb bytes.Buffer; n.write(&sb); return sb.Bytes() }

type c05Slot struct {
	parent *c05Node
	idx    int
}

func (n *c05Node) slots(out *[]c05Slot) {
	for i, k := range n.kids {
		*out = append(*out, c05Slot{n, i})
		k.slots(out)
	}
}

func (n *c05Node) get(path ...string) *c05Node {
	cur := n
	for _, p := range path {
		if cur == nil {
			return nil
		}
		found := false
		if cur.kind == 1 {
			for i, k := range cur.keys {
				if k == p {
					cur, found = cur.kids[i], true
					break
				}
			}
		} else if cur.kind == 2 && p == "0" && len(cur.kids) > 0 {
			cur, found = cur.kids[0], true
		}
		if !found {
			return nil
		}
	}
	return cur
}

func (n *c05Node) set(key string, v *c05Node) {
	if n.kind != 1 {
		return
	}
	for i, k := range n.keys {
		if k == key {
			n.kids[i] = v
			return
		}
	}
	n.keys = append(n.keys, key)
	n.kids = append(n.kids, v)
}

func (n *c05Node) del(key string) {
	if n.kind != 1 {
		return
	}
	for i, k := range n.keys {
		if k == key {
			n.keys = append(n.keys[:i:i], n.keys[i+1:]...)
			n.kids = append(n.kids[:i:i], n.kids[i+1:]...)
			return
		}
	}
}

func c05Scalar(v any) *c05Node { return &c05Node{val: v} }

var c05Numbers = []json.Number{"-1", "0", "1", "1e30", "4294967296", "9223372036854775808", "18446744073709551616", "0.5", "-2147483649", "255", "65536", "1e-7", "-0"}
var c05StringsBad = []string{"", "xx", "PT", "9999-99-99", "-P1Y", "P99999999999999Y", "\u0000", "HEMS", "read", "nodeManagementDetailedDiscoveryData", strings.Repeat("a", 300)}

func c05Nest(depth int, obj bool) *c05Node {
	cur := c05Scalar(json.Number("1"))
	for i := 0; i < depth; i++ {
		if obj {
			cur = &c05Node{kind: 1, keys: []string{"entity"}, kids: []*c05Node{cur}}
		} else {
			cur = &c05Node{kind: 2, kids: []*c05Node{cur}}
		}
	}
	return cur
}

var c05PointMutators = []string{"remove", "null", "emptyobj", "emptyarr", "wrongtype", "badstring", "number", "dup", "swap", "wrap", "rename", "nest"}

// c05Point applies one point mutation to a random slot; returns the mutator's name ("" if the tree has no slot).
func c05Point(r *rand.Rand, root *c05Node) string {
	var sl []c05Slot
	root.slots(&sl)
	if len(sl) == 0 {
		return "none"
	}
	s := sl[r.Intn(len(sl))]
	m := c05PointMutators[r.Intn(len(c05PointMutators))]
	cur := s.parent.kids[s.idx]
	switch m {
	case "remove":
		if s.parent.kind == 1 {
			s.parent.keys = append(s.parent.keys[:s.idx:s.idx], s.parent.keys[s.idx+1:]...)
		}
		s.parent.kids = append(s.parent.kids[:s.idx:s.idx], s.parent.kids[s.idx+1:]...)
	case "null":
		s.parent.kids[s.idx] = c05Scalar(nil)
	case "emptyobj":
		s.parent.kids[s.idx] = &c05Node{kind: 1}
	case "emptyarr":
		s.parent.kids[s.idx] = &c05Node{kind: 2}
	case "wrongtype":
		var v any
		switch x := cur.val.(type) {
		case string:
			v = []any{json.Number("7"), true, json.Number("-1.5")}[r.Intn(3)]
			_ = x
		case json.Number:
			v = []any{string(x), true, "seven"}[r.Intn(3)]
		case bool:
			v = []any{"true", json.Number("0"), json.Number("1")}[r.Intn(3)]
		default:
			v = []any{"str", json.Number("3"), false}[r.Intn(3)] // object, array or null becomes a scalar
		}
		s.parent.kids[s.idx] = c05Scalar(v)
	case "badstring":
		if _, ok := cur.val.(string); !ok {
			// find a string slot instead, if any
			var ss []c05Slot
			for _, x := range sl {
				if _, ok := x.parent.kids[x.idx].val.(string); ok && x.parent.kids[x.idx].kind == 0 {
					ss = append(ss, x)
				}
			}
			if len(ss) == 0 {
				return c05Point(r, root)
			}
			s = ss[r.Intn(len(ss))]
		}
		s.parent.kids[s.idx] = c05Scalar(c05StringsBad[r.Intn(len(c05StringsBad))])
	case "number":
		if _, ok := cur.val.(json.Number); !ok {
			var ss []c05Slot
			for _, x := range sl {
				if _, ok := x.parent.kids[x.idx].val.(json.Number); ok {
					ss = append(ss, x)
				}
			}
			if len(ss) == 0 {
				return c05Point(r, root)
			}
			s = ss[r.Intn(len(ss))]
		}
		s.parent.kids[s.idx] = c05Scalar(c05Numbers[r.Intn(len(c05Numbers))])
	case "dup":
		if s.parent.kind == 2 {
			cp := cur.clone()
			s.parent.kids = append(s.parent.kids[:s.idx+1], append([]*c05Node{cp}, s.parent.kids[s.idx+1:]...)...)
		} else {
			s.parent.kids[s.idx] = &c05Node{kind: 2, kids: []*c05Node{cur.clone(), cur.clone()}}
		}
	case "swap":
		o := sl[r.Intn(len(sl))]
		a, b := cur.clone(), o.parent.kids[o.idx].clone()
		s.parent.kids[s.idx], o.parent.kids[o.idx] = b, a
	case "wrap":
		s.parent.kids[s.idx] = &c05Node{kind: 2, kids: []*c05Node{cur.clone()}}
	case "rename":
		if s.parent.kind != 1 {
			return c05Point(r, root)
		}
		s.parent.keys[s.idx] = []string{s.parent.keys[s.idx] + "X", "", "function", "filter", "entity", "cmdControl"}[r.Intn(6)]
	case "nest":
		s.parent.kids[s.idx] = c05Nest([]int{3, 60, 1000, 10050}[r.Intn(4)], r.Intn(2) == 0)
	}
	return m
}

// c05Rate mutates every node with a small probability (the design-time probe's mutator).
func c05Rate(r *rand.Rand, n *c05Node, rate int) {
	for i := 0; i < len(n.kids); i++ {
		p := r.Intn(1000)
		e := n.kids[i]
		switch {
		case p < rate:
			if n.kind == 1 {
				n.keys = append(n.keys[:i:i], n.keys[i+1:]...)
			}
			n.kids = append(n.kids[:i:i], n.kids[i+1:]...)
			i--
		case p < 2*rate:
			n.kids[i] = c05Scalar(nil)
		case p < 3*rate:
			n.kids[i] = &c05Node{kind: 1}
		case p < 4*rate:
			n.kids[i] = &c05Node{kind: 2}
		case p < 5*rate:
			n.kids[i] = c05Scalar("xx")
		case p < 6*rate:
			n.kids[i] = c05Scalar(json.Number("7"))
		case p < 7*rate:
			n.kids[i] = c05Scalar(true)
		case p < 8*rate:
			n.kids[i] = &c05Node{kind: 2, kids: []*c05Node{e.clone(), e.clone()}}
		default:
			if e.kind == 0 {
				switch e.val.(type) {
				case json.Number:
					if r.Intn(1000) < rate {
						n.kids[i] = c05Scalar(c05Numbers[r.Intn(len(c05Numbers))])
					}
				case string:
					if r.Intn(1000) < rate {
						n.kids[i] = c05Scalar(c05StringsBad[r.Intn(len(c05StringsBad))])
					}
				}
			} else {
				c05Rate(r, e, rate)
			}
		}
	}
}

var c05Targeted = []string{"no-src", "no-dst", "no-src-entity", "empty-src-entity", "no-src-feature", "no-dst-entity", "no-dst-feature", "no-classifier", "other-classifier", "unknown-classifier",
	"no-counter", "cmd-empty", "cmd-empty-object", "cmd-twice", "no-payload", "filter-no-cmdcontrol", "filter-empty-cmdcontrol", "filter-empty-list", "filter-both-controls", "function-mismatch",
	"swap-src-dst", "dst-unknown-feature", "src-other-device", "payload-empty-object", "ref-added", "ack-added", "list-emptied", "list-emptied", "list-item-stripped"}

// c05Target applies one structural mutation aimed at the places the statement names.
func c05Target(r *rand.Rand, root *c05Node) string {
	m := c05Targeted[r.Intn(len(c05Targeted))]
	h := root.get("datagram", "header")
	pl := root.get("datagram", "payload")
	if h == nil || pl == nil || h.kind != 1 || pl.kind != 1 {
		return c05Point(r, root)
	}
	cmd0 := pl.get("cmd", "0")
	classifiers := []string{"read", "reply", "notify", "write", "call", "result"}
	switch m {
	case "no-src":
		h.del("addressSource")
	case "no-dst":
		h.del("addressDestination")
	case "no-src-entity":
		if a := h.get("addressSource"); a != nil {
			a.del("entity")
		}
	case "empty-src-entity":
		if a := h.get("addressSource"); a != nil {
			a.set("entity", &c05Node{kind: 2})
		}
	case "no-src-feature":
		if a := h.get("addressSource"); a != nil {
			a.del("feature")
		}
	case "no-dst-entity":
		if a := h.get("addressDestination"); a != nil {
			a.del("entity")
		}
	case "no-dst-feature":
		if a := h.get("addressDestination"); a != nil {
			a.del("feature")
		}
	case "no-classifier":
		h.del("cmdClassifier")
	case "other-classifier":
		h.set("cmdClassifier", c05Scalar(classifiers[r.Intn(len(classifiers))]))
	case "unknown-classifier":
		h.set("cmdClassifier", c05Scalar("shout"))
	case "no-counter":
		h.del("msgCounter")
	case "cmd-empty":
		pl.set("cmd", &c05Node{kind: 2})
	case "cmd-empty-object":
		pl.set("cmd", &c05Node{kind: 2, kids: []*c05Node{{kind: 1}}})
	case "cmd-twice":
		if c := pl.get("cmd"); c != nil && c.kind == 2 && len(c.kids) > 0 {
			c.kids = append(c.kids, c.kids[0].clone())
		}
	case "no-payload":
		root.get("datagram").del("payload")
	case "filter-no-cmdcontrol", "filter-empty-cmdcontrol", "filter-empty-list", "filter-both-controls":
		if cmd0 == nil || cmd0.kind != 1 {
			return c05Point(r, root)
		}
		f := cmd0.get("filter")
		if f == nil || f.kind != 2 || len(f.kids) == 0 {
			f = &c05Node{kind: 2, kids: []*c05Node{{kind: 1, keys: []string{"cmdControl"}, kids: []*c05Node{{kind: 1, keys: []string{"partial"}, kids: []*c05Node{{kind: 1}}}}}}}
			cmd0.set("filter", f)
		}
		for _, fl := range f.kids {
			if fl.kind != 1 {
				continue
			}
			switch m {
			case "filter-no-cmdcontrol":
				fl.del("cmdControl")
			case "filter-empty-cmdcontrol":
				fl.set("cmdControl", &c05Node{kind: 1})
			case "filter-both-controls":
				fl.set("cmdControl", &c05Node{kind: 1, keys: []string{"delete", "partial"}, kids: []*c05Node{{kind: 1}, {kind: 1}}})
			}
		}
		if m == "filter-empty-list" {
			cmd0.set("filter", &c05Node{kind: 2})
		}
	case "function-mismatch":
		if cmd0 != nil {
			cmd0.set("function", c05Scalar([]string{"measurementListData", "loadControlLimitListData", "nodeManagementDetailedDiscoveryData", "resultData", "nope", ""}[r.Intn(6)]))
		}
	case "swap-src-dst":
		a, b := h.get("addressSource"), h.get("addressDestination")
		if a != nil && b != nil {
			h.set("addressSource", b.clone())
			h.set("addressDestination", a.clone())
		}
	case "dst-unknown-feature":
		if a := h.get("addressDestination"); a != nil {
			a.set("feature", c05Scalar(json.Number([]string{"9", "0", "4294967295"}[r.Intn(3)])))
		}
	case "src-other-device":
		if a := h.get("addressSource"); a != nil {
			a.set("device", c05Scalar([]string{"dev0", "dev1", "dev2", "HEMS", ""}[r.Intn(5)]))
		}
	case "payload-empty-object":
		if cmd0 != nil && cmd0.kind == 1 {
			for i, k := range cmd0.keys {
				if k != "function" && k != "filter" {
					cmd0.kids[i] = &c05Node{kind: 1}
				}
			}
		}
	case "list-emptied", "list-item-stripped":
		// the payload's list loses its items (or an item its fields) while function and filters stay
		if cmd0 == nil || cmd0.kind != 1 {
			return c05Point(r, root)
		}
		for i, k := range cmd0.keys {
			if k == "function" || k == "filter" || cmd0.kids[i].kind != 1 {
				continue
			}
			for j, lst := range cmd0.kids[i].kids {
				if lst.kind != 2 {
					continue
				}
				if m == "list-emptied" {
					cmd0.kids[i].kids[j] = &c05Node{kind: 2}
				} else if len(lst.kids) > 0 && lst.kids[0].kind == 1 && len(lst.kids[0].kids) > 0 {
					it := lst.kids[0]
					x := r.Intn(len(it.kids))
					it.keys = append(it.keys[:x:x], it.keys[x+1:]...)
					it.kids = append(it.kids[:x:x], it.kids[x+1:]...)
				}
			}
		}
	case "ref-added":
		h.set("msgCounterReference", c05Scalar(json.Number(fmt.Sprint(r.Intn(20)))))
	case "ack-added":
		h.set("ackRequest", c05Scalar(true))
	}
	return "t:" + m
}

var c05Garbage = []string{"", " ", "null", "[]", "{}", "0", "\"x\"", "true", "{\"datagram\":[]}", "{\"datagram\":null}", "{\"datagram\":{}}", "\x00\xff\xfe", "{\"datagram\":{\"header\":{},\"payload\":{}}}",
	"{\"datagram\":{\"header\":null,\"payload\":{\"cmd\":null}}}", "{\"datagram\":{\"header\":{},\"payload\":{\"cmd\":[null]}}}", "[{\"datagram\":[{\"header\":[]},{\"payload\":[]}]}]", "{\"datagram\":{\"header\":[],\"payload\":[]}}",
	"{\"datagram\":{\"header\":{\"cmdClassifier\":\"read\"},\"payload\":{\"cmd\":[{}]}}}", "\xef\xbb\xbf{}", "{\"datagram\":"}

// ---------------------------------------------------------------------------
// World

type c05Msg struct {
	kind  string
	b     []byte
	write bool // a write the approval callbacks may see
}

type c05StepT struct {
	pi, mode         int
	b                []byte
	label, kind, mut string
	valid            bool
}

type c05Held struct {
	f   api.FeatureLocalInterface
	msg *api.Message
}

type c05World struct {
	c           *rig.Ctx
	w           *rig.World
	lc, mcl     api.FeatureLocalInterface
	gsrv, gcl   api.FeatureLocalInterface
	lists       []*rig.ListInfo
	states      []int
	nmGoneBy    []int // per peer: -1 while its [0]/0 resolves, else the peer whose message made it vanish
	concurrent  bool  // parts "concurrent*": every peer delivers on its own goroutine
	aimed       bool  // part "approval": approving callbacks, a bound peer, writes with generated filters
	approvals   int   // number of approval callbacks per server feature (0 = none)
	shortTimers bool  // the approval timeout expires within the case
	policy      []int // 0 approve, 1 deny, 2 hold, 3 silent
	cbRuns      int64
	abandoned   int32
	mu          sync.Mutex
	held        []c05Held
	history     []string
}

func (cw *c05World) note(format string, a ...any) {
	s := fmt.Sprintf(format, a...)
	if len(s) > 700 {
		s = s[:700] + "…"
	}
	cw.mu.Lock()
	cw.history = append(cw.history, s)
	cw.mu.Unlock()
}

func (cw *c05World) hist() []string {
	cw.mu.Lock()
	defer cw.mu.Unlock()
	return append([]string(nil), cw.history...)
}

func c05Frame(stack string) string {
	fr := rig.InnermostSpineFrame(stack)
	if fr == "" {
		fr = "outside-spine-go"
	}
	return fr
}

// call runs f under the watchdog. A panic is returned with its stack. A call that does not return keeps the
// case blocked (no progress is journaled) so that the parent takes the goroutine dump and decides.
func (cw *c05World) call(what string, f func()) (panicked string) {
	done := make(chan string, 1)
	go func() {
		defer func() {
			if r := recover(); r != nil {
				buf := make([]byte, 16<<10)
				buf = buf[:runtime.Stack(buf, false)]
				done <- fmt.Sprintf("%v\n%s", r, buf)
				return
			}
			done <- ""
		}()
		f()
	}()
	select {
	case p := <-done:
		return p
	case <-time.After(c05Watchdog):
	}
	runtime.GC() // stamps the wait time of the parked goroutine (see c05Case)
	if atomic.LoadInt32(&cw.abandoned) != 0 {
		// a violation is already recorded for this World and locks may be left held: do not wait for it
		cw.c.Inconclusive("%s did not return in the abandoned World", what)
		return ""
	}
	fmt.Fprintf(os.Stderr, "\n@@STUCK %s: %s did not return within %v; history:\n  %s\n", cw.c.Tag(), what, c05Watchdog, strings.Join(cw.hist(), "\n  "))
	select {
	case p := <-done:
		cw.c.Inconclusive("%s took more than %v but returned", what, c05Watchdog)
		return p
	case <-time.After(c05Stuck):
		cw.c.Inconclusive("%s did not return within %v and the parent did not intervene", what, c05Stuck)
		atomic.StoreInt32(&cw.abandoned, 1)
		return ""
	}
}

// stack runs a call into the stack and turns a panic into a violation with the given signature prefix.
func (cw *c05World) stack(sigPrefix, what string, f func()) bool {
	if p := cw.call(what, f); p != "" {
		cw.c.Violate(sigPrefix+"@"+c05Frame(p), "%s panicked: %s\nhistory:\n  %s", what, p, strings.Join(cw.hist(), "\n  "))
		atomic.StoreInt32(&cw.abandoned, 1)
		return false
	}
	return atomic.LoadInt32(&cw.abandoned) == 0
}

func c05Feats(lists []*rig.ListInfo) []rig.FS {
	var gfn []model.FunctionPropertyType
	for _, li := range lists {
		gfn = append(gfn, rig.FnProp(li.Fn, true, true))
	}
	return []rig.FS{rig.NMFS,
		{Ent: []uint{1}, Id: 1, Typ: model.FeatureTypeTypeLoadControl, Role: model.RoleTypeClient, Fns: []model.FunctionPropertyType{rig.FnProp(model.FunctionTypeLoadControlLimitListData, true, false)}},
		{Ent: []uint{1}, Id: 2, Typ: model.FeatureTypeTypeMeasurement, Role: model.RoleTypeServer, Fns: []model.FunctionPropertyType{rig.FnProp(model.FunctionTypeMeasurementListData, true, false)}, Desc: "meter"},
		{Ent: []uint{1}, Id: 3, Typ: model.FeatureTypeTypeGeneric, Role: model.RoleTypeClient},
		{Ent: []uint{1}, Id: 4, Typ: model.FeatureTypeTypeGeneric, Role: model.RoleTypeServer, Fns: gfn},
		{Ent: []uint{1, 1}, Id: 1, Typ: model.FeatureTypeTypeMeasurement, Role: model.RoleTypeServer}}
}

func c05GenericLists() []*rig.ListInfo {
	var out []*rig.ListInfo
	all := rig.DiscoverLists()
	for i := range all {
		if all[i].FeatureType == model.FeatureTypeTypeGeneric {
			out = append(out, &all[i])
		}
	}
	return out
}

// verdict is the application's answer to an approval request; it runs on a goroutine the stack spawned
// (or on the case's goroutine for held requests) and never swallows a panic silently.
func (cw *c05World) verdict(f api.FeatureLocalInterface, msg *api.Message, approve bool, where string) {
	defer func() {
		if r := recover(); r != nil {
			buf := make([]byte, 16<<10)
			buf = buf[:runtime.Stack(buf, false)]
			atomic.StoreInt32(&cw.abandoned, 1)
			cw.c.Violate("approval-panic@"+c05Frame(string(buf)), "ApproveOrDenyWrite(approve=%v) called from the %s panicked: %v\n%s\nrequest header: %s cmd: %s\nhistory:\n  %s",
				approve, where, r, buf, rig.JS(msg.RequestHeader), rig.JS(msg.Cmd), strings.Join(cw.hist(), "\n  "))
		}
	}()
	e := model.ErrorType{}
	if !approve {
		e = model.ErrorType{ErrorNumber: model.ErrorNumberType(7), Description: util.Ptr(model.DescriptionType("denied by the harness"))}
	}
	f.ApproveOrDenyWrite(msg, e)
}

// approvalCallback is callback number idx of feature f. Its decision depends only on the request (message
// counter) and on idx, never on the order in which the stack's goroutines happen to run.
func (cw *c05World) approvalCallback(f api.FeatureLocalInterface, idx int) api.WriteApprovalCallbackFunc {
	return func(msg *api.Message) {
		atomic.AddInt64(&cw.cbRuns, 1)
		key := uint64(idx)
		if msg != nil && msg.RequestHeader != nil && msg.RequestHeader.MsgCounter != nil {
			key += 7 * uint64(*msg.RequestHeader.MsgCounter)
		}
		switch cw.policy[key%uint64(len(cw.policy))] {
		case 0:
			cw.verdict(f, msg, true, "approval callback")
		case 1:
			cw.verdict(f, msg, false, "approval callback")
		case 2:
			cw.mu.Lock()
			cw.held = append(cw.held, c05Held{f, msg})
			cw.mu.Unlock()
		default: // silent: the stack's timer decides
		}
	}
}

// waitTimers waits until the stack's approval timers of a short-timeout World have fired, by observing their
// effect (no pending approval left). It orders "timer first, late verdict second" without sleeping blindly.
func (cw *c05World) waitTimers() {
	if cw.approvals == 0 || !cw.shortTimers || atomic.LoadInt32(&cw.abandoned) != 0 {
		return
	}
	pending := func() int {
		n := 0
		for _, f := range []api.FeatureLocalInterface{cw.lc, cw.gsrv} {
			if fl, ok := f.(*spine.FeatureLocal); ok {
				p, _ := fl.VerifApprovalState()
				for _, k := range p {
					n += k
				}
			}
		}
		return n
	}
	var ok bool
	cw.call("waiting for the approval timers", func() { ok = rig.WaitFor(3*time.Second, func() bool { return pending() == 0 }) })
	if !ok && atomic.LoadInt32(&cw.abandoned) == 0 {
		// not judged here (C12 owns the approval bookkeeping); the order "timer first" is then not guaranteed for this case
		cw.c.Inconclusive("a pending write approval with a timeout of %v was still registered after 3s", c05ShortApproval)
		cw.shortTimers = false
	}
}

func (cw *c05World) flushHeld(r *rand.Rand) {
	cw.waitTimers()
	cw.mu.Lock()
	held := cw.held
	cw.held = nil
	cw.mu.Unlock()
	for _, h := range held {
		h := h
		approve := r.Intn(3) != 0
		cw.note("application answers a held approval request: approve=%v", approve)
		cw.c.Count("held_approvals_answered", 1)
		cw.call("ApproveOrDenyWrite (held request)", func() { cw.verdict(h.f, h.msg, approve, "case goroutine for a held request") })
	}
}

func newC05World(c *rig.Ctx) *c05World {
	r := c.Rand
	cw := &c05World{c: c, w: rig.NewWorld(c.Tag()), aimed: c.Part == "approval", concurrent: strings.HasPrefix(c.Part, "concurrent")}
	if r.Intn(3) == 0 {
		cw.w.WithAppSink()
	}
	e := cw.w.AddEntity(model.EntityTypeTypeCEM, []uint{1}, 4*time.Second)
	cw.lc = e.GetOrAddFeature(model.FeatureTypeTypeLoadControl, model.RoleTypeServer) // [1]/1
	cw.lc.AddFunctionType(model.FunctionTypeLoadControlLimitListData, true, true)
	cw.lc.AddFunctionType(model.FunctionTypeLoadControlLimitDescriptionListData, true, false)
	cw.mcl = e.GetOrAddFeature(model.FeatureTypeTypeMeasurement, model.RoleTypeClient) // [1]/2
	cw.gsrv = e.GetOrAddFeature(model.FeatureTypeTypeGeneric, model.RoleTypeServer)    // [1]/3
	cw.gcl = e.GetOrAddFeature(model.FeatureTypeTypeGeneric, model.RoleTypeClient)     // [1]/4
	gl := c05GenericLists()
	for _, i := range r.Perm(len(gl))[:3] {
		cw.lists = append(cw.lists, gl[i])
		cw.gsrv.AddFunctionType(gl[i].Fn, true, true)
	}
	sort.Slice(cw.lists, func(i, j int) bool { return cw.lists[i].Fn < cw.lists[j].Fn })
	// some local data so that reads and partial writes have something to work on
	cw.lc.SetData(model.FunctionTypeLoadControlLimitListData, &model.LoadControlLimitListDataType{LoadControlLimitData: []model.LoadControlLimitDataType{
		{LimitId: util.Ptr(model.LoadControlLimitIdType(1)), IsLimitChangeable: util.Ptr(true), IsLimitActive: util.Ptr(false), Value: model.NewScaledNumberType(10)},
		{LimitId: util.Ptr(model.LoadControlLimitIdType(2)), IsLimitChangeable: util.Ptr(false), Value: model.NewScaledNumberType(20)}}})
	for _, li := range cw.lists {
		if u, ok := li.GenUpdate(r, 0, 3); ok {
			items := rig.CloneItems(u.Items)
			if cw.aimed {
				// sparse items and items without identifiers: every field of the data model is optional
				for k := r.Intn(3); k > 0; k-- {
					items = append(items, li.NewItem(r, -1))
				}
				if r.Intn(2) == 0 {
					items = append(items, reflect.New(li.ElemT).Elem())
				}
			}
			cw.gsrv.SetData(li.Fn, li.MkList(items))
		}
	}
	if c.Index%3 == 0 || cw.aimed {
		cw.approvals = 1 + r.Intn(2)
		for i := 0; i < 6; i++ {
			if cw.aimed {
				cw.policy = append(cw.policy, []int{0, 0, 0, 2}[r.Intn(4)])
			} else {
				cw.policy = append(cw.policy, []int{0, 0, 0, 1, 2, 2, 3}[r.Intn(7)]) // mostly approving: the write is then executed by the application's call
			}
		}
		timeout := []time.Duration{c05ShortApproval, time.Hour}[r.Intn(2)]
		if cw.aimed && r.Intn(4) != 0 {
			timeout = time.Hour
		}
		cw.shortTimers = timeout == c05ShortApproval
		for _, f := range []api.FeatureLocalInterface{cw.lc, cw.gsrv} {
			f.SetWriteApprovalTimeout(timeout)
			for i := 0; i < cw.approvals; i++ {
				_ = f.AddWriteApprovalCallback(cw.approvalCallback(f, i))
			}
		}
	}
	cw.mcl.AddResultCallback(func(msg api.ResponseMessage) { atomic.AddInt64(&cw.cbRuns, 1) })
	cw.gcl.AddResultCallback(func(msg api.ResponseMessage) { atomic.AddInt64(&cw.cbRuns, 1) })
	return cw
}

// corpus builds one valid datagram of every kind for peer p in the current World.
func (cw *c05World) corpus(p *rig.Peer, localReq *model.MsgCounterType) []c05Msg {
	r := cw.c.Rand
	var out []c05Msg
	add := func(kind string, cl model.CmdClassifierType, src, dst *model.FeatureAddressType, ack bool, ref *model.MsgCounterType, cmd model.CmdType) {
		b, err := json.Marshal(rig.Datagram(cl, src, dst, p.NextCounter(), ack, ref, cmd))
		if err != nil {
			panic("harness: corpus " + kind + ": " + err.Error())
		}
		out = append(out, c05Msg{kind: kind, b: b, write: cl == model.CmdClassifierTypeWrite})
	}
	const (
		read, reply, notify, write, call, result = model.CmdClassifierTypeRead, model.CmdClassifierTypeReply, model.CmdClassifierTypeNotify, model.CmdClassifierTypeWrite, model.CmdClassifierTypeCall, model.CmdClassifierTypeResult
	)
	feats := c05Feats(cw.lists)
	ref := util.Ptr(model.MsgCounterType(1))
	nm := p.NM()
	added := model.NetworkManagementStateChangeTypeAdded
	add("discovery-reply", reply, nm, rig.LNM, false, ref, model.CmdType{NodeManagementDetailedDiscoveryData: p.Discovery(feats, nil, nil)})
	add("discovery-notify-partial", notify, nm, rig.LNM, true, nil, model.CmdType{Function: util.Ptr(model.FunctionTypeNodeManagementDetailedDiscoveryData), Filter: []model.FilterType{*model.NewFilterTypePartial()},
		NodeManagementDetailedDiscoveryData: p.Discovery([]rig.FS{{Ent: []uint{2}, Id: 1, Typ: model.FeatureTypeTypeMeasurement, Role: model.RoleTypeServer}}, map[string]model.NetworkManagementStateChangeType{"[2]": added}, [][]uint{{1, 1}})})
	add("discovery-notify-full", notify, nm, rig.LNM, false, nil, model.CmdType{NodeManagementDetailedDiscoveryData: p.Discovery(feats, nil, nil)})
	add("discovery-read", read, nm, rig.LNM, false, nil, model.CmdType{NodeManagementDetailedDiscoveryData: &model.NodeManagementDetailedDiscoveryDataType{}})
	lcCl, msSrv, gCl, gSrv := rig.FA(p.Addr, []uint{1}, 1), rig.FA(p.Addr, []uint{1}, 2), rig.FA(p.Addr, []uint{1}, 3), rig.FA(p.Addr, []uint{1}, 4)
	add("subscription-request", call, nm, rig.LNM, true, nil, model.CmdType{NodeManagementSubscriptionRequestCall: spine.NewNodeManagementSubscriptionRequestCallType(lcCl, cw.lc.Address(), model.FeatureTypeTypeLoadControl)})
	add("subscription-delete", call, nm, rig.LNM, true, nil, model.CmdType{NodeManagementSubscriptionDeleteCall: spine.NewNodeManagementSubscriptionDeleteCallType(lcCl, cw.lc.Address())})
	add("binding-request", call, nm, rig.LNM, true, nil, model.CmdType{NodeManagementBindingRequestCall: spine.NewNodeManagementBindingRequestCallType(lcCl, cw.lc.Address(), model.FeatureTypeTypeLoadControl)})
	add("binding-delete", call, nm, rig.LNM, true, nil, model.CmdType{NodeManagementBindingDeleteCall: spine.NewNodeManagementBindingDeleteCallType(lcCl, cw.lc.Address())})
	add("subscription-request-generic", call, nm, rig.LNM, false, nil, model.CmdType{NodeManagementSubscriptionRequestCall: spine.NewNodeManagementSubscriptionRequestCallType(gCl, cw.gsrv.Address(), model.FeatureTypeTypeGeneric)})
	add("binding-request-generic", call, nm, rig.LNM, false, nil, model.CmdType{NodeManagementBindingRequestCall: spine.NewNodeManagementBindingRequestCallType(gCl, cw.gsrv.Address(), model.FeatureTypeTypeGeneric)})
	add("subscription-delete-generic", call, nm, rig.LNM, true, nil, model.CmdType{NodeManagementSubscriptionDeleteCall: spine.NewNodeManagementSubscriptionDeleteCallType(gCl, cw.gsrv.Address())})
	add("binding-delete-generic", call, nm, rig.LNM, true, nil, model.CmdType{NodeManagementBindingDeleteCall: spine.NewNodeManagementBindingDeleteCallType(gCl, cw.gsrv.Address())})
	add("subscription-data-call", call, nm, rig.LNM, false, nil, model.CmdType{NodeManagementSubscriptionData: &model.NodeManagementSubscriptionDataType{}})
	add("binding-data-read", read, nm, rig.LNM, false, nil, model.CmdType{NodeManagementBindingData: &model.NodeManagementBindingDataType{}})
	add("usecase-read", read, nm, rig.LNM, false, nil, model.CmdType{NodeManagementUseCaseData: &model.NodeManagementUseCaseDataType{}})
	add("usecase-reply", reply, nm, rig.LNM, false, ref, model.CmdType{NodeManagementUseCaseData: &model.NodeManagementUseCaseDataType{UseCaseInformation: []model.UseCaseInformationDataType{{
		Address: rig.FA(p.Addr, []uint{1}, 0), Actor: util.Ptr(model.UseCaseActorTypeEVSE), UseCaseSupport: []model.UseCaseSupportType{{UseCaseName: util.Ptr(model.UseCaseNameTypeEVSECommissioningAndConfiguration), UseCaseAvailable: util.Ptr(true), ScenarioSupport: []model.UseCaseScenarioSupportType{1, 2}}}}}}})
	add("usecase-notify", notify, nm, rig.LNM, false, nil, model.CmdType{NodeManagementUseCaseData: &model.NodeManagementUseCaseDataType{UseCaseInformation: []model.UseCaseInformationDataType{{
		Address: rig.FA(p.Addr, []uint{1}, 0), Actor: util.Ptr(model.UseCaseActorTypeEV), UseCaseSupport: []model.UseCaseSupportType{{UseCaseName: util.Ptr(model.UseCaseNameTypeEVSECommissioningAndConfiguration)}}}}}})
	add("destinationlist-read", read, nm, rig.LNM, false, nil, model.CmdType{NodeManagementDestinationListData: &model.NodeManagementDestinationListDataType{}})
	add("destinationlist-reply", reply, nm, rig.LNM, false, ref, model.CmdType{NodeManagementDestinationListData: &model.NodeManagementDestinationListDataType{NodeManagementDestinationData: []model.NodeManagementDestinationDataType{{
		DeviceDescription: &model.NetworkManagementDeviceDescriptionDataType{DeviceAddress: &model.DeviceAddressType{Device: util.Ptr(model.AddressDeviceType(p.Addr))}}}}}})
	// LoadControl: read (plain, selector, elements) and write with each filter shape
	fnL := util.Ptr(model.FunctionTypeLoadControlLimitListData)
	lsel := &model.LoadControlLimitListDataSelectorsType{LimitId: util.Ptr(model.LoadControlLimitIdType(1))}
	add("read", read, lcCl, cw.lc.Address(), false, nil, model.CmdType{LoadControlLimitListData: &model.LoadControlLimitListDataType{}})
	rsel := model.NewFilterTypePartial()
	rsel.LoadControlLimitListDataSelectors = lsel
	add("read-selector", read, lcCl, cw.lc.Address(), false, nil, model.CmdType{Function: fnL, Filter: []model.FilterType{*rsel}, LoadControlLimitListData: &model.LoadControlLimitListDataType{}})
	rel := model.NewFilterTypePartial()
	rel.LoadControlLimitDataElements = &model.LoadControlLimitDataElementsType{Value: &model.ScaledNumberElementsType{}, LimitId: &model.ElementTagType{}}
	add("read-elements", read, lcCl, cw.lc.Address(), true, nil, model.CmdType{Function: fnL, Filter: []model.FilterType{*rel}, LoadControlLimitListData: &model.LoadControlLimitListDataType{}})
	lim := &model.LoadControlLimitListDataType{LoadControlLimitData: []model.LoadControlLimitDataType{{LimitId: util.Ptr(model.LoadControlLimitIdType(1)), IsLimitActive: util.Ptr(true), Value: model.NewScaledNumberType(16), TimePeriod: &model.TimePeriodType{EndTime: model.NewAbsoluteOrRelativeTimeType("PT2H")}}}}
	delS := model.FilterType{CmdControl: &model.CmdControlType{Delete: &model.ElementTagType{}}, LoadControlLimitListDataSelectors: lsel, LoadControlLimitDataElements: &model.LoadControlLimitDataElementsType{Value: &model.ScaledNumberElementsType{}}}
	add("write-full", write, lcCl, cw.lc.Address(), true, nil, model.CmdType{LoadControlLimitListData: lim})
	add("write-partial", write, lcCl, cw.lc.Address(), true, nil, model.CmdType{Function: fnL, Filter: []model.FilterType{*model.NewFilterTypePartial()}, LoadControlLimitListData: lim})
	add("write-partial-selector", write, lcCl, cw.lc.Address(), false, nil, model.CmdType{Function: fnL, Filter: []model.FilterType{*rsel}, LoadControlLimitListData: lim})
	add("write-delete+partial", write, lcCl, cw.lc.Address(), true, nil, model.CmdType{Function: fnL, Filter: []model.FilterType{delS, *model.NewFilterTypePartial()}, LoadControlLimitListData: lim})
	// Measurement: reply, notify with each filter shape, result
	fnM := util.Ptr(model.FunctionTypeMeasurementListData)
	meas := &model.MeasurementListDataType{MeasurementData: []model.MeasurementDataType{{MeasurementId: util.Ptr(model.MeasurementIdType(1)), ValueType: util.Ptr(model.MeasurementValueTypeTypeValue), Timestamp: model.NewAbsoluteOrRelativeTimeType("2024-01-01T10:00:00Z"),
		Value: model.NewScaledNumberType(1.5), EvaluationPeriod: &model.TimePeriodType{StartTime: model.NewAbsoluteOrRelativeTimeType("PT0S"), EndTime: model.NewAbsoluteOrRelativeTimeType("PT5M")}}}}
	msel := model.NewFilterTypePartial()
	msel.MeasurementListDataSelectors = &model.MeasurementListDataSelectorsType{MeasurementId: util.Ptr(model.MeasurementIdType(1)), ValueType: util.Ptr(model.MeasurementValueTypeTypeValue)}
	mdel := model.FilterType{CmdControl: &model.CmdControlType{Delete: &model.ElementTagType{}}, MeasurementListDataSelectors: &model.MeasurementListDataSelectorsType{MeasurementId: util.Ptr(model.MeasurementIdType(1))}}
	mref := ref
	if localReq != nil {
		mref = localReq
	}
	add("reply", reply, msSrv, cw.mcl.Address(), false, mref, model.CmdType{MeasurementListData: meas})
	add("notify-full", notify, msSrv, cw.mcl.Address(), false, nil, model.CmdType{MeasurementListData: meas})
	add("notify-partial", notify, msSrv, cw.mcl.Address(), true, nil, model.CmdType{Function: fnM, Filter: []model.FilterType{*model.NewFilterTypePartial()}, MeasurementListData: meas})
	add("notify-partial-selector", notify, msSrv, cw.mcl.Address(), false, nil, model.CmdType{Function: fnM, Filter: []model.FilterType{*msel}, MeasurementListData: meas})
	add("notify-delete-selector", notify, msSrv, cw.mcl.Address(), false, nil, model.CmdType{Function: fnM, Filter: []model.FilterType{mdel}, MeasurementListData: &model.MeasurementListDataType{}})
	add("result-error", result, msSrv, cw.mcl.Address(), false, mref, model.CmdType{ResultData: &model.ResultDataType{ErrorNumber: util.Ptr(model.ErrorNumberType(7)), Description: util.Ptr(model.DescriptionType("x"))}})
	add("result-ok-nodemanagement", result, nm, rig.LNM, false, ref, model.CmdType{ResultData: &model.ResultDataType{ErrorNumber: util.Ptr(model.ErrorNumberType(0))}})
	// several list functions through the rig's generators: write to the Generic server, reply/notify to the Generic client
	for _, li := range cw.lists {
		for shape := 0; shape < rig.NumUpdateShapes; shape++ {
			u, ok := li.GenUpdate(r, shape, 3)
			if !ok {
				continue
			}
			cmd := li.Cmd(u)
			switch r.Intn(3) {
			case 0:
				add("list-write/"+u.Kind, write, gCl, cw.gsrv.Address(), r.Intn(2) == 0, nil, cmd)
			case 1:
				add("list-notify/"+u.Kind, notify, gSrv, cw.gcl.Address(), r.Intn(2) == 0, nil, cmd)
			default:
				if u.Kind == "full" {
					add("list-reply/"+u.Kind, reply, gSrv, cw.gcl.Address(), false, ref, cmd)
				} else {
					add("list-write/"+u.Kind, write, gCl, cw.gsrv.Address(), true, nil, cmd)
				}
			}
		}
		add("list-read", read, gCl, cw.gsrv.Address(), false, nil, rig.CmdFor(li.Fn, reflect.New(li.PtrT.Elem()).Interface()))
	}
	return out
}

// richWrites builds writes of peer p to the local servers whose filters carry generated selectors and elements
// (any subset of fields, not only identifiers) and whose lists hold zero to two items with or without identifiers.
func (cw *c05World) richWrites(p *rig.Peer) []c05Msg {
	r := cw.c.Rand
	var out []c05Msg
	type target struct {
		li       *rig.ListInfo
		src, dst *model.FeatureAddressType
	}
	ts := []target{{rig.ListByFn(model.FunctionTypeLoadControlLimitListData), rig.FA(p.Addr, []uint{1}, 1), cw.lc.Address()}}
	for _, li := range cw.lists {
		ts = append(ts, target{li, rig.FA(p.Addr, []uint{1}, 3), cw.gsrv.Address()})
	}
	for _, t := range ts {
		li := t.li
		if li == nil {
			continue
		}
		for v := 0; v < 6; v++ {
			var items []reflect.Value
			for k := r.Intn(3); k > 0; k-- {
				id := r.Intn(4) - 1 // -1: no identifiers
				items = append(items, li.NewItem(r, id))
			}
			cmd := model.CmdType{Function: util.Ptr(li.Fn)}
			cmd.SetDataForFunction(li.Fn, li.MkList(items))
			mk := func(del bool) model.FilterType {
				f := model.FilterType{CmdControl: &model.CmdControlType{}}
				if del {
					f.CmdControl.Delete = &model.ElementTagType{}
				} else {
					f.CmdControl.Partial = &model.ElementTagType{}
				}
				if li.SelT != nil && r.Intn(4) != 0 {
					sel := reflect.New(li.SelT)
					sel.Elem().Set(rig.GenVal(r, li.SelT, 1))
					reflect.ValueOf(&f).Elem().Field(li.SelIdx).Set(sel)
				}
				if li.ElT != nil && r.Intn(2) == 0 {
					el := reflect.New(li.ElT)
					el.Elem().Set(rig.GenVal(r, li.ElT, 1))
					reflect.ValueOf(&f).Elem().Field(li.ElIdx).Set(el)
				}
				return f
			}
			kind := "rich-write/"
			switch r.Intn(3) {
			case 0:
				cmd.Filter, kind = []model.FilterType{mk(false)}, kind+"partial"
			case 1:
				cmd.Filter, kind = []model.FilterType{mk(true)}, kind+"delete"
			default:
				cmd.Filter, kind = []model.FilterType{mk(true), mk(false)}, kind+"delete+partial"
			}
			b, err := json.Marshal(rig.Datagram(model.CmdClassifierTypeWrite, t.src, t.dst, p.NextCounter(), r.Intn(2) == 0, nil, cmd))
			if err != nil {
				panic("harness: rich write: " + err.Error())
			}
			out = append(out, c05Msg{kind: kind, b: b, write: true})
		}
	}
	return out
}

var (
	c05FixOnce sync.Once
	c05Fix     []c05Msg
	c05FixSkip []string
)

func c05Fixtures() ([]c05Msg, []string) {
	c05FixOnce.Do(func() {
		for _, f := range c18FixtureFiles() {
			b, err := os.ReadFile(f)
			if err != nil {
				continue
			}
			var d model.Datagram
			name := f[strings.LastIndex(f, "/")+1:]
			if err := json.Unmarshal(b, &d); err != nil || d.Datagram.Header.CmdClassifier == nil {
				c05FixSkip = append(c05FixSkip, name) // SHIP array-of-objects form: needs ship-go's transformation
				continue
			}
			c05Fix = append(c05Fix, c05Msg{kind: "fixture/" + strings.TrimSuffix(name, ".json"), b: b})
		}
	})
	return c05Fix, c05FixSkip
}

// mutate derives one mutated message; returns the bytes and the mutator label.
func c05Mutate(r *rand.Rand, pool []c05Msg) ([]byte, string, string) {
	base := pool[r.Intn(len(pool))]
	x := r.Intn(100)
	switch {
	case x < 44: // point mutations
		root := c05Parse(base.b)
		k := 1
		if y := r.Intn(100); y >= 85 {
			k = 3 + r.Intn(3)
		} else if y >= 60 {
			k = 2
		}
		var ms []string
		for i := 0; i < k; i++ {
			ms = append(ms, c05Point(r, root))
		}
		return root.bytes(), strings.Join(ms, "+"), base.kind
	case x < 50: // one address part replaced by another valid-looking value
		root := c05Parse(base.b)
		m := c05Semantic(r, root, r.Intn(2) == 0)
		return root.bytes(), m, base.kind
	case x < 58: // targeted structural mutations
		root := c05Parse(base.b)
		m := c05Target(r, root)
		if r.Intn(3) == 0 {
			m += "+" + c05Point(r, root)
		}
		return root.bytes(), m, base.kind
	case x < 76: // rate based
		root := c05Parse(base.b)
		rate := []int{5, 15, 40}[r.Intn(3)]
		c05Rate(r, root, rate)
		return root.bytes(), fmt.Sprintf("rate%d", rate), base.kind
	case x < 83: // bytes
		b := append([]byte(nil), base.b...)
		switch r.Intn(4) {
		case 0:
			return b[:r.Intn(len(b))], "truncate", base.kind
		case 1:
			b[r.Intn(len(b))] = byte(r.Intn(256))
			return b, "byteflip", base.kind
		case 2:
			i := r.Intn(len(b))
			return append(b[:i:i], append([]byte{byte(r.Intn(256))}, b[i:]...)...), "byteinsert", base.kind
		default:
			i := r.Intn(len(b))
			j := i + r.Intn(len(b)-i)
			return append(b[:i:i], b[j:]...), "bytecut", base.kind
		}
	case x < 90: // splice two messages
		other := pool[r.Intn(len(pool))]
		if r.Intn(2) == 0 {
			return append(append([]byte(nil), base.b[:r.Intn(len(base.b))]...), other.b[r.Intn(len(other.b)):]...), "splice-bytes", base.kind + "|" + other.kind
		}
		a, b := c05Parse(base.b), c05Parse(other.b)
		if pa, pb := a.get("datagram"), b.get("datagram", "payload"); pa != nil && pb != nil {
			pa.set("payload", pb.clone())
		}
		return a.bytes(), "splice-header-payload", base.kind + "|" + other.kind
	case x < 95:
		if r.Intn(4) == 0 {
			b := make([]byte, r.Intn(64))
			r.Read(b)
			return b, "random-bytes", "-"
		}
		return []byte(c05Garbage[r.Intn(len(c05Garbage))]), "garbage", "-"
	default: // deep nesting
		root := c05Parse(base.b)
		var sl []c05Slot
		root.slots(&sl)
		s := sl[r.Intn(len(sl))]
		s.parent.kids[s.idx] = c05Nest([]int{40, 2000, 9990, 10050, 30000}[r.Intn(5)], r.Intn(2) == 0)
		return root.bytes(), "deepnest", base.kind
	}
}

type c05Shipper interface{ HandleShipPayloadMessage([]byte) }

// deliverDirect delivers one step on the calling goroutine (concurrent phase: no helper goroutine in between, so
// that the deliveries of the peers really overlap); the phase as a whole is under the watchdog.
func (cw *c05World) deliverDirect(p *rig.Peer, st c05StepT) (ok bool) {
	defer func() {
		if r := recover(); r != nil {
			buf := make([]byte, 16<<10)
			buf = buf[:runtime.Stack(buf, false)]
			atomic.StoreInt32(&cw.abandoned, 1)
			cw.c.Violate("panic@"+c05Frame(string(buf)), "concurrent delivery panicked on %s\n message: %s\n %v\n%s", st.label, c05ClipB(st.b), r, buf)
			ok = false
		}
	}()
	if st.mode == 2 {
		if sh, is := p.RD.(c05Shipper); is {
			sh.HandleShipPayloadMessage(st.b)
			return true
		}
	}
	_, _ = p.RD.HandleSpineMesssage(st.b)
	return true
}

// c05Semantic replaces one part of one address by another valid-looking value. payloadOnly restricts the choice
// to the addresses inside the command (client / server address of a call, addresses in discovery data).
func c05Semantic(r *rand.Rand, root *c05Node, payloadOnly bool) string {
	var addrs []*c05Node
	var walk func(n *c05Node)
	walk = func(n *c05Node) {
		if n.kind == 1 {
			hasE, hasF, hasD := n.get("entity") != nil, n.get("feature") != nil, n.get("device") != nil
			if (hasE && (hasF || hasD)) || (hasD && hasF) {
				addrs = append(addrs, n)
			}
		}
		for _, k := range n.kids {
			walk(k)
		}
	}
	start := root
	if payloadOnly {
		if pl := root.get("datagram", "payload"); pl != nil {
			start = pl
		}
	}
	walk(start)
	if len(addrs) == 0 {
		walk(root)
	}
	if len(addrs) == 0 {
		return c05Point(r, root)
	}
	a := addrs[r.Intn(len(addrs))]
	num := func(n *c05Node) int {
		if jn, ok := n.val.(json.Number); ok {
			if v, err := jn.Int64(); err == nil {
				return int(v)
			}
		}
		return 0
	}
	switch r.Intn(3) {
	case 0:
		v := []string{"dev0", "dev1", "dev2", "HEMS", "Wallbox", "dev9"}[r.Intn(6)]
		if r.Intn(8) == 0 {
			a.del("device")
			return "sem:device-absent"
		}
		a.set("device", c05Scalar(v))
		return "sem:device"
	case 1:
		e := a.get("entity")
		var cur []int
		if e != nil && e.kind == 2 {
			for _, k := range e.kids {
				cur = append(cur, num(k))
			}
		}
		var nv []int
		switch r.Intn(6) {
		case 0:
			nv = []int{0}
		case 1:
			nv = []int{1}
		case 2:
			nv = []int{1, 1}
		case 3:
			nv = []int{2}
		case 4:
			nv = append(append([]int(nil), cur...), 1)
		default:
			nv = append([]int(nil), cur...)
			if len(nv) > 0 {
				nv[len(nv)-1]++
			}
		}
		ne := &c05Node{kind: 2}
		for _, x := range nv {
			ne.kids = append(ne.kids, c05Scalar(json.Number(fmt.Sprint(x))))
		}
		a.set("entity", ne)
		return "sem:entity"
	default:
		cur := 0
		if f := a.get("feature"); f != nil {
			cur = num(f)
		}
		nv := []int{cur + 1, cur - 1, 0, 1, 2, 3, 4}[r.Intn(7)]
		if nv < 0 {
			nv = 0
		}
		a.set("feature", c05Scalar(json.Number(fmt.Sprint(nv))))
		return "sem:feature"
	}
}

// trackNM notes, after a message of peer `sender`, on which connections the peer's own NodeManagement [0]/0
// stopped resolving. Only the peer itself may announce it away (known finding D28); a connection that loses
// it through another peer's message is a violation.
func (cw *c05World) trackNM(sender int, label string) {
	cw.call("FeatureByAddress on every connection", func() {
		for qi, q := range cw.w.Peers {
			for len(cw.nmGoneBy) <= qi {
				cw.nmGoneBy = append(cw.nmGoneBy, -1)
			}
			gone := rig.IsNil(q.RD.FeatureByAddress(q.NM()))
			sender := sender
			if sender == -2 {
				sender = qi // concurrent phase: the order of the peers' messages is not known, each peer is taken to have done it itself
			}
			switch {
			case gone && cw.nmGoneBy[qi] < 0:
				cw.nmGoneBy[qi] = sender
				cw.note("-> peer %d's own [0]/0 no longer resolves after %s", qi, label)
				if sender != qi {
					cw.c.Violate("health/nodemanagement-of-another-connection-removed", "after a message of peer %d the NodeManagement feature [0]/0 of peer %d's connection no longer resolves (%s)\nhistory:\n  %s", sender, qi, label, strings.Join(cw.hist(), "\n  "))
					cw.c.Witness(cw.hist())
				}
			case !gone && cw.nmGoneBy[qi] >= 0:
				cw.nmGoneBy[qi] = -1 // announced again
			}
		}
	})
}

// deliver hands bytes to the connection of p through one of the entry points.
func (cw *c05World) deliver(p *rig.Peer, b []byte, mode int, label string, valid bool) bool {
	c := cw.c
	switch mode {
	case 0: // p.Raw: recovers and records
		n0 := p.PanicCount()
		if pn := cw.call("HandleSpineMesssage("+label+")", func() { p.Raw(b) }); pn != "" {
			c.Violate("harness-panic", "p.Raw panicked outside its recover: %s", pn)
			return false
		}
		if p.PanicCount() > n0 {
			st := p.Panics[len(p.Panics)-1]
			c.Violate("panic@"+c05Frame(st), "HandleSpineMesssage panicked on %s\n message: %s\n %s\nhistory:\n  %s", label, c05ClipB(b), st, strings.Join(cw.hist(), "\n  "))
			atomic.StoreInt32(&cw.abandoned, 1)
			return false
		}
	case 1: // HandleSpineMesssage with its result
		var err error
		if !cw.stack("panic", "HandleSpineMesssage("+label+") message: "+c05ClipB(b), func() { _, err = p.RD.HandleSpineMesssage(b) }) {
			return false
		}
		if err != nil && strings.HasPrefix(err.Error(), "invalid spine message:") {
			c.Count("panics_recovered_inside_the_stack", 1)
			txt := c05Normalise(err.Error())
			c.Seen("recovered_panic_values", txt)
			if valid {
				c.Count("panics_recovered_inside_the_stack_on_valid_messages", 1)
				c.Seen("recovered_panics_on_valid_messages", c05StateKind(label)+": "+txt)
			}
		}
	default: // the SHIP reader entry point
		sh, ok := p.RD.(c05Shipper)
		if !ok {
			c.Violate("harness-panic", "remote device is no SHIP data reader")
			return false
		}
		if !cw.stack("panic", "HandleShipPayloadMessage("+label+") message: "+c05ClipB(b), func() { sh.HandleShipPayloadMessage(b) }) {
			return false
		}
	}
	return atomic.LoadInt32(&cw.abandoned) == 0
}

// c05StateKind reduces a step label to "state N kind" (evidence classes, not individual steps).
func c05StateKind(label string) string {
	i := strings.Index(label, "(state ")
	j := strings.Index(label, " [")
	if i < 0 || j < i {
		return label
	}
	return strings.Replace(label[i+1:j], ")", "", 1)
}

func c05Normalise(s string) string {
	var sb strings.Builder
	for _, ch := range s {
		if ch >= '0' && ch <= '9' {
			continue
		}
		sb.WriteRune(ch)
	}
	s = sb.String()
	if len(s) > 140 {
		s = s[:140]
	}
	return s
}

func c05ClipB(b []byte) string {
	if len(b) > 900 {
		return fmt.Sprintf("%q… (%d bytes)", b[:900], len(b))
	}
	return fmt.Sprintf("%q", b)
}

// ---------------------------------------------------------------------------
// the case

var c05GCOnce sync.Once

func c05Case(c *rig.Ctx) {
	r := c.Rand
	// A goroutine dump tells how long a goroutine has been parked only if a garbage collection ran after it
	// parked (that is when the runtime stamps it). A blocked case allocates nothing, so collect periodically:
	// the parent's hang classification (parked for over a minute inside spine-go) then sees the wait time.
	c05GCOnce.Do(func() {
		go func() {
			for {
				time.Sleep(4 * time.Second)
				runtime.GC()
			}
		}()
	})
	baseline := runtime.NumGoroutine()
	cw := newC05World(c)
	w := cw.w
	closed := false
	closeWorld := func() {
		if closed {
			return
		}
		closed = true
		if p := cw.call("World.Close (RemoveRemoteDeviceConnection of every peer)", w.Close); p != "" {
			c.Violate("teardown-panic@"+c05Frame(p), "teardown panicked: %s\nhistory:\n  %s", p, strings.Join(cw.hist(), "\n  "))
		}
	}
	defer closeWorld()

	// --- peers in their connection states
	np := 2 + r.Intn(2)
	localReqs := make([]*model.MsgCounterType, np)
	boundLC, boundG := -1, -1
	for i := 0; i < np; i++ {
		p := w.AddPeer(i)
		p.Ctr = uint64(i+1) * 100000
		st := r.Intn(4)
		if cw.approvals > 0 && i == 0 {
			st = 2 + r.Intn(2) // a World with approval callbacks has at least one peer that can be bound
		}
		if cw.aimed && i == 0 {
			st = 2
		}
		if cw.concurrent && st == 0 {
			st = 1 + r.Intn(3) // every peer can deliver replies to local requests
		}
		cw.states = append(cw.states, st)
		feats := c05Feats(cw.lists)
		ok := cw.stack("setup-panic", fmt.Sprintf("setting up peer %d in state %d", i, st), func() {
			if st >= 1 {
				p.Announce(feats)
				if rf := p.RD.FeatureByAddress(rig.FA(p.Addr, []uint{1}, 2)); !rig.IsNil(rf) {
					if mc, err := cw.mcl.RequestRemoteData(model.FunctionTypeMeasurementListData, nil, nil, rf); err == nil && mc != nil {
						localReqs[i] = mc
						_ = cw.mcl.AddResponseCallback(*mc, func(msg api.ResponseMessage) { atomic.AddInt64(&cw.cbRuns, 1) })
					}
					if r.Intn(2) == 0 {
						_, _ = cw.mcl.SubscribeToRemote(rf.Address())
					}
				}
			}
			if st >= 2 {
				p.Subscribe(rig.FA(p.Addr, []uint{1}, 1), cw.lc.Address(), model.FeatureTypeTypeLoadControl)
				p.Subscribe(rig.FA(p.Addr, []uint{1}, 3), cw.gsrv.Address(), model.FeatureTypeTypeGeneric)
				if boundLC < 0 && (cw.approvals > 0 || r.Intn(3) != 0) {
					p.Bind(rig.FA(p.Addr, []uint{1}, 1), cw.lc.Address(), model.FeatureTypeTypeLoadControl)
					boundLC = i
				}
				if boundG < 0 && (cw.approvals > 0 || r.Intn(3) != 0) {
					p.Bind(rig.FA(p.Addr, []uint{1}, 3), cw.gsrv.Address(), model.FeatureTypeTypeGeneric)
					boundG = i
				}
			}
		})
		if !ok {
			c.Witness(cw.hist())
			return
		}
	}
	corp := make([][]c05Msg, np)
	for i, p := range w.Peers {
		corp[i] = cw.corpus(p, localReqs[i])
		if cw.aimed {
			corp[i] = append(corp[i], cw.richWrites(p)...)
		}
	}
	fixtures, skipped := c05Fixtures()
	for _, s := range skipped {
		c.Seen("fixtures_skipped_need_ship_transformation", s)
	}
	// state 3: a valid write is in flight (pending approval in Worlds with callbacks, executed otherwise)
	for i, p := range w.Peers {
		if cw.states[i] != 3 {
			continue
		}
		for _, m := range corp[i] {
			if m.kind == "write-partial" && (boundLC == i || r.Intn(2) == 0) {
				cw.note("peer %d state 3: valid %s", i, m.kind)
				if !cw.deliver(p, m.b, 1, "state-3 "+m.kind, true) {
					c.Witness(cw.hist())
					return
				}
			}
		}
	}
	for _, p := range w.Peers {
		p.Tap.Take()
	}
	w.Core.Take()
	cw.trackNM(-1, "the setup")

	// --- the messages
	nmsg := 10 + r.Intn(11)
	var shape []string
	mutated, decodable, delivered := 0, 0, 0
	pendingCheck := false
	registryKinds := map[string]bool{"binding-request": true, "binding-delete": true, "binding-request-generic": true, "binding-delete-generic": true,
		"subscription-request": true, "subscription-delete": true, "subscription-request-generic": true, "subscription-delete-generic": true}
	type c05Step = c05StepT
	// next draws message k (sender, bytes, entry point); forPeer >= 0 fixes the sender
	next := func(k, forPeer int) c05Step {
		pi := r.Intn(np)
		if forPeer >= 0 {
			pi = forPeer
		}
		pool := append(append([]c05Msg(nil), corp[pi]...), fixtures...)
		semantic := false
		if bound := []int{boundLC, boundG}[r.Intn(2)]; forPeer < 0 && cw.approvals > 0 && bound >= 0 && (r.Intn(2) == 0 || (cw.aimed && r.Intn(8) != 0)) {
			// the approval path runs outside the entry point of the inbound handler: feed it writes of a bound peer
			pi = bound
			pool = nil
			for _, m := range corp[pi] {
				if m.write {
					pool = append(pool, m)
				}
			}
			c.Count("messages_aimed_at_the_approval_path", 1)
		} else if r.Intn(8) == 0 {
			// registry calls of a peer that holds bindings and subscriptions, valid except for ONE address part that is
			// replaced by another valid-looking value (another peer's device, the local device, a neighbouring number)
			if forPeer < 0 {
				var holders []int
				for i, st := range cw.states {
					if st >= 2 {
						holders = append(holders, i)
					}
				}
				if len(holders) > 0 {
					pi = holders[r.Intn(len(holders))]
				}
			}
			pool = nil
			for _, m := range corp[pi] {
				if registryKinds[m.kind] {
					pool = append(pool, m)
				}
			}
			semantic = true
			c.Count("messages_semantic_registry_calls", 1)
		}
		st := c05Step{pi: pi}
		// after a mutated message the next message is a valid one a little more often, so that "the next valid
		// message is handled normally" is exercised right behind the damage and not only by the final sweep
		// (stationary share of mutated messages: 60 %)
		switch {
		case semantic:
			base := pool[r.Intn(len(pool))]
			root := c05Parse(base.b)
			st.mut = c05Semantic(r, root, r.Intn(5) != 0)
			st.b, st.kind = root.bytes(), base.kind
		case (pendingCheck && r.Intn(4) == 0) || r.Intn(100) >= 70:
			m := pool[r.Intn(len(pool))]
			st.b, st.kind, st.mut, st.valid = m.b, m.kind, "valid", true
		default:
			st.b, st.mut, st.kind = c05Mutate(r, pool)
		}
		pendingCheck = !st.valid
		if !st.valid {
			mutated++
			var d model.Datagram
			if json.Unmarshal(st.b, &d) == nil {
				decodable++
				c.Count("mutated_still_a_datagram", 1)
			}
			for _, m := range strings.Split(st.mut, "+") {
				c.Count("mutator:"+strings.TrimPrefix(m, "t:"), 1)
				if strings.HasPrefix(m, "t:") {
					c.Count("mutator_family:targeted", 1)
				}
			}
		}
		st.mode = []int{0, 0, 1, 1, 2}[r.Intn(5)]
		entry := []string{"Raw", "HandleSpineMesssage", "HandleShipPayloadMessage"}[st.mode]
		c.Count("entry:"+entry, 1)
		c.Count("messages", 1)
		c.Count("peer_state:"+fmt.Sprint(cw.states[pi]), 1)
		if st.valid {
			c.Count("valid_messages", 1)
		}
		c.Seen("corpus_kinds", strings.SplitN(st.kind, "|", 2)[0])
		st.label = fmt.Sprintf("#%d peer%d(state %d) %s [%s] via %s", k, pi, cw.states[pi], st.kind, st.mut, entry)
		shape = append(shape, fmt.Sprintf("%d/%s/%s/%d", cw.states[pi], st.kind, st.mut, st.mode))
		return st
	}
	if cw.concurrent {
		// every peer delivers its own sequence on its own goroutine, as the SHIP readers of the connections do
		seqs := make([][]c05Step, np)
		for pi, p := range w.Peers {
			var replies []c05Msg
			if rf := p.RD.FeatureByAddress(rig.FA(p.Addr, []uint{1}, 2)); !rig.IsNil(rf) {
				ok := cw.stack("setup-panic", "requesting data from the peers", func() {
					for q := 0; q < 8; q++ {
						mc, err := cw.mcl.RequestRemoteData(model.FunctionTypeMeasurementListData, nil, nil, rf)
						if err != nil || mc == nil {
							continue
						}
						_ = cw.mcl.AddResponseCallback(*mc, func(msg api.ResponseMessage) { atomic.AddInt64(&cw.cbRuns, 1) })
						ref := *mc
						cmd := model.CmdType{MeasurementListData: &model.MeasurementListDataType{MeasurementData: []model.MeasurementDataType{{MeasurementId: util.Ptr(model.MeasurementIdType(q)), Value: model.NewScaledNumberType(float64(q))}}}}
						b, _ := json.Marshal(rig.Datagram(model.CmdClassifierTypeReply, rig.FA(p.Addr, []uint{1}, 2), cw.mcl.Address(), p.NextCounter(), false, &ref, cmd))
						replies = append(replies, c05Msg{kind: "reply-to-local-request", b: b})
					}
				})
				if !ok {
					c.Witness(cw.hist())
					return
				}
			}
			for k := 0; k < nmsg; k++ {
				if len(replies) > 0 && k%2 == 0 {
					m := replies[0]
					replies = replies[1:]
					seqs[pi] = append(seqs[pi], c05Step{pi: pi, mode: 1, b: m.b, kind: m.kind, mut: "valid", valid: true, label: fmt.Sprintf("#%d peer%d(state %d) %s [valid] via HandleSpineMesssage", k, pi, cw.states[pi], m.kind)})
					c.Count("messages", 1)
					c.Count("valid_messages", 1)
					c.Count("replies_to_local_requests", 1)
					continue
				}
				seqs[pi] = append(seqs[pi], next(k, pi))
			}
			for _, st := range seqs[pi] {
				cw.note("%s :: %s", st.label, c05ClipB(st.b))
			}
		}
		startC := make(chan struct{})
		doneC := make(chan int, np)
		var nDelivered int64
		for pi := range w.Peers {
			go func(pi int) {
				defer func() { doneC <- pi }()
				<-startC
				for _, st := range seqs[pi] {
					if atomic.LoadInt32(&cw.abandoned) != 0 {
						return
					}
					if !cw.deliverDirect(w.Peers[pi], st) {
						return
					}
					atomic.AddInt64(&nDelivered, 1)
				}
			}(pi)
		}
		close(startC)
		waitAll := func(max time.Duration) bool {
			deadline := time.After(max)
			for n := 0; n < np; {
				select {
				case <-doneC:
					n++
				case <-deadline:
					for ; n > 0; n-- { // put back what was consumed so that a later wait sees it again
						doneC <- -1
					}
					return false
				}
			}
			return true
		}
		if !waitAll(c05Watchdog) {
			fmt.Fprintf(os.Stderr, "\n@@STUCK %s: concurrent delivery does not finish; history:\n  %s\n", c.Tag(), strings.Join(cw.hist(), "\n  "))
			if atomic.LoadInt32(&cw.abandoned) == 0 && !waitAll(c05Stuck) {
				c.Inconclusive("concurrent delivery did not finish and the parent did not intervene")
				atomic.StoreInt32(&cw.abandoned, 1)
			} else {
				c.Inconclusive("concurrent delivery took more than %v", c05Watchdog)
			}
		}
		delivered = int(atomic.LoadInt64(&nDelivered))
		if atomic.LoadInt32(&cw.abandoned) != 0 {
			c.Witness(cw.hist())
			return
		}
		cw.trackNM(-2, "the concurrent phase")
	} else {
		for k := 0; k < nmsg; k++ {
			st := next(k, -1)
			cw.note("%s :: %s", st.label, c05ClipB(st.b))
			if !cw.deliver(w.Peers[st.pi], st.b, st.mode, st.label, st.valid) {
				c.Witness(cw.hist())
				return
			}
			delivered++
			cw.trackNM(st.pi, st.label)
			if r.Intn(4) == 0 {
				cw.flushHeld(r)
			}
			if atomic.LoadInt32(&cw.abandoned) != 0 {
				c.Witness(cw.hist())
				return
			}
		}
	}
	c.Events(int64(delivered))
	cw.flushHeld(r)

	// --- health probe on EVERY connection: a valid detailed discovery read yields exactly one reply
	probes, healthy, d28 := 0, 0, 0
	health := func(when string) bool {
		for pi, p := range w.Peers {
			p.Tap.Take()
			var mc model.MsgCounterType
			n0 := p.PanicCount()
			if pn := cw.call(fmt.Sprintf("health probe (%s) on peer %d", when, pi), func() {
				mc = p.Send(model.CmdClassifierTypeRead, p.NM(), rig.LNM, false, nil, model.CmdType{NodeManagementDetailedDiscoveryData: &model.NodeManagementDetailedDiscoveryDataType{}})
			}); pn != "" {
				c.Violate("harness-panic", "health probe: %s", pn)
				return false
			}
			if atomic.LoadInt32(&cw.abandoned) != 0 {
				return false
			}
			if p.PanicCount() > n0 {
				st := p.Panics[len(p.Panics)-1]
				c.Violate("health/panic@"+c05Frame(st), "the health probe (%s) on peer %d panicked: %s\nhistory:\n  %s", when, pi, st, strings.Join(cw.hist(), "\n  "))
				atomic.StoreInt32(&cw.abandoned, 1)
				c.Witness(cw.hist())
				return false
			}
			outs := p.Tap.Take()
			rr := rig.Classify(outs, mc)
			probes++
			c.Events(1)
			okReply := rr.Replies == 1 && rr.Errors == 0 && rr.OtherRef == 0
			var nmGone bool
			cw.call("FeatureByAddress", func() { nmGone = rig.IsNil(p.RD.FeatureByAddress(p.NM())) })
			switch {
			case okReply:
				var hasData bool
				for _, d := range rr.All {
					if len(d.Payload.Cmd) == 1 && d.Payload.Cmd[0].NodeManagementDetailedDiscoveryData != nil && d.Payload.Cmd[0].NodeManagementDetailedDiscoveryData.DeviceInformation != nil {
						hasData = true
					}
				}
				if !hasData {
					c.Violate("health/reply-without-discovery-data", "%s, peer %d (state %d): the reply to the discovery read carries no discovery data: %s\nhistory:\n  %s", when, pi, cw.states[pi], rig.JS(rr.All), strings.Join(cw.hist(), "\n  "))
					c.Witness(cw.hist())
				} else {
					healthy++
					c.Count("health_ok", 1)
				}
			case nmGone && pi < len(cw.nmGoneBy) && cw.nmGoneBy[pi] == pi:
				d28++
				c.Count("health_peer_unannounced_own_nodemanagement", 1)
				c.Violate("health/peer-unannounced-own-nodemanagement", "%s, peer %d (state %d) un-announced its own [0]/0 and is no longer served (%s)\nhistory:\n  %s", when, pi, cw.states[pi], rr, strings.Join(cw.hist(), "\n  "))
			default:
				c.Violate(fmt.Sprintf("health/probe-unanswered/replies=%d,errors=%d", rr.Replies, rr.Errors), "%s, peer %d (state %d): a valid detailed discovery read (counter %d) on a connection whose [0]/0 %s yielded %s, written to the connection: %s\nhistory:\n  %s",
					when, pi, cw.states[pi], mc, map[bool]string{false: "still resolves", true: "was not announced away by this peer itself"}[nmGone], rr, rig.JS(outs), strings.Join(cw.hist(), "\n  "))
				c.Witness(cw.hist())
			}
		}
		return true
	}
	if !health("right after the messages") {
		return
	}

	// --- sweep: valid messages on every connection that take every lock an inbound handler takes
	for pi, p := range w.Peers {
		for _, m := range corp[pi] {
			switch m.kind {
			case "subscription-request", "subscription-delete", "subscription-request-generic", "subscription-delete-generic", "binding-request", "binding-delete", "binding-request-generic", "binding-delete-generic",
				"binding-data-read", "subscription-data-call", "usecase-read", "destinationlist-read",
				"read", "read-selector", "write-full", "write-partial", "notify-partial", "reply", "result-error", "list-read", "discovery-notify-full":
				cw.note("sweep peer%d %s", pi, m.kind)
				c.Count("sweep_messages", 1)
				if !cw.deliver(p, m.b, 1, fmt.Sprintf("sweep peer%d %s", pi, m.kind), true) {
					c.Witness(cw.hist())
					return
				}
				cw.trackNM(pi, "sweep "+m.kind)
			}
		}
	}
	cw.flushHeld(r)
	// what the stack wrote must be decodable datagrams
	for pi, p := range w.Peers {
		if len(p.Tap.Broken) > 0 {
			c.Violate("outbound/undecodable-payload", "peer %d was sent bytes that are no datagram: %q", pi, p.Tap.Broken[0])
		}
	}

	// --- what an application does afterwards: read-only walks must not panic
	if !cw.stack("afterwards/api-panic", "read-only API walk (UseCases, entities, features, data, registries)", func() {
		for _, p := range w.Peers {
			_ = p.RD.UseCases()
			_ = p.RD.Address()
			_ = p.RD.DeviceType()
			_ = p.RD.FeatureSet()
			for _, e := range p.RD.Entities() {
				_, _, _ = e.Address(), e.EntityType(), e.Description()
				for _, f := range e.Features() {
					_, _, _, _ = f.Address(), f.Type(), f.Role(), f.Description()
					_ = f.String()
					for fn := range f.Operations() {
						_ = f.DataCopy(fn)
					}
					_ = f.DataCopy(model.FunctionTypeMeasurementListData)
					_ = f.DataCopy(model.FunctionTypeNodeManagementUseCaseData)
				}
			}
			_ = w.Local.BindingManager().Bindings(p.RD)
			_ = w.Local.SubscriptionManager().Subscriptions(p.RD)
		}
		for _, f := range []api.FeatureLocalInterface{cw.lc, cw.mcl, cw.gsrv, cw.gcl} {
			for _, fn := range f.Functions() {
				_ = f.DataCopy(fn)
			}
			_ = w.Local.BindingManager().BindingsOnFeature(*f.Address())
			_ = w.Local.SubscriptionManager().SubscriptionsOnFeature(*f.Address())
		}
		_ = w.Local.RemoteDevices()
		_ = w.Local.Information()
		_ = w.Local.NodeManagement().DataCopy(model.FunctionTypeNodeManagementUseCaseData)
	}) {
		c.Witness(cw.hist())
		return
	}

	if !health("after the sweep") {
		return
	}

	// --- teardown takes the remaining locks (approval caches, registries, event bus)
	cw.waitTimers()
	closeWorld()
	if atomic.LoadInt32(&cw.abandoned) != 0 {
		return
	}
	// every goroutine the stack spawned for this case must come to an end (a crash is then attributed to this case,
	// and a callback goroutine parked forever inside the stack keeps the case blocked for the parent's watchdog)
	if !rig.WaitQuiet(baseline, c05Watchdog) {
		fmt.Fprintf(os.Stderr, "\n@@STUCK %s: goroutines spawned by the stack do not end (%d > baseline %d); history:\n  %s\n", c.Tag(), runtime.NumGoroutine(), baseline, strings.Join(cw.hist(), "\n  "))
		if rig.WaitQuiet(baseline, c05Stuck) {
			c.Inconclusive("goroutines spawned by the stack took more than %v to end", c05Watchdog)
		} else {
			c.Inconclusive("goroutines spawned by the stack did not end and the parent did not intervene")
		}
	}
	c.Count("callback_goroutines_run", atomic.LoadInt64(&cw.cbRuns))
	if cw.approvals > 0 {
		c.Count("worlds_with_approval_callbacks", 1)
	}
	h := fnv.New64a()
	fmt.Fprintf(h, "%v|%d|%v|%s", cw.states, cw.approvals, cw.policy, strings.Join(shape, ";"))
	c.Shape(fmt.Sprintf("%x", h.Sum64()))
	c.NonTrivial(mutated >= 4 && decodable >= 1 && probes == 2*np)
	hs := cw.hist()
	if len(hs) > 14 {
		hs = hs[:14]
	}
	for i := range hs {
		if len(hs[i]) > 260 {
			hs[i] = hs[i][:260] + "…"
		}
	}
	c.Sample(map[string]any{"peers": np, "peer_states": cw.states, "approval_callbacks_per_server": cw.approvals, "approval_policy": cw.policy, "messages": delivered, "mutated": mutated,
		"mutated_still_decodable": decodable, "health_ok": healthy, "health_d28": d28, "first_steps": hs})
}
