package checks

import (
	"bytes"
	"encoding/json"
	"fmt"
	"hash/fnv"
	"math/rand"
	"os"
	"reflect"
	"runtime"
	"sort"
	"strings"
	"sync"
	"sync/atomic"
	"time"

	"github.com/enbility/spine-go/api"
	"github.com/enbility/spine-go/model"
	"github.com/enbility/spine-go/spine"
	"github.com/enbility/spine-go/util"

	"verifharness/rig"
)

// C05 — no inbound byte sequence can crash or wedge the stack; afterwards a valid detailed-discovery
// read is still answered on every connection.
//
// One case = one World (local LoadControl server, Measurement client, Generic server and client with a
// few randomly chosen list functions, a nested entity [1,1] with a DeviceDiagnosis server and its heartbeat,
// a spare entity [2] the application adds and removes; 2-3 identically numbered peers, each in a random
// connection state, the last one in 40 % of the cases on a connection without writer (mute) or with a
// writer that stalls; every third World with write approval callbacks) that receives 10-20 messages from random
// peers, 60 % of them mutated (structure-aware tree mutators, byte mutators, splices, garbage, deep
// nesting), through HandleSpineMesssage and HandleShipPayloadMessage. Then a sweep of valid messages
// that takes every lock an inbound handler takes, read-only API calls an application makes, the
// health probe on every connection (one reply, addressed to the asking feature, payload equal to the reply
// captured during the setup), and the teardown. A quarter of the cases reconnects a peer in the middle and
// probes it at once, a third connects a fresh peer after the messages; the application calls SetData,
// AddEntity/RemoveEntity, SubscribeToRemote/BindToRemote/RequestRemoteData concurrently with the peers
// (concurrent parts) and once more before the second probe. Every call into the stack runs under a watchdog;
// a call that does not return keeps the case blocked so that the parent reports hang@<frame>.

const (
	c05Watchdog = 20 * time.Second // a single call into the stack takes micro- to milliseconds
	c05Stuck    = 6 * time.Minute  // how long a blocked case stays blocked (the parent dumps and kills after ~80 s)

	c05ShortApproval = 30 * time.Millisecond // approval timeout that expires within a case (the other one is an hour)
)

func init() {
	rig.Register(&rig.Check{
		ID:    "C05",
		Floor: 700,
		Rule: "case = one World with 2-3 identically numbered peers, each in a connection state drawn from {before discovery, after discovery, after binds/subscribes (half of them also subscribed to the local NodeManagement and DeviceDiagnosis), write pending approval}, " +
			"the last peer in 20 % of the cases on a connection without writer (every send fails) and in 20 % on one whose writer stalls for its own reader until the end, a quarter of the cases with a reconnect of peer 0 or 1 before a random message followed at once by a probe, a third with a fresh peer connected after the messages, " +
			"every third World with approval callbacks (policies approve/deny/hold/silent, timeout 30 ms or 1 h), " +
			"10-20 messages from random peers, 60 % mutated: corpus of one valid datagram of every kind for the current World (rig builders: discovery reply/notify partial/full, subscription and binding request/delete calls (to the LoadControl and Generic servers, the local NodeManagement [0]/0, the DeviceDiagnosis server of the nested entity [1,1], a local client feature, the spare entity), datagrams with two different commands, registry reads, use case read/reply/notify, destination list read/reply, read plain/selector/elements, write and notify with each filter shape for LoadControl/Measurement and for three list functions drawn from rig.DiscoverLists() via GenUpdate/Cmd, results) plus the repository's JSON fixtures; " +
			"mutators on the decoded JSON tree (remove, null, {}, [], wrong scalar type, bad string/enum, extreme numbers, duplicate, swap sub-trees, wrap, rename key, nest), targeted structural ones (header address parts, classifier, cmd list, filter/cmdControl, function mismatch, emptied lists), semantic ones (one address part replaced by another valid-looking value, aimed at registry calls of peers that hold bindings), rate-based field dropping, byte truncation/flip/insert/cut, splices, garbage, empty input, deep nesting; " +
			"then the health probe on every connection (exactly one reply, addressed from the asked to the asking feature, canonical payload equal to the reply captured during the setup), a sweep of valid registry/read/write/notify traffic from every peer, every application call once (SetData on four servers, AddEntity/RemoveEntity of the spare entity, SubscribeToRemote, BindToRemote, RequestRemoteData, RemoveRemoteSubscription/Binding), read-only API walks, the health probe again, the release of the stalled writer with a probe of that connection, and the teardown. " +
			"part fuzz: as described; part approval: the same case aimed at writes of a bound peer that the application approves (generated selectors/elements, sparse stored items); parts concurrent / concurrent-race: every peer delivers its sequence on its own goroutine, replies to local requests with response callbacks included, while an application goroutine makes 8-16 of the calls above. " +
			"A case is non-trivial if at least 4 mutated messages were delivered, at least one mutated message still decoded as a datagram, and both health probes were judged on every connection; " +
			"distinct = hash of the sequence (peer state, corpus kind, mutator, delivery entry point) - payload values do not count.",
		Assumptions: []string{
			"'does not return' is decided by the parent's progress watchdog: a call that exceeds 20 s keeps its case blocked, and only a goroutine parked for over a minute inside spine-go makes it hang@<frame>; anything else is inconclusive",
			"a panic in a goroutine the stack spawned kills the worker process and is attributed to the journaled case as crash@<frame>",
			"a peer that un-announced its own NodeManagement feature is the known finding D28 for that peer only. It is recognised by state ([0]/0 no longer resolves in that connection's remote device) AND by the message after which the state appeared: a partial discovery notify that removes [0], a full one that does not list [0], or a reply / partial notify 'added' that lists [0] without a description that makes feature 0 the NodeManagement feature (address [0]/0, type NodeManagement, role special; decided from the decoded message alone). A connection that loses [0]/0 after any other message of its peer is health/nodemanagement-lost-without-unannouncement/<what the message says about [0]>",
			"the connection with the stalled writer: the writer blocks sends made by the connection's own reader goroutine while it handles an inbound message, until the case releases it after the second probe; sends by other goroutines pass (fan-out to a stalled subscriber would otherwise park the sender by design: writes are synchronous), and so do the sends DeviceLocal.HandleEvent makes from inside Events.Publish, which holds the process-wide event mutex while the core handler sends (observed design property, not judged). Only the other connections and the application are judged while it is stalled; the application does not send requests towards it (Sender.Request keeps the sender's mutex while writing). The connection itself is probed after the release",
			"the mute connection cannot be written to: for it only 'the probe returns and does not panic' is judged",
			"no message changes the local device, and the application's calls leave it as it was (the spare entity is removed again), so the discovery reply captured during the setup is what every later reply must say; the order of entities, features and supported functions is not compared. A probe made while the application goroutine runs ignores the spare entity",
			"mutating API calls an application makes while and after the messages arrive (SetData, AddEntity, RemoveEntity, SubscribeToRemote, BindToRemote, RequestRemoteData, RemoveRemoteSubscription, RemoveRemoteBinding) must neither panic nor block: they are part of 'the stack still works'",
			"the application-side call ApproveOrDenyWrite made from the harness's approval callback belongs to message handling: a panic in it is recorded with its frame and the World is abandoned",
			"read-only API calls an application makes after the messages (UseCases, entity/feature walks, DataCopy, registries) must not panic either; they are part of 'the stack still works afterwards'",
			"in the concurrent parts the order of the peers' messages is unknown, so a connection that lost its own [0]/0 there is attributed to its own peer; in the race part every data race report of the stack under inbound traffic is reported (a race on a map aborts the process with a fatal error nobody can recover)",
			"the approval bookkeeping itself belongs to C12: a pending approval that is still registered 3 s after a 30 ms timeout is listed as inconclusive, not judged",
		},
		Parts: []rig.Part{{
			Name:  "fuzz",
			Cases: func(t rig.Tier) int { return map[rig.Tier]int{rig.Quick: 1350, rig.Thorough: 27000}[t] },
			Run:   c05Case,
			Quiet: 40 * time.Second,
			Procs: 2,
		}, {
			// the same case, aimed at the one inbound path that runs outside the inbound entry point: writes of a bound
			// peer that the application approves (ApproveOrDenyWrite executes them on the application's goroutine)
			Name:  "approval",
			Cases: func(t rig.Tier) int { return map[rig.Tier]int{rig.Quick: 400, rig.Thorough: 6000}[t] },
			Run:   c05Case,
			Quiet: 40 * time.Second,
			Procs: 2,
		}, {
			// the same case with every peer delivering on its own goroutine (as the SHIP readers do), replies to local
			// requests with registered response callbacks included: a fatal error of the runtime ("concurrent map
			// writes") cannot be recovered by anybody and shows as crash@<frame>
			Name:  "concurrent",
			Cases: func(t rig.Tier) int { return map[rig.Tier]int{rig.Quick: 400, rig.Thorough: 5000}[t] },
			Run:   c05Case,
			Quiet: 40 * time.Second,
			Procs: 4,
		}, {
			Name:  "concurrent-race",
			Race:  true,
			Cases: func(t rig.Tier) int { return map[rig.Tier]int{rig.Quick: 64, rig.Thorough: 640}[t] },
			Run:   c05Case,
			Quiet: 40 * time.Second,
			Procs: 4,
		}},
	})
}

// ---------------------------------------------------------------------------
// JSON tree with deterministic key order

type c05Node struct {
	kind int // 0 scalar, 1 object, 2 array
	keys []string
	kids []*c05Node
	val  any // string | json.Number | bool | nil
}

func c05FromAny(v any) *c05Node {
	switch x := v.(type) {
	case map[string]any:
		n := &c05Node{kind: 1}
		for k := range x {
			n.keys = append(n.keys, k)
		}
		sort.Strings(n.keys)
		for _, k := range n.keys {
			n.kids = append(n.kids, c05FromAny(x[k]))
		}
		return n
	case []any:
		n := &c05Node{kind: 2}
		for _, e := range x {
			n.kids = append(n.kids, c05FromAny(e))
		}
		return n
	default:
		return &c05Node{val: v}
	}
}

func c05Parse(b []byte) *c05Node {
	dec := json.NewDecoder(bytes.NewReader(b))
	dec.UseNumber()
	var v any
	if err := dec.Decode(&v); err != nil {
		return nil
	}
	return c05FromAny(v)
}

func (n *c05Node) clone() *c05Node {
	c := &c05Node{kind: n.kind, val: n.val, keys: append([]string(nil), n.keys...)}
	for _, k := range n.kids {
		c.kids = append(c.kids, k.clone())
	}
	return c
}

func (n *c05Node) write(sb *bytes.Buffer) {
	switch n.kind {
	case 1:
		sb.WriteByte('{')
		for i, k := range n.keys {
			if i > 0 {
				sb.WriteByte(',')
			}
			kb, _ := json.Marshal(k)
			sb.Write(kb)
			sb.WriteByte(':')
			n.kids[i].write(sb)
		}
		sb.WriteByte('}')
	case 2:
		sb.WriteByte('[')
		for i, k := range n.kids {
			if i > 0 {
				sb.WriteByte(',')
			}
			k.write(sb)
		}
		sb.WriteByte(']')
	default:
		switch x := n.val.(type) {
		case json.Number:
			sb.WriteString(string(x))
		default:
			vb, _ := json.Marshal(x)
			sb.Write(vb)
		}
	}
}

func (n *c05Node) bytes() []byte { var sb bytes.Buffer; n.write(&sb); return sb.Bytes() }

type c05Slot struct {
	parent *c05Node
	idx    int
}

func (n *c05Node) slots(out *[]c05Slot) {
	for i, k := range n.kids {
		*out = append(*out, c05Slot{n, i})
		k.slots(out)
	}
}

func (n *c05Node) get(path ...string) *c05Node {
	cur := n
	for _, p := range path {
		if cur == nil {
			return nil
		}
		found := false
		if cur.kind == 1 {
			for i, k := range cur.keys {
				if k == p {
					cur, found = cur.kids[i], true
					break
				}
			}
		} else if cur.kind == 2 && p == "0" && len(cur.kids) > 0 {
			cur, found = cur.kids[0], true
		}
		if !found {
			return nil
		}
	}
	return cur
}

func (n *c05Node) set(key string, v *c05Node) {
	if n.kind != 1 {
		return
	}
	for i, k := range n.keys {
		if k == key {
			n.kids[i] = v
			return
		}
	}
	n.keys = append(n.keys, key)
	n.kids = append(n.kids, v)
}

func (n *c05Node) del(key string) {
	if n.kind != 1 {
		return
	}
	for i, k := range n.keys {
		if k == key {
			n.keys = append(n.keys[:i:i], n.keys[i+1:]...)
			n.kids = append(n.kids[:i:i], n.kids[i+1:]...)
			return
		}
	}
}

func c05Scalar(v any) *c05Node { return &c05Node{val: v} }

var c05Numbers = []json.Number{"-1", "0", "1", "1e30", "4294967296", "9223372036854775808", "18446744073709551616", "0.5", "-2147483649", "255", "65536", "1e-7", "-0"}
var c05StringsBad = []string{"", "xx", "PT", "9999-99-99", "-P1Y", "P99999999999999Y", "\u0000", "HEMS", "read", "nodeManagementDetailedDiscoveryData", strings.Repeat("a", 300)}

func c05Nest(depth int, obj bool) *c05Node {
	cur := c05Scalar(json.Number("1"))
	for i := 0; i < depth; i++ {
		if obj {
			cur = &c05Node{kind: 1, keys: []string{"entity"}, kids: []*c05Node{cur}}
		} else {
			cur = &c05Node{kind: 2, kids: []*c05Node{cur}}
		}
	}
	return cur
}

var c05PointMutators = []string{"remove", "null", "emptyobj", "emptyarr", "wrongtype", "badstring", "number", "dup", "swap", "wrap", "rename", "nest"}

// c05Point applies one point mutation to a random slot; returns the mutator's name ("" if the tree has no slot).
func c05Point(r *rand.Rand, root *c05Node) string {
	var sl []c05Slot
	root.slots(&sl)
	if len(sl) == 0 {
		return "none"
	}
	s := sl[r.Intn(len(sl))]
	m := c05PointMutators[r.Intn(len(c05PointMutators))]
	cur := s.parent.kids[s.idx]
	switch m {
	case "remove":
		if s.parent.kind == 1 {
			s.parent.keys = append(s.parent.keys[:s.idx:s.idx], s.parent.keys[s.idx+1:]...)
		}
		s.parent.kids = append(s.parent.kids[:s.idx:s.idx], s.parent.kids[s.idx+1:]...)
	case "null":
		s.parent.kids[s.idx] = c05Scalar(nil)
	case "emptyobj":
		s.parent.kids[s.idx] = &c05Node{kind: 1}
	case "emptyarr":
		s.parent.kids[s.idx] = &c05Node{kind: 2}
	case "wrongtype":
		var v any
		switch x := cur.val.(type) {
		case string:
			v = []any{json.Number("7"), true, json.Number("-1.5")}[r.Intn(3)]
			_ = x
		case json.Number:
			v = []any{string(x), true, "seven"}[r.Intn(3)]
		case bool:
			v = []any{"true", json.Number("0"), json.Number("1")}[r.Intn(3)]
		default:
			v = []any{"str", json.Number("3"), false}[r.Intn(3)] // object, array or null becomes a scalar
		}
		s.parent.kids[s.idx] = c05Scalar(v)
	case "badstring":
		if _, ok := cur.val.(string); !ok {
			// find a string slot instead, if any
			var ss []c05Slot
			for _, x := range sl {
				if _, ok := x.parent.kids[x.idx].val.(string); ok && x.parent.kids[x.idx].kind == 0 {
					ss = append(ss, x)
				}
			}
			if len(ss) == 0 {
				return c05Point(r, root)
			}
			s = ss[r.Intn(len(ss))]
		}
		s.parent.kids[s.idx] = c05Scalar(c05StringsBad[r.Intn(len(c05StringsBad))])
	case "number":
		if _, ok := cur.val.(json.Number); !ok {
			var ss []c05Slot
			for _, x := range sl {
				if _, ok := x.parent.kids[x.idx].val.(json.Number); ok {
					ss = append(ss, x)
				}
			}
			if len(ss) == 0 {
				return c05Point(r, root)
			}
			s = ss[r.Intn(len(ss))]
		}
		s.parent.kids[s.idx] = c05Scalar(c05Numbers[r.Intn(len(c05Numbers))])
	case "dup":
		if s.parent.kind == 2 {
			cp := cur.clone()
			s.parent.kids = append(s.parent.kids[:s.idx+1], append([]*c05Node{cp}, s.parent.kids[s.idx+1:]...)...)
		} else {
			s.parent.kids[s.idx] = &c05Node{kind: 2, kids: []*c05Node{cur.clone(), cur.clone()}}
		}
	case "swap":
		o := sl[r.Intn(len(sl))]
		a, b := cur.clone(), o.parent.kids[o.idx].clone()
		s.parent.kids[s.idx], o.parent.kids[o.idx] = b, a
	case "wrap":
		s.parent.kids[s.idx] = &c05Node{kind: 2, kids: []*c05Node{cur.clone()}}
	case "rename":
		if s.parent.kind != 1 {
			return c05Point(r, root)
		}
		s.parent.keys[s.idx] = []string{s.parent.keys[s.idx] + "X", "", "function", "filter", "entity", "cmdControl"}[r.Intn(6)]
	case "nest":
		s.parent.kids[s.idx] = c05Nest([]int{3, 60, 1000, 10050}[r.Intn(4)], r.Intn(2) == 0)
	}
	return m
}

// c05Rate mutates every node with a small probability (the design-time probe's mutator).
func c05Rate(r *rand.Rand, n *c05Node, rate int) {
	for i := 0; i < len(n.kids); i++ {
		p := r.Intn(1000)
		e := n.kids[i]
		switch {
		case p < rate:
			if n.kind == 1 {
				n.keys = append(n.keys[:i:i], n.keys[i+1:]...)
			}
			n.kids = append(n.kids[:i:i], n.kids[i+1:]...)
			i--
		case p < 2*rate:
			n.kids[i] = c05Scalar(nil)
		case p < 3*rate:
			n.kids[i] = &c05Node{kind: 1}
		case p < 4*rate:
			n.kids[i] = &c05Node{kind: 2}
		case p < 5*rate:
			n.kids[i] = c05Scalar("xx")
		case p < 6*rate:
			n.kids[i] = c05Scalar(json.Number("7"))
		case p < 7*rate:
			n.kids[i] = c05Scalar(true)
		case p < 8*rate:
			n.kids[i] = &c05Node{kind: 2, kids: []*c05Node{e.clone(), e.clone()}}
		default:
			if e.kind == 0 {
				switch e.val.(type) {
				case json.Number:
					if r.Intn(1000) < rate {
						n.kids[i] = c05Scalar(c05Numbers[r.Intn(len(c05Numbers))])
					}
				case string:
					if r.Intn(1000) < rate {
						n.kids[i] = c05Scalar(c05StringsBad[r.Intn(len(c05StringsBad))])
					}
				}
			} else {
				c05Rate(r, e, rate)
			}
		}
	}
}

var c05Targeted = []string{"no-src", "no-dst", "no-src-entity", "empty-src-entity", "no-src-feature", "no-dst-entity", "no-dst-feature", "no-classifier", "other-classifier", "unknown-classifier",
	"no-counter", "cmd-empty", "cmd-empty-object", "cmd-twice", "no-payload", "filter-no-cmdcontrol", "filter-empty-cmdcontrol", "filter-empty-list", "filter-both-controls", "function-mismatch",
	"swap-src-dst", "dst-unknown-feature", "src-other-device", "payload-empty-object", "ref-added", "ack-added", "list-emptied", "list-emptied", "list-item-stripped"}

// c05Target applies one structural mutation aimed at the places the statement names.
func c05Target(r *rand.Rand, root *c05Node) string {
	m := c05Targeted[r.Intn(len(c05Targeted))]
	h := root.get("datagram", "header")
	pl := root.get("datagram", "payload")
	if h == nil || pl == nil || h.kind != 1 || pl.kind != 1 {
		return c05Point(r, root)
	}
	cmd0 := pl.get("cmd", "0")
	classifiers := []string{"read", "reply", "notify", "write", "call", "result"}
	switch m {
	case "no-src":
		h.del("addressSource")
	case "no-dst":
		h.del("addressDestination")
	case "no-src-entity":
		if a := h.get("addressSource"); a != nil {
			a.del("entity")
		}
	case "empty-src-entity":
		if a := h.get("addressSource"); a != nil {
			a.set("entity", &c05Node{kind: 2})
		}
	case "no-src-feature":
		if a := h.get("addressSource"); a != nil {
			a.del("feature")
		}
	case "no-dst-entity":
		if a := h.get("addressDestination"); a != nil {
			a.del("entity")
		}
	case "no-dst-feature":
		if a := h.get("addressDestination"); a != nil {
			a.del("feature")
		}
	case "no-classifier":
		h.del("cmdClassifier")
	case "other-classifier":
		h.set("cmdClassifier", c05Scalar(classifiers[r.Intn(len(classifiers))]))
	case "unknown-classifier":
		h.set("cmdClassifier", c05Scalar("shout"))
	case "no-counter":
		h.del("msgCounter")
	case "cmd-empty":
		pl.set("cmd", &c05Node{kind: 2})
	case "cmd-empty-object":
		pl.set("cmd", &c05Node{kind: 2, kids: []*c05Node{{kind: 1}}})
	case "cmd-twice":
		if c := pl.get("cmd"); c != nil && c.kind == 2 && len(c.kids) > 0 {
			c.kids = append(c.kids, c.kids[0].clone())
		}
	case "no-payload":
		root.get("datagram").del("payload")
	case "filter-no-cmdcontrol", "filter-empty-cmdcontrol", "filter-empty-list", "filter-both-controls":
		if cmd0 == nil || cmd0.kind != 1 {
			return c05Point(r, root)
		}
		f := cmd0.get("filter")
		if f == nil || f.kind != 2 || len(f.kids) == 0 {
			f = &c05Node{kind: 2, kids: []*c05Node{{kind: 1, keys: []string{"cmdControl"}, kids: []*c05Node{{kind: 1, keys: []string{"partial"}, kids: []*c05Node{{kind: 1}}}}}}}
			cmd0.set("filter", f)
		}
		for _, fl := range f.kids {
			if fl.kind != 1 {
				continue
			}
			switch m {
			case "filter-no-cmdcontrol":
				fl.del("cmdControl")
			case "filter-empty-cmdcontrol":
				fl.set("cmdControl", &c05Node{kind: 1})
			case "filter-both-controls":
				fl.set("cmdControl", &c05Node{kind: 1, keys: []string{"delete", "partial"}, kids: []*c05Node{{kind: 1}, {kind: 1}}})
			}
		}
		if m == "filter-empty-list" {
			cmd0.set("filter", &c05Node{kind: 2})
		}
	case "function-mismatch":
		if cmd0 != nil {
			cmd0.set("function", c05Scalar([]string{"measurementListData", "loadControlLimitListData", "nodeManagementDetailedDiscoveryData", "resultData", "nope", ""}[r.Intn(6)]))
		}
	case "swap-src-dst":
		a, b := h.get("addressSource"), h.get("addressDestination")
		if a != nil && b != nil {
			h.set("addressSource", b.clone())
			h.set("addressDestination", a.clone())
		}
	case "dst-unknown-feature":
		if a := h.get("addressDestination"); a != nil {
			a.set("feature", c05Scalar(json.Number([]string{"9", "0", "4294967295"}[r.Intn(3)])))
		}
	case "src-other-device":
		if a := h.get("addressSource"); a != nil {
			a.set("device", c05Scalar([]string{"dev0", "dev1", "dev2", "HEMS", ""}[r.Intn(5)]))
		}
	case "payload-empty-object":
		if cmd0 != nil && cmd0.kind == 1 {
			for i, k := range cmd0.keys {
				if k != "function" && k != "filter" {
					cmd0.kids[i] = &c05Node{kind: 1}
				}
			}
		}
	case "list-emptied", "list-item-stripped":
		// the payload's list loses its items (or an item its fields) while function and filters stay
		if cmd0 == nil || cmd0.kind != 1 {
			return c05Point(r, root)
		}
		for i, k := range cmd0.keys {
			if k == "function" || k == "filter" || cmd0.kids[i].kind != 1 {
				continue
			}
			for j, lst := range cmd0.kids[i].kids {
				if lst.kind != 2 {
					continue
				}
				if m == "list-emptied" {
					cmd0.kids[i].kids[j] = &c05Node{kind: 2}
				} else if len(lst.kids) > 0 && lst.kids[0].kind == 1 && len(lst.kids[0].kids) > 0 {
					it := lst.kids[0]
					x := r.Intn(len(it.kids))
					it.keys = append(it.keys[:x:x], it.keys[x+1:]...)
					it.kids = append(it.kids[:x:x], it.kids[x+1:]...)
				}
			}
		}
	case "ref-added":
		h.set("msgCounterReference", c05Scalar(json.Number(fmt.Sprint(r.Intn(20)))))
	case "ack-added":
		h.set("ackRequest", c05Scalar(true))
	}
	return "t:" + m
}

var c05Garbage = []string{"", " ", "null", "[]", "{}", "0", "\"x\"", "true", "{\"datagram\":[]}", "{\"datagram\":null}", "{\"datagram\":{}}", "\x00\xff\xfe", "{\"datagram\":{\"header\":{},\"payload\":{}}}",
	"{\"datagram\":{\"header\":null,\"payload\":{\"cmd\":null}}}", "{\"datagram\":{\"header\":{},\"payload\":{\"cmd\":[null]}}}", "[{\"datagram\":[{\"header\":[]},{\"payload\":[]}]}]", "{\"datagram\":{\"header\":[],\"payload\":[]}}",
	"{\"datagram\":{\"header\":{\"cmdClassifier\":\"read\"},\"payload\":{\"cmd\":[{}]}}}", "\xef\xbb\xbf{}", "{\"datagram\":"}

// ---------------------------------------------------------------------------
// World

type c05Msg struct {
	kind  string
	b     []byte
	write bool // a write the approval callbacks may see
}

type c05StepT struct {
	pi, mode         int
	b                []byte
	label, kind, mut string
	valid            bool
	unann            string // what the message announces away (c05Unannounces)
}

type c05Held struct {
	f   api.FeatureLocalInterface
	msg *api.Message
}

type c05World struct {
	c           *rig.Ctx
	w           *rig.World
	lc, mcl     api.FeatureLocalInterface
	gsrv, gcl   api.FeatureLocalInterface
	lists       []*rig.ListInfo
	states      []int
	nmGoneBy    []int // per peer: -1 while its [0]/0 resolves, else the peer whose message made it vanish
	concurrent  bool  // parts "concurrent*": every peer delivers on its own goroutine
	aimed       bool  // part "approval": approving callbacks, a bound peer, writes with generated filters
	approvals   int   // number of approval callbacks per server feature (0 = none)
	shortTimers bool  // the approval timeout expires within the case
	policy      []int // 0 approve, 1 deny, 2 hold, 3 silent
	cbRuns      int64
	abandoned   int32
	mu          sync.Mutex
	held        []c05Held
	history     []string

	// connection kinds (gap 1): 0 = ordinary tap, 1 = mute (nil writer), 2 = stalled writer
	conn     []int
	stall    *c05StallTap              // the writer of the stalled connection (nil if the case has none)
	stallPi  int                       // index of the stalled peer, -1 if none
	reader   *c05Reader                // the stalled connection's reader goroutine (sequential parts)
	own      [][]string                // per peer: what each of its messages since the (re)connect says about [0] ("cause|class", see c05OwnNote)
	nmCause  []string                  // per peer: why its [0]/0 is gone ("" = by no announcement of its own)
	nmBy     []string                  // per peer: the message after which its [0]/0 was found gone
	baseline string                    // canonical payload of the discovery reply captured during the setup
	dd       api.FeatureLocalInterface // DeviceDiagnosis server on the nested entity [1,1]
	spare    *spine.EntityLocal        // entity [2]: added and removed by the application while messages arrive
	spareF   api.FeatureLocalInterface
	spareIn  bool // owned by whoever runs the application calls
	probes   int64
	healthy  int64
	d28      int64
	rounds   int

	// an application call made from inside a cascade (see c05Window)
	spare2  *spine.EntityLocal // entity [3]: added and removed again by that call
	winBusy int32
	winLeft int32
	winMu   sync.Mutex
	winDone chan struct{}
}

func (cw *c05World) note(format string, a ...any) {
	s := fmt.Sprintf(format, a...)
	if len(s) > 700 {
		s = s[:700] + "…"
	}
	cw.mu.Lock()
	cw.history = append(cw.history, s)
	cw.mu.Unlock()
}

func (cw *c05World) hist() []string {
	cw.mu.Lock()
	defer cw.mu.Unlock()
	return append([]string(nil), cw.history...)
}

func c05Frame(stack string) string {
	fr := rig.InnermostSpineFrame(stack)
	if fr == "" {
		fr = "outside-spine-go"
	}
	return fr
}

// call runs f under the watchdog. A panic is returned with its stack. A call that does not return keeps the
// case blocked (no progress is journaled) so that the parent takes the goroutine dump and decides.
func (cw *c05World) call(what string, f func()) (panicked string) {
	done := make(chan string, 1)
	go func() {
		defer func() {
			if r := recover(); r != nil {
				buf := make([]byte, 16<<10)
				buf = buf[:runtime.Stack(buf, false)]
				done <- fmt.Sprintf("%v\n%s", r, buf)
				return
			}
			done <- ""
		}()
		f()
	}()
	select {
	case p := <-done:
		return p
	case <-time.After(c05Watchdog):
	}
	runtime.GC() // stamps the wait time of the parked goroutine (see c05Case)
	if atomic.LoadInt32(&cw.abandoned) != 0 {
		// a violation is already recorded for this World and locks may be left held: do not wait for it
		cw.c.Inconclusive("%s did not return in the abandoned World", what)
		return ""
	}
	fmt.Fprintf(os.Stderr, "\n@@STUCK %s: %s did not return within %v; history:\n  %s\n", cw.c.Tag(), what, c05Watchdog, strings.Join(cw.hist(), "\n  "))
	select {
	case p := <-done:
		cw.c.Inconclusive("%s took more than %v but returned", what, c05Watchdog)
		return p
	case <-time.After(c05Stuck):
		cw.c.Inconclusive("%s did not return within %v and the parent did not intervene", what, c05Stuck)
		atomic.StoreInt32(&cw.abandoned, 1)
		return ""
	}
}

// stack runs a call into the stack and turns a panic into a violation with the given signature prefix.
func (cw *c05World) stack(sigPrefix, what string, f func()) bool {
	if p := cw.call(what, f); p != "" {
		cw.c.Violate(sigPrefix+"@"+c05Frame(p), "%s panicked: %s\nhistory:\n  %s", what, p, strings.Join(cw.hist(), "\n  "))
		atomic.StoreInt32(&cw.abandoned, 1)
		return false
	}
	return atomic.LoadInt32(&cw.abandoned) == 0
}

func c05Feats(lists []*rig.ListInfo) []rig.FS {
	var gfn []model.FunctionPropertyType
	for _, li := range lists {
		gfn = append(gfn, rig.FnProp(li.Fn, true, true))
	}
	return []rig.FS{rig.NMFS,
		{Ent: []uint{1}, Id: 1, Typ: model.FeatureTypeTypeLoadControl, Role: model.RoleTypeClient, Fns: []model.FunctionPropertyType{rig.FnProp(model.FunctionTypeLoadControlLimitListData, true, false)}},
		{Ent: []uint{1}, Id: 2, Typ: model.FeatureTypeTypeMeasurement, Role: model.RoleTypeServer, Fns: []model.FunctionPropertyType{rig.FnProp(model.FunctionTypeMeasurementListData, true, false)}, Desc: "meter"},
		{Ent: []uint{1}, Id: 3, Typ: model.FeatureTypeTypeGeneric, Role: model.RoleTypeClient},
		{Ent: []uint{1}, Id: 4, Typ: model.FeatureTypeTypeGeneric, Role: model.RoleTypeServer, Fns: gfn},
		{Ent: []uint{1}, Id: 5, Typ: model.FeatureTypeTypeDeviceDiagnosis, Role: model.RoleTypeClient},
		{Ent: []uint{1, 1}, Id: 1, Typ: model.FeatureTypeTypeMeasurement, Role: model.RoleTypeServer}}
}

func c05GenericLists() []*rig.ListInfo {
	var out []*rig.ListInfo
	all := rig.DiscoverLists()
	for i := range all {
		if all[i].FeatureType == model.FeatureTypeTypeGeneric {
			out = append(out, &all[i])
		}
	}
	return out
}

// verdict is the application's answer to an approval request; it runs on a goroutine the stack spawned
// (or on the case's goroutine for held requests) and never swallows a panic silently.
func (cw *c05World) verdict(f api.FeatureLocalInterface, msg *api.Message, approve bool, where string) {
	defer func() {
		if r := recover(); r != nil {
			buf := make([]byte, 16<<10)
			buf = buf[:runtime.Stack(buf, false)]
			atomic.StoreInt32(&cw.abandoned, 1)
			cw.c.Violate("approval-panic@"+c05Frame(string(buf)), "ApproveOrDenyWrite(approve=%v) called from the %s panicked: %v\n%s\nrequest header: %s cmd: %s\nhistory:\n  %s",
				approve, where, r, buf, rig.JS(msg.RequestHeader), rig.JS(msg.Cmd), strings.Join(cw.hist(), "\n  "))
		}
	}()
	e := model.ErrorType{}
	if !approve {
		e = model.ErrorType{ErrorNumber: model.ErrorNumberType(7), Description: util.Ptr(model.DescriptionType("denied by the harness"))}
	}
	f.ApproveOrDenyWrite(msg, e)
}

// approvalCallback is callback number idx of feature f. Its decision depends only on the request (message
// counter) and on idx, never on the order in which the stack's goroutines happen to run.
func (cw *c05World) approvalCallback(f api.FeatureLocalInterface, idx int) api.WriteApprovalCallbackFunc {
	return func(msg *api.Message) {
		atomic.AddInt64(&cw.cbRuns, 1)
		key := uint64(idx)
		if msg != nil && msg.RequestHeader != nil && msg.RequestHeader.MsgCounter != nil {
			key += 7 * uint64(*msg.RequestHeader.MsgCounter)
		}
		switch cw.policy[key%uint64(len(cw.policy))] {
		case 0:
			cw.verdict(f, msg, true, "approval callback")
		case 1:
			cw.verdict(f, msg, false, "approval callback")
		case 2:
			cw.mu.Lock()
			cw.held = append(cw.held, c05Held{f, msg})
			cw.mu.Unlock()
		default: // silent: the stack's timer decides
		}
	}
}

// waitTimers waits until the stack's approval timers of a short-timeout World have fired, by observing their
// effect (no pending approval left). It orders "timer first, late verdict second" without sleeping blindly.
func (cw *c05World) waitTimers() {
	if cw.approvals == 0 || !cw.shortTimers || atomic.LoadInt32(&cw.abandoned) != 0 {
		return
	}
	pending := func() int {
		n := 0
		for _, f := range []api.FeatureLocalInterface{cw.lc, cw.gsrv} {
			if fl, ok := f.(*spine.FeatureLocal); ok {
				p, _ := fl.VerifApprovalState()
				for _, k := range p {
					n += k
				}
			}
		}
		return n
	}
	var ok bool
	cw.call("waiting for the approval timers", func() { ok = rig.WaitFor(3*time.Second, func() bool { return pending() == 0 }) })
	if !ok && atomic.LoadInt32(&cw.abandoned) == 0 {
		// not judged here (C12 owns the approval bookkeeping); the order "timer first" is then not guaranteed for this case
		cw.c.Inconclusive("a pending write approval with a timeout of %v was still registered after 3s", c05ShortApproval)
		cw.shortTimers = false
	}
}

func (cw *c05World) flushHeld(r *rand.Rand) {
	cw.waitTimers()
	cw.mu.Lock()
	held := cw.held
	cw.held = nil
	cw.mu.Unlock()
	for _, h := range held {
		h := h
		approve := r.Intn(3) != 0
		cw.note("application answers a held approval request: approve=%v", approve)
		cw.c.Count("held_approvals_answered", 1)
		cw.call("ApproveOrDenyWrite (held request)", func() { cw.verdict(h.f, h.msg, approve, "case goroutine for a held request") })
	}
}

func newC05World(c *rig.Ctx) *c05World {
	r := c.Rand
	cw := &c05World{c: c, w: rig.NewWorld(c.Tag()), aimed: c.Part == "approval", concurrent: strings.HasPrefix(c.Part, "concurrent")}
	if r.Intn(3) == 0 {
		cw.w.WithAppSink()
	}
	e := cw.w.AddEntity(model.EntityTypeTypeCEM, []uint{1}, 4*time.Second)
	cw.lc = e.GetOrAddFeature(model.FeatureTypeTypeLoadControl, model.RoleTypeServer) // [1]/1
	cw.lc.AddFunctionType(model.FunctionTypeLoadControlLimitListData, true, true)
	cw.lc.AddFunctionType(model.FunctionTypeLoadControlLimitDescriptionListData, true, false)
	cw.mcl = e.GetOrAddFeature(model.FeatureTypeTypeMeasurement, model.RoleTypeClient) // [1]/2
	cw.gsrv = e.GetOrAddFeature(model.FeatureTypeTypeGeneric, model.RoleTypeServer)    // [1]/3
	cw.gcl = e.GetOrAddFeature(model.FeatureTypeTypeGeneric, model.RoleTypeClient)     // [1]/4
	// a nested local entity [1,1] with a DeviceDiagnosis server: its heartbeat manager sets the heartbeat data on a
	// goroutine of the stack once a second (durations on the wire have a resolution of a second), i.e. in a case that
	// takes that long the stack notifies on its own initiative over whatever the messages left
	ne := cw.w.AddEntity(model.EntityTypeTypeEV, []uint{1, 1}, time.Second)
	cw.dd = ne.GetOrAddFeature(model.FeatureTypeTypeDeviceDiagnosis, model.RoleTypeServer) // [1,1]/1
	cw.dd.AddFunctionType(model.FunctionTypeDeviceDiagnosisStateData, true, false)
	cw.dd.AddFunctionType(model.FunctionTypeDeviceDiagnosisHeartbeatData, true, false)
	cw.dd.SetData(model.FunctionTypeDeviceDiagnosisStateData, &model.DeviceDiagnosisStateDataType{OperatingState: util.Ptr(model.DeviceDiagnosisOperatingStateTypeNormalOperation)})
	// the spare entity [2] is not part of the device until the application adds it
	cw.spare = spine.NewEntityLocal(cw.w.Local, model.EntityTypeTypeCEM, spine.NewAddressEntityType([]uint{2}), 0) // same type as [1], on purpose
	cw.spareF = cw.spare.GetOrAddFeature(model.FeatureTypeTypeMeasurement, model.RoleTypeServer)                   // [2]/1
	cw.spareF.AddFunctionType(model.FunctionTypeMeasurementListData, true, false)
	cw.spare2 = spine.NewEntityLocal(cw.w.Local, model.EntityTypeTypeCEM, spine.NewAddressEntityType([]uint{3}), 0)
	cw.spare2.GetOrAddFeature(model.FeatureTypeTypeMeasurement, model.RoleTypeServer).AddFunctionType(model.FunctionTypeMeasurementListData, true, false)
	cw.winLeft = 1
	cw.stallPi = -1
	gl := c05GenericLists()
	for _, i := range r.Perm(len(gl))[:3] {
		cw.lists = append(cw.lists, gl[i])
		cw.gsrv.AddFunctionType(gl[i].Fn, true, true)
	}
	sort.Slice(cw.lists, func(i, j int) bool { return cw.lists[i].Fn < cw.lists[j].Fn })
	// some local data so that reads and partial writes have something to work on
	cw.lc.SetData(model.FunctionTypeLoadControlLimitListData, &model.LoadControlLimitListDataType{LoadControlLimitData: []model.LoadControlLimitDataType{
		{LimitId: util.Ptr(model.LoadControlLimitIdType(1)), IsLimitChangeable: util.Ptr(true), IsLimitActive: util.Ptr(false), Value: model.NewScaledNumberType(10)},
		{LimitId: util.Ptr(model.LoadControlLimitIdType(2)), IsLimitChangeable: util.Ptr(false), Value: model.NewScaledNumberType(20)}}})
	for _, li := range cw.lists {
		if u, ok := li.GenUpdate(r, 0, 3); ok {
			items := rig.CloneItems(u.Items)
			if cw.aimed {
				// sparse items and items without identifiers: every field of the data model is optional
				for k := r.Intn(3); k > 0; k-- {
					items = append(items, li.NewItem(r, -1))
				}
				if r.Intn(2) == 0 {
					items = append(items, reflect.New(li.ElemT).Elem())
				}
			}
			cw.gsrv.SetData(li.Fn, li.MkList(items))
		}
	}
	if c.Index%3 == 0 || cw.aimed {
		cw.approvals = 1 + r.Intn(2)
		for i := 0; i < 6; i++ {
			if cw.aimed {
				cw.policy = append(cw.policy, []int{0, 0, 0, 2}[r.Intn(4)])
			} else {
				cw.policy = append(cw.policy, []int{0, 0, 0, 1, 2, 2, 3}[r.Intn(7)]) // mostly approving: the write is then executed by the application's call
			}
		}
		timeout := []time.Duration{c05ShortApproval, time.Hour}[r.Intn(2)]
		if cw.aimed && r.Intn(4) != 0 {
			timeout = time.Hour
		}
		cw.shortTimers = timeout == c05ShortApproval
		for _, f := range []api.FeatureLocalInterface{cw.lc, cw.gsrv} {
			f.SetWriteApprovalTimeout(timeout)
			for i := 0; i < cw.approvals; i++ {
				_ = f.AddWriteApprovalCallback(cw.approvalCallback(f, i))
			}
		}
	}
	cw.mcl.AddResultCallback(func(msg api.ResponseMessage) { atomic.AddInt64(&cw.cbRuns, 1) })
	cw.gcl.AddResultCallback(func(msg api.ResponseMessage) { atomic.AddInt64(&cw.cbRuns, 1) })
	return cw
}

// corpus builds one valid datagram of every kind for peer p in the current World.
func (cw *c05World) corpus(p *rig.Peer, localReq *model.MsgCounterType) []c05Msg {
	r := cw.c.Rand
	var out []c05Msg
	add := func(kind string, cl model.CmdClassifierType, src, dst *model.FeatureAddressType, ack bool, ref *model.MsgCounterType, cmd model.CmdType) {
		b, err := json.Marshal(rig.Datagram(cl, src, dst, p.NextCounter(), ack, ref, cmd))
		if err != nil {
			panic("harness: corpus " + kind + ": " + err.Error())
		}
		out = append(out, c05Msg{kind: kind, b: b, write: cl == model.CmdClassifierTypeWrite})
	}
	const (
		read, reply, notify, write, call, result = model.CmdClassifierTypeRead, model.CmdClassifierTypeReply, model.CmdClassifierTypeNotify, model.CmdClassifierTypeWrite, model.CmdClassifierTypeCall, model.CmdClassifierTypeResult
	)
	feats := c05Feats(cw.lists)
	ref := util.Ptr(model.MsgCounterType(1))
	nm := p.NM()
	added := model.NetworkManagementStateChangeTypeAdded
	add("discovery-reply", reply, nm, rig.LNM, false, ref, model.CmdType{NodeManagementDetailedDiscoveryData: p.Discovery(feats, nil, nil)})
	add("discovery-notify-partial", notify, nm, rig.LNM, true, nil, model.CmdType{Function: util.Ptr(model.FunctionTypeNodeManagementDetailedDiscoveryData), Filter: []model.FilterType{*model.NewFilterTypePartial()},
		NodeManagementDetailedDiscoveryData: p.Discovery([]rig.FS{{Ent: []uint{2}, Id: 1, Typ: model.FeatureTypeTypeMeasurement, Role: model.RoleTypeServer}}, map[string]model.NetworkManagementStateChangeType{"[2]": added}, [][]uint{{1, 1}})})
	add("discovery-notify-full", notify, nm, rig.LNM, false, nil, model.CmdType{NodeManagementDetailedDiscoveryData: p.Discovery(feats, nil, nil)})
	add("discovery-read", read, nm, rig.LNM, false, nil, model.CmdType{NodeManagementDetailedDiscoveryData: &model.NodeManagementDetailedDiscoveryDataType{}})
	lcCl, msSrv, gCl, gSrv := rig.FA(p.Addr, []uint{1}, 1), rig.FA(p.Addr, []uint{1}, 2), rig.FA(p.Addr, []uint{1}, 3), rig.FA(p.Addr, []uint{1}, 4)
	add("subscription-request", call, nm, rig.LNM, true, nil, model.CmdType{NodeManagementSubscriptionRequestCall: spine.NewNodeManagementSubscriptionRequestCallType(lcCl, cw.lc.Address(), model.FeatureTypeTypeLoadControl)})
	add("subscription-delete", call, nm, rig.LNM, true, nil, model.CmdType{NodeManagementSubscriptionDeleteCall: spine.NewNodeManagementSubscriptionDeleteCallType(lcCl, cw.lc.Address())})
	add("binding-request", call, nm, rig.LNM, true, nil, model.CmdType{NodeManagementBindingRequestCall: spine.NewNodeManagementBindingRequestCallType(lcCl, cw.lc.Address(), model.FeatureTypeTypeLoadControl)})
	add("binding-delete", call, nm, rig.LNM, true, nil, model.CmdType{NodeManagementBindingDeleteCall: spine.NewNodeManagementBindingDeleteCallType(lcCl, cw.lc.Address())})
	add("subscription-request-generic", call, nm, rig.LNM, false, nil, model.CmdType{NodeManagementSubscriptionRequestCall: spine.NewNodeManagementSubscriptionRequestCallType(gCl, cw.gsrv.Address(), model.FeatureTypeTypeGeneric)})
	add("binding-request-generic", call, nm, rig.LNM, false, nil, model.CmdType{NodeManagementBindingRequestCall: spine.NewNodeManagementBindingRequestCallType(gCl, cw.gsrv.Address(), model.FeatureTypeTypeGeneric)})
	add("subscription-delete-generic", call, nm, rig.LNM, true, nil, model.CmdType{NodeManagementSubscriptionDeleteCall: spine.NewNodeManagementSubscriptionDeleteCallType(gCl, cw.gsrv.Address())})
	add("binding-delete-generic", call, nm, rig.LNM, true, nil, model.CmdType{NodeManagementBindingDeleteCall: spine.NewNodeManagementBindingDeleteCallType(gCl, cw.gsrv.Address())})
	add("subscription-data-call", call, nm, rig.LNM, false, nil, model.CmdType{NodeManagementSubscriptionData: &model.NodeManagementSubscriptionDataType{}})
	add("binding-data-read", read, nm, rig.LNM, false, nil, model.CmdType{NodeManagementBindingData: &model.NodeManagementBindingDataType{}})
	add("usecase-read", read, nm, rig.LNM, false, nil, model.CmdType{NodeManagementUseCaseData: &model.NodeManagementUseCaseDataType{}})
	add("usecase-reply", reply, nm, rig.LNM, false, ref, model.CmdType{NodeManagementUseCaseData: &model.NodeManagementUseCaseDataType{UseCaseInformation: []model.UseCaseInformationDataType{{
		Address: rig.FA(p.Addr, []uint{1}, 0), Actor: util.Ptr(model.UseCaseActorTypeEVSE), UseCaseSupport: []model.UseCaseSupportType{{UseCaseName: util.Ptr(model.UseCaseNameTypeEVSECommissioningAndConfiguration), UseCaseAvailable: util.Ptr(true), ScenarioSupport: []model.UseCaseScenarioSupportType{1, 2}}}}}}})
	add("usecase-notify", notify, nm, rig.LNM, false, nil, model.CmdType{NodeManagementUseCaseData: &model.NodeManagementUseCaseDataType{UseCaseInformation: []model.UseCaseInformationDataType{{
		Address: rig.FA(p.Addr, []uint{1}, 0), Actor: util.Ptr(model.UseCaseActorTypeEV), UseCaseSupport: []model.UseCaseSupportType{{UseCaseName: util.Ptr(model.UseCaseNameTypeEVSECommissioningAndConfiguration)}}}}}})
	add("destinationlist-read", read, nm, rig.LNM, false, nil, model.CmdType{NodeManagementDestinationListData: &model.NodeManagementDestinationListDataType{}})
	add("destinationlist-reply", reply, nm, rig.LNM, false, ref, model.CmdType{NodeManagementDestinationListData: &model.NodeManagementDestinationListDataType{NodeManagementDestinationData: []model.NodeManagementDestinationDataType{{
		DeviceDescription: &model.NetworkManagementDeviceDescriptionDataType{DeviceAddress: &model.DeviceAddressType{Device: util.Ptr(model.AddressDeviceType(p.Addr))}}}}}})
	// the subscription every real peer makes: to the local NodeManagement [0]/0 (entity changes are notified to it)
	add("subscription-request-nodemanagement", call, nm, rig.LNM, true, nil, model.CmdType{NodeManagementSubscriptionRequestCall: spine.NewNodeManagementSubscriptionRequestCallType(nm, rig.LNM, model.FeatureTypeTypeNodeManagement)})
	add("subscription-delete-nodemanagement", call, nm, rig.LNM, true, nil, model.CmdType{NodeManagementSubscriptionDeleteCall: spine.NewNodeManagementSubscriptionDeleteCallType(nm, rig.LNM)})
	// registry calls that name a local CLIENT feature as the server
	add("binding-request-to-client-feature", call, nm, rig.LNM, true, nil, model.CmdType{NodeManagementBindingRequestCall: spine.NewNodeManagementBindingRequestCallType(msSrv, cw.mcl.Address(), model.FeatureTypeTypeMeasurement)})
	add("subscription-request-to-client-feature", call, nm, rig.LNM, false, nil, model.CmdType{NodeManagementSubscriptionRequestCall: spine.NewNodeManagementSubscriptionRequestCallType(gSrv, cw.gcl.Address(), model.FeatureTypeTypeGeneric)})
	// the nested local entity [1,1] and its DeviceDiagnosis server (heartbeat)
	ddCl := rig.FA(p.Addr, []uint{1}, 5)
	add("subscription-request-devicediagnosis", call, nm, rig.LNM, true, nil, model.CmdType{NodeManagementSubscriptionRequestCall: spine.NewNodeManagementSubscriptionRequestCallType(ddCl, cw.dd.Address(), model.FeatureTypeTypeDeviceDiagnosis)})
	add("subscription-delete-devicediagnosis", call, nm, rig.LNM, false, nil, model.CmdType{NodeManagementSubscriptionDeleteCall: spine.NewNodeManagementSubscriptionDeleteCallType(ddCl, cw.dd.Address())})
	add("read-nested-entity-heartbeat", read, ddCl, cw.dd.Address(), false, nil, model.CmdType{DeviceDiagnosisHeartbeatData: &model.DeviceDiagnosisHeartbeatDataType{}})
	add("read-nested-entity-state", read, ddCl, cw.dd.Address(), true, nil, model.CmdType{DeviceDiagnosisStateData: &model.DeviceDiagnosisStateDataType{}})
	add("write-nested-entity-readonly", write, ddCl, cw.dd.Address(), true, nil, model.CmdType{DeviceDiagnosisStateData: &model.DeviceDiagnosisStateDataType{OperatingState: util.Ptr(model.DeviceDiagnosisOperatingStateTypeFailure)}})
	// the spare entity [2] exists only while the application has it added
	add("read-spare-entity", read, msSrv, cw.spareF.Address(), false, nil, model.CmdType{MeasurementListData: &model.MeasurementListDataType{}})
	add("subscription-request-spare-entity", call, nm, rig.LNM, true, nil, model.CmdType{NodeManagementSubscriptionRequestCall: spine.NewNodeManagementSubscriptionRequestCallType(gCl, cw.spareF.Address(), model.FeatureTypeTypeMeasurement)})
	// LoadControl: read (plain, selector, elements) and write with each filter shape
	fnL := util.Ptr(model.FunctionTypeLoadControlLimitListData)
	lsel := &model.LoadControlLimitListDataSelectorsType{LimitId: util.Ptr(model.LoadControlLimitIdType(1))}
	add("read", read, lcCl, cw.lc.Address(), false, nil, model.CmdType{LoadControlLimitListData: &model.LoadControlLimitListDataType{}})
	rsel := model.NewFilterTypePartial()
	rsel.LoadControlLimitListDataSelectors = lsel
	add("read-selector", read, lcCl, cw.lc.Address(), false, nil, model.CmdType{Function: fnL, Filter: []model.FilterType{*rsel}, LoadControlLimitListData: &model.LoadControlLimitListDataType{}})
	rel := model.NewFilterTypePartial()
	rel.LoadControlLimitDataElements = &model.LoadControlLimitDataElementsType{Value: &model.ScaledNumberElementsType{}, LimitId: &model.ElementTagType{}}
	add("read-elements", read, lcCl, cw.lc.Address(), true, nil, model.CmdType{Function: fnL, Filter: []model.FilterType{*rel}, LoadControlLimitListData: &model.LoadControlLimitListDataType{}})
	lim := &model.LoadControlLimitListDataType{LoadControlLimitData: []model.LoadControlLimitDataType{{LimitId: util.Ptr(model.LoadControlLimitIdType(1)), IsLimitActive: util.Ptr(true), Value: model.NewScaledNumberType(16), TimePeriod: &model.TimePeriodType{EndTime: model.NewAbsoluteOrRelativeTimeType("PT2H")}}}}
	delS := model.FilterType{CmdControl: &model.CmdControlType{Delete: &model.ElementTagType{}}, LoadControlLimitListDataSelectors: lsel, LoadControlLimitDataElements: &model.LoadControlLimitDataElementsType{Value: &model.ScaledNumberElementsType{}}}
	add("write-full", write, lcCl, cw.lc.Address(), true, nil, model.CmdType{LoadControlLimitListData: lim})
	add("write-partial", write, lcCl, cw.lc.Address(), true, nil, model.CmdType{Function: fnL, Filter: []model.FilterType{*model.NewFilterTypePartial()}, LoadControlLimitListData: lim})
	add("write-partial-selector", write, lcCl, cw.lc.Address(), false, nil, model.CmdType{Function: fnL, Filter: []model.FilterType{*rsel}, LoadControlLimitListData: lim})
	add("write-delete+partial", write, lcCl, cw.lc.Address(), true, nil, model.CmdType{Function: fnL, Filter: []model.FilterType{delS, *model.NewFilterTypePartial()}, LoadControlLimitListData: lim})
	// two DIFFERENT commands in one datagram
	add2 := func(kind string, cl model.CmdClassifierType, src, dst *model.FeatureAddressType, ack bool, cmds ...model.CmdType) {
		d := rig.Datagram(cl, src, dst, p.NextCounter(), ack, nil, cmds[0])
		d.Datagram.Payload.Cmd = append([]model.CmdType(nil), cmds...)
		b, err := json.Marshal(d)
		if err != nil {
			panic("harness: corpus " + kind + ": " + err.Error())
		}
		out = append(out, c05Msg{kind: kind, b: b, write: cl == model.CmdClassifierTypeWrite})
	}
	add2("two-cmds-read", read, lcCl, cw.lc.Address(), false, model.CmdType{LoadControlLimitListData: &model.LoadControlLimitListDataType{}}, model.CmdType{LoadControlLimitDescriptionListData: &model.LoadControlLimitDescriptionListDataType{}})
	add2("two-cmds-write", write, lcCl, cw.lc.Address(), true, model.CmdType{Function: fnL, Filter: []model.FilterType{*model.NewFilterTypePartial()}, LoadControlLimitListData: lim},
		model.CmdType{Function: fnL, Filter: []model.FilterType{delS}, LoadControlLimitListData: &model.LoadControlLimitListDataType{}})
	add2("two-cmds-call", call, nm, rig.LNM, true, model.CmdType{NodeManagementSubscriptionRequestCall: spine.NewNodeManagementSubscriptionRequestCallType(lcCl, cw.lc.Address(), model.FeatureTypeTypeLoadControl)},
		model.CmdType{NodeManagementBindingRequestCall: spine.NewNodeManagementBindingRequestCallType(gCl, cw.gsrv.Address(), model.FeatureTypeTypeGeneric)})
	// Measurement: reply, notify with each filter shape, result
	fnM := util.Ptr(model.FunctionTypeMeasurementListData)
	meas := &model.MeasurementListDataType{MeasurementData: []model.MeasurementDataType{{MeasurementId: util.Ptr(model.MeasurementIdType(1)), ValueType: util.Ptr(model.MeasurementValueTypeTypeValue), Timestamp: model.NewAbsoluteOrRelativeTimeType("2024-01-01T10:00:00Z"),
		Value: model.NewScaledNumberType(1.5), EvaluationPeriod: &model.TimePeriodType{StartTime: model.NewAbsoluteOrRelativeTimeType("PT0S"), EndTime: model.NewAbsoluteOrRelativeTimeType("PT5M")}}}}
	msel := model.NewFilterTypePartial()
	msel.MeasurementListDataSelectors = &model.MeasurementListDataSelectorsType{MeasurementId: util.Ptr(model.MeasurementIdType(1)), ValueType: util.Ptr(model.MeasurementValueTypeTypeValue)}
	mdel := model.FilterType{CmdControl: &model.CmdControlType{Delete: &model.ElementTagType{}}, MeasurementListDataSelectors: &model.MeasurementListDataSelectorsType{MeasurementId: util.Ptr(model.MeasurementIdType(1))}}
	mref := ref
	if localReq != nil {
		mref = localReq
	}
	add("reply", reply, msSrv, cw.mcl.Address(), false, mref, model.CmdType{MeasurementListData: meas})
	add("notify-full", notify, msSrv, cw.mcl.Address(), false, nil, model.CmdType{MeasurementListData: meas})
	add("notify-partial", notify, msSrv, cw.mcl.Address(), true, nil, model.CmdType{Function: fnM, Filter: []model.FilterType{*model.NewFilterTypePartial()}, MeasurementListData: meas})
	add("notify-partial-selector", notify, msSrv, cw.mcl.Address(), false, nil, model.CmdType{Function: fnM, Filter: []model.FilterType{*msel}, MeasurementListData: meas})
	add("notify-delete-selector", notify, msSrv, cw.mcl.Address(), false, nil, model.CmdType{Function: fnM, Filter: []model.FilterType{mdel}, MeasurementListData: &model.MeasurementListDataType{}})
	add("result-error", result, msSrv, cw.mcl.Address(), false, mref, model.CmdType{ResultData: &model.ResultDataType{ErrorNumber: util.Ptr(model.ErrorNumberType(7)), Description: util.Ptr(model.DescriptionType("x"))}})
	add("result-ok-nodemanagement", result, nm, rig.LNM, false, ref, model.CmdType{ResultData: &model.ResultDataType{ErrorNumber: util.Ptr(model.ErrorNumberType(0))}})
	// several list functions through the rig's generators: write to the Generic server, reply/notify to the Generic client
	for _, li := range cw.lists {
		for shape := 0; shape < rig.NumUpdateShapes; shape++ {
			u, ok := li.GenUpdate(r, shape, 3)
			if !ok {
				continue
			}
			cmd := li.Cmd(u)
			switch r.Intn(3) {
			case 0:
				add("list-write/"+u.Kind, write, gCl, cw.gsrv.Address(), r.Intn(2) == 0, nil, cmd)
			case 1:
				add("list-notify/"+u.Kind, notify, gSrv, cw.gcl.Address(), r.Intn(2) == 0, nil, cmd)
			default:
				if u.Kind == "full" {
					add("list-reply/"+u.Kind, reply, gSrv, cw.gcl.Address(), false, ref, cmd)
				} else {
					add("list-write/"+u.Kind, write, gCl, cw.gsrv.Address(), true, nil, cmd)
				}
			}
		}
		add("list-read", read, gCl, cw.gsrv.Address(), false, nil, rig.CmdFor(li.Fn, reflect.New(li.PtrT.Elem()).Interface()))
	}
	return out
}

// richWrites builds writes of peer p to the local servers whose filters carry generated selectors and elements
// (any subset of fields, not only identifiers) and whose lists hold zero to two items with or without identifiers.
func (cw *c05World) richWrites(p *rig.Peer) []c05Msg {
	r := cw.c.Rand
	var out []c05Msg
	type target struct {
		li       *rig.ListInfo
		src, dst *model.FeatureAddressType
	}
	ts := []target{{rig.ListByFn(model.FunctionTypeLoadControlLimitListData), rig.FA(p.Addr, []uint{1}, 1), cw.lc.Address()}}
	for _, li := range cw.lists {
		ts = append(ts, target{li, rig.FA(p.Addr, []uint{1}, 3), cw.gsrv.Address()})
	}
	for _, t := range ts {
		li := t.li
		if li == nil {
			continue
		}
		for v := 0; v < 6; v++ {
			var items []reflect.Value
			for k := r.Intn(3); k > 0; k-- {
				id := r.Intn(4) - 1 // -1: no identifiers
				items = append(items, li.NewItem(r, id))
			}
			cmd := model.CmdType{Function: util.Ptr(li.Fn)}
			cmd.SetDataForFunction(li.Fn, li.MkList(items))
			mk := func(del bool) model.FilterType {
				f := model.FilterType{CmdControl: &model.CmdControlType{}}
				if del {
					f.CmdControl.Delete = &model.ElementTagType{}
				} else {
					f.CmdControl.Partial = &model.ElementTagType{}
				}
				if li.SelT != nil && r.Intn(4) != 0 {
					sel := reflect.New(li.SelT)
					sel.Elem().Set(rig.GenVal(r, li.SelT, 1))
					reflect.ValueOf(&f).Elem().Field(li.SelIdx).Set(sel)
				}
				if li.ElT != nil && r.Intn(2) == 0 {
					el := reflect.New(li.ElT)
					el.Elem().Set(rig.GenVal(r, li.ElT, 1))
					reflect.ValueOf(&f).Elem().Field(li.ElIdx).Set(el)
				}
				return f
			}
			kind := "rich-write/"
			switch r.Intn(3) {
			case 0:
				cmd.Filter, kind = []model.FilterType{mk(false)}, kind+"partial"
			case 1:
				cmd.Filter, kind = []model.FilterType{mk(true)}, kind+"delete"
			default:
				cmd.Filter, kind = []model.FilterType{mk(true), mk(false)}, kind+"delete+partial"
			}
			b, err := json.Marshal(rig.Datagram(model.CmdClassifierTypeWrite, t.src, t.dst, p.NextCounter(), r.Intn(2) == 0, nil, cmd))
			if err != nil {
				panic("harness: rich write: " + err.Error())
			}
			out = append(out, c05Msg{kind: kind, b: b, write: true})
		}
	}
	return out
}

var (
	c05FixOnce sync.Once
	c05Fix     []c05Msg
	c05FixSkip []string
)

func c05Fixtures() ([]c05Msg, []string) {
	c05FixOnce.Do(func() {
		for _, f := range c18FixtureFiles() {
			b, err := os.ReadFile(f)
			if err != nil {
				continue
			}
			var d model.Datagram
			name := f[strings.LastIndex(f, "/")+1:]
			if err := json.Unmarshal(b, &d); err != nil || d.Datagram.Header.CmdClassifier == nil {
				c05FixSkip = append(c05FixSkip, name) // SHIP array-of-objects form: needs ship-go's transformation
				continue
			}
			c05Fix = append(c05Fix, c05Msg{kind: "fixture/" + strings.TrimSuffix(name, ".json"), b: b})
		}
	})
	return c05Fix, c05FixSkip
}

// mutate derives one mutated message; returns the bytes and the mutator label.
func c05Mutate(r *rand.Rand, pool []c05Msg) ([]byte, string, string) {
	base := pool[r.Intn(len(pool))]
	x := r.Intn(100)
	switch {
	case x < 44: // point mutations
		root := c05Parse(base.b)
		k := 1
		if y := r.Intn(100); y >= 85 {
			k = 3 + r.Intn(3)
		} else if y >= 60 {
			k = 2
		}
		var ms []string
		for i := 0; i < k; i++ {
			ms = append(ms, c05Point(r, root))
		}
		return root.bytes(), strings.Join(ms, "+"), base.kind
	case x < 50: // one address part replaced by another valid-looking value
		root := c05Parse(base.b)
		m := c05Semantic(r, root, r.Intn(2) == 0)
		return root.bytes(), m, base.kind
	case x < 58: // targeted structural mutations
		root := c05Parse(base.b)
		m := c05Target(r, root)
		if r.Intn(3) == 0 {
			m += "+" + c05Point(r, root)
		}
		return root.bytes(), m, base.kind
	case x < 76: // rate based
		root := c05Parse(base.b)
		rate := []int{5, 15, 40}[r.Intn(3)]
		c05Rate(r, root, rate)
		return root.bytes(), fmt.Sprintf("rate%d", rate), base.kind
	case x < 83: // bytes
		b := append([]byte(nil), base.b...)
		switch r.Intn(4) {
		case 0:
			return b[:r.Intn(len(b))], "truncate", base.kind
		case 1:
			b[r.Intn(len(b))] = byte(r.Intn(256))
			return b, "byteflip", base.kind
		case 2:
			i := r.Intn(len(b))
			return append(b[:i:i], append([]byte{byte(r.Intn(256))}, b[i:]...)...), "byteinsert", base.kind
		default:
			i := r.Intn(len(b))
			j := i + r.Intn(len(b)-i)
			return append(b[:i:i], b[j:]...), "bytecut", base.kind
		}
	case x < 90: // splice two messages
		other := pool[r.Intn(len(pool))]
		if r.Intn(2) == 0 {
			return append(append([]byte(nil), base.b[:r.Intn(len(base.b))]...), other.b[r.Intn(len(other.b)):]...), "splice-bytes", base.kind + "|" + other.kind
		}
		a, b := c05Parse(base.b), c05Parse(other.b)
		if pa, pb := a.get("datagram"), b.get("datagram", "payload"); pa != nil && pb != nil {
			pa.set("payload", pb.clone())
		}
		return a.bytes(), "splice-header-payload", base.kind + "|" + other.kind
	case x < 95:
		if r.Intn(4) == 0 {
			b := make([]byte, r.Intn(64))
			r.Read(b)
			return b, "random-bytes", "-"
		}
		return []byte(c05Garbage[r.Intn(len(c05Garbage))]), "garbage", "-"
	default: // deep nesting
		root := c05Parse(base.b)
		var sl []c05Slot
		root.slots(&sl)
		s := sl[r.Intn(len(sl))]
		s.parent.kids[s.idx] = c05Nest([]int{40, 2000, 9990, 10050, 30000}[r.Intn(5)], r.Intn(2) == 0)
		return root.bytes(), "deepnest", base.kind
	}
}

type c05Shipper interface{ HandleShipPayloadMessage([]byte) }

// deliverDirect delivers one step on the calling goroutine (concurrent phase: no helper goroutine in between, so
// that the deliveries of the peers really overlap); the phase as a whole is under the watchdog.
func (cw *c05World) deliverDirect(p *rig.Peer, st c05StepT) (ok bool) {
	defer func() {
		if r := recover(); r != nil {
			buf := make([]byte, 16<<10)
			buf = buf[:runtime.Stack(buf, false)]
			atomic.StoreInt32(&cw.abandoned, 1)
			cw.c.Violate("panic@"+c05Frame(string(buf)), "concurrent delivery panicked on %s\n message: %s\n %v\n%s", st.label, c05ClipB(st.b), r, buf)
			ok = false
		}
	}()
	if st.mode == 2 {
		if sh, is := p.RD.(c05Shipper); is {
			sh.HandleShipPayloadMessage(st.b)
			return true
		}
	}
	_, _ = p.RD.HandleSpineMesssage(st.b)
	return true
}

// c05Semantic replaces one part of one address by another valid-looking value. payloadOnly restricts the choice
// to the addresses inside the command (client / server address of a call, addresses in discovery data).
func c05Semantic(r *rand.Rand, root *c05Node, payloadOnly bool) string {
	var addrs []*c05Node
	var walk func(n *c05Node)
	walk = func(n *c05Node) {
		if n.kind == 1 {
			hasE, hasF, hasD := n.get("entity") != nil, n.get("feature") != nil, n.get("device") != nil
			if (hasE && (hasF || hasD)) || (hasD && hasF) {
				addrs = append(addrs, n)
			}
		}
		for _, k := range n.kids {
			walk(k)
		}
	}
	start := root
	if payloadOnly {
		if pl := root.get("datagram", "payload"); pl != nil {
			start = pl
		}
	}
	walk(start)
	if len(addrs) == 0 {
		walk(root)
	}
	if len(addrs) == 0 {
		return c05Point(r, root)
	}
	a := addrs[r.Intn(len(addrs))]
	num := func(n *c05Node) int {
		if jn, ok := n.val.(json.Number); ok {
			if v, err := jn.Int64(); err == nil {
				return int(v)
			}
		}
		return 0
	}
	switch r.Intn(3) {
	case 0:
		v := []string{"dev0", "dev1", "dev2", "HEMS", "Wallbox", "dev9"}[r.Intn(6)]
		if r.Intn(8) == 0 {
			a.del("device")
			return "sem:device-absent"
		}
		a.set("device", c05Scalar(v))
		return "sem:device"
	case 1:
		e := a.get("entity")
		var cur []int
		if e != nil && e.kind == 2 {
			for _, k := range e.kids {
				cur = append(cur, num(k))
			}
		}
		var nv []int
		switch r.Intn(8) {
		case 0:
			nv = []int{0}
		case 1:
			nv = []int{1}
		case 2:
			nv = []int{1, 1}
		case 3:
			nv = []int{2}
		case 4:
			nv = append(append([]int(nil), cur...), 1)
		case 5:
			nv = []int{0, 1} // a sub-entity of [0] that nobody announced
		case 6:
			nv = []int{} // present and empty
		default:
			nv = append([]int(nil), cur...)
			if len(nv) > 0 {
				nv[len(nv)-1]++
			}
		}
		ne := &c05Node{kind: 2}
		for _, x := range nv {
			ne.kids = append(ne.kids, c05Scalar(json.Number(fmt.Sprint(x))))
		}
		a.set("entity", ne)
		return "sem:entity"
	default:
		cur := 0
		if f := a.get("feature"); f != nil {
			cur = num(f)
		}
		nv := []int{cur + 1, cur - 1, 0, 1, 2, 3, 4}[r.Intn(7)]
		if nv < 0 {
			nv = 0
		}
		a.set("feature", c05Scalar(json.Number(fmt.Sprint(nv))))
		return "sem:feature"
	}
}

// trackNM notes, after a message of peer `sender`, on which connections the peer's own NodeManagement [0]/0
// stopped resolving. Only the peer itself may announce it away (known finding D28), and only by one of the three
// announcements the finding describes (c05Unannounces decides that from the message alone, b is the message just
// delivered). A connection that loses it through another peer's message is a violation here; one that loses it
// through a message of its own that announces nothing away is reported by the health probe.
// sender -1: the setup (nobody), -2: the concurrent phase (every loss is looked up in the peer's own messages).
func (cw *c05World) trackNM(sender int, label string, b []byte) {
	cw.call("FeatureByAddress on every connection", func() {
		for qi, q := range cw.w.Peers {
			for len(cw.nmGoneBy) <= qi {
				cw.nmGoneBy = append(cw.nmGoneBy, -1)
				cw.nmCause = append(cw.nmCause, "")
				cw.nmBy = append(cw.nmBy, "")
			}
			for len(cw.own) <= qi {
				cw.own = append(cw.own, nil)
			}
			gone := rig.IsNil(q.RD.FeatureByAddress(q.NM()))
			sender := sender
			// the order in which this connection's messages were handled relative to the others is not known in the
			// concurrent phase and for the connection with the stalled writer (its reader runs on its own goroutine)
			unordered := sender == -2 || (qi == cw.stallPi && sender >= 0)
			if unordered {
				sender = qi
			}
			switch {
			case gone && cw.nmGoneBy[qi] < 0:
				cw.nmGoneBy[qi] = sender
				cause, by := "", label
				if unordered {
					with0 := false
					for _, u := range cw.own[qi] {
						i := strings.Index(u, "|")
						if i > 0 && cause == "" {
							cause = u[:i]
						}
						with0 = with0 || strings.HasSuffix(u, "|after-an-announcement-of-[0]-with-feature-0")
					}
					by = "after-messages-of-its-own-none-of-which-names-[0]: " + label
					if with0 {
						by = "after-messages-of-its-own-one-of-which-announces-[0]-with-feature-0: " + label
					}
				} else if sender == qi {
					var class string
					cause, class = c05Announcement(b)
					by = class + ": " + label + " :: " + fmt.Sprintf("%q", c05Clip(b, 2600))
				}
				cw.nmCause[qi], cw.nmBy[qi] = cause, by
				cw.note("-> peer %d's own [0]/0 no longer resolves after %s (announced away: %q)", qi, label, cause)
				if cause != "" {
					cw.c.Count("nodemanagement_announced_away:"+cause, 1)
				}
				if sender != qi {
					cw.c.Violate("health/nodemanagement-of-another-connection-removed", "after a message of peer %d the NodeManagement feature [0]/0 of peer %d's connection no longer resolves (%s)\nhistory:\n  %s", sender, qi, label, strings.Join(cw.hist(), "\n  "))
					cw.c.Witness(cw.hist())
				}
			case !gone && cw.nmGoneBy[qi] >= 0:
				cw.nmGoneBy[qi] = -1 // announced again
				cw.nmCause[qi], cw.nmBy[qi] = "", ""
			}
		}
	})
}

// deliver hands bytes to the connection of p through one of the entry points.
func (cw *c05World) deliver(p *rig.Peer, b []byte, mode int, label string, valid bool) bool {
	c := cw.c
	switch mode {
	case 0: // p.Raw: recovers and records
		n0 := p.PanicCount()
		if pn := cw.call("HandleSpineMesssage("+label+")", func() { p.Raw(b) }); pn != "" {
			c.Violate("harness-panic", "p.Raw panicked outside its recover: %s", pn)
			return false
		}
		if p.PanicCount() > n0 {
			st := p.Panics[len(p.Panics)-1]
			c.Violate("panic@"+c05Frame(st), "HandleSpineMesssage panicked on %s\n message: %s\n %s\nhistory:\n  %s", label, c05ClipB(b), st, strings.Join(cw.hist(), "\n  "))
			atomic.StoreInt32(&cw.abandoned, 1)
			return false
		}
	case 1: // HandleSpineMesssage with its result
		var err error
		if !cw.stack("panic", "HandleSpineMesssage("+label+") message: "+c05ClipB(b), func() { _, err = p.RD.HandleSpineMesssage(b) }) {
			return false
		}
		if err != nil && strings.HasPrefix(err.Error(), "invalid spine message:") {
			c.Count("panics_recovered_inside_the_stack", 1)
			txt := c05Normalise(err.Error())
			c.Seen("recovered_panic_values", txt)
			if valid {
				c.Count("panics_recovered_inside_the_stack_on_valid_messages", 1)
				c.Seen("recovered_panics_on_valid_messages", c05StateKind(label)+": "+txt)
			}
		}
	default: // the SHIP reader entry point
		sh, ok := p.RD.(c05Shipper)
		if !ok {
			c.Violate("harness-panic", "remote device is no SHIP data reader")
			return false
		}
		if !cw.stack("panic", "HandleShipPayloadMessage("+label+") message: "+c05ClipB(b), func() { sh.HandleShipPayloadMessage(b) }) {
			return false
		}
	}
	return atomic.LoadInt32(&cw.abandoned) == 0
}

// c05StateKind reduces a step label to "state N kind" (evidence classes, not individual steps).
func c05StateKind(label string) string {
	i := strings.Index(label, "(state ")
	j := strings.Index(label, " [")
	if i < 0 || j < i {
		return label
	}
	return strings.Replace(label[i+1:j], ")", "", 1)
}

func c05Normalise(s string) string {
	var sb strings.Builder
	for _, ch := range s {
		if ch >= '0' && ch <= '9' {
			continue
		}
		sb.WriteRune(ch)
	}
	s = sb.String()
	if len(s) > 140 {
		s = s[:140]
	}
	return s
}

func c05Clip(b []byte, n int) []byte {
	if len(b) > n {
		return append(append([]byte(nil), b[:n]...), "…"...)
	}
	return b
}

func c05ClipB(b []byte) string {
	if len(b) > 900 {
		return fmt.Sprintf("%q… (%d bytes)", b[:900], len(b))
	}
	return fmt.Sprintf("%q", b)
}

// ---------------------------------------------------------------------------
// connection kinds beyond the ordinary tap

// c05StallTap is the writer of a connection that does not take what the connection's OWN reader goroutine wants to
// send while it handles an inbound message: the call blocks until the case releases it at its end. Datagrams sent by
// any other goroutine (fan-out from another peer's message, the application, timers, the heartbeat) pass, and so do
// the two requests DeviceLocal.HandleEvent sends from inside Events.Publish (that call holds the process-wide event
// mutex by design, see the assumptions). A peer whose handler is parked in its writer is that peer's own business; what
// is judged is that every OTHER connection and the application keep working meanwhile: a handler that sends while it
// holds a lock other connections need wedges them, and the progress watchdog sees it.
type c05StallTap struct {
	tap     *rig.Tap
	gate    chan struct{}
	armed   int32
	reader  int64 // goroutine id of the connection's reader
	stalled int64 // sends that were held back
	passed  int64 // sends made inside Events.Publish that were let through
}

func c05Goid() int64 {
	var buf [64]byte
	b := buf[:runtime.Stack(buf[:], false)] // "goroutine 123 [running]:..."
	var id int64
	for _, ch := range b[len("goroutine "):] {
		if ch < '0' || ch > '9' {
			break
		}
		id = id*10 + int64(ch-'0')
	}
	return id
}

func (t *c05StallTap) WriteShipMessageWithPayload(m []byte) {
	if atomic.LoadInt32(&t.armed) != 0 && c05Goid() == atomic.LoadInt64(&t.reader) {
		buf := make([]byte, 16<<10)
		buf = buf[:runtime.Stack(buf, false)]
		if bytes.Contains(buf, []byte("spine.(*events).Publish")) {
			atomic.AddInt64(&t.passed, 1)
		} else {
			atomic.AddInt64(&t.stalled, 1)
			<-t.gate
		}
	}
	t.tap.WriteShipMessageWithPayload(m)
}

// c05Reader is the reader goroutine of the stalled connection in the sequential parts: the case enqueues the peer's
// messages and goes on; the reader delivers them in order and parks in the writer at the first answer.
type c05Reader struct {
	q    chan c05StepT
	done chan struct{}
}

func (cw *c05World) startReader(p *rig.Peer) {
	rd := &c05Reader{q: make(chan c05StepT, 256), done: make(chan struct{})}
	cw.reader = rd
	ready := make(chan struct{})
	go func() {
		defer close(rd.done)
		atomic.StoreInt64(&cw.stall.reader, c05Goid())
		close(ready)
		for st := range rd.q {
			if atomic.LoadInt32(&cw.abandoned) != 0 {
				continue
			}
			cw.deliverDirect(p, st)
		}
	}()
	<-ready
}

// release opens the stalled writer and waits (under the watchdog) until the connection's reader has delivered what
// was queued. wait is nil in the concurrent parts, where the caller joins the peer's goroutine itself.
func (cw *c05World) release() {
	if cw.stall == nil || atomic.LoadInt32(&cw.stall.armed) == 0 {
		return
	}
	atomic.StoreInt32(&cw.stall.armed, 0)
	close(cw.stall.gate)
	cw.c.Count("stalled_sends_held_back", atomic.LoadInt64(&cw.stall.stalled))
	cw.c.Count("stalled_sends_passed_inside_publish", atomic.LoadInt64(&cw.stall.passed))
	if atomic.LoadInt64(&cw.stall.stalled) > 0 {
		cw.c.Count("cases_with_a_handler_parked_in_the_stalled_writer", 1)
	}
	if cw.reader != nil {
		close(cw.reader.q)
		rd := cw.reader
		cw.reader = nil
		cw.call("draining the released connection", func() { <-rd.done })
	}
}

// ---------------------------------------------------------------------------
// what the application does while and after the messages arrive (beyond answering approval requests)

type c05AppOp struct {
	kind   int
	ski    string // the peer the call is aimed at (never the one with the stalled writer: Sender.Request keeps the
	addr   string // sender's own mutex while it writes, so a request towards it would wait for the release by design)
	seed   int64
	remove bool
	fn     model.FunctionType // kinds 1 and 6: drawn when the plan is made (the generators run on the case's goroutine only)
	data   any
}

var c05AppKinds = []string{"SetData(LoadControl server)", "SetData(Generic server)", "AddEntity/RemoveEntity(spare entity [2])", "SubscribeToRemote(Measurement)", "BindToRemote(Generic)",
	"RequestRemoteData(Measurement)", "RequestRemoteData(Generic list)", "RemoveRemoteSubscription/RemoveRemoteBinding", "SetData(spare entity)", "SetData(DeviceDiagnosis state)"}

func (op c05AppOp) String() string {
	return fmt.Sprintf("application: %s towards %s", c05AppKinds[op.kind], op.addr)
}

// appPlan draws n application calls (all kinds once if n < 0).
func (cw *c05World) appPlan(r *rand.Rand, n int) []c05AppOp {
	type tg struct{ ski, addr string }
	var tgs []tg
	for pi, p := range cw.w.Peers {
		if pi != cw.stallPi {
			tgs = append(tgs, tg{p.Ski, p.Addr})
		}
	}
	var out []c05AppOp
	mk := func(kind int) {
		t := tgs[r.Intn(len(tgs))]
		op := c05AppOp{kind: kind, ski: t.ski, addr: t.addr, seed: r.Int63(), remove: r.Intn(2) == 0}
		li := cw.lists[r.Intn(len(cw.lists))]
		op.fn = li.Fn
		if kind == 1 {
			if u, ok := li.GenUpdate(r, 0, 3); ok {
				op.data = li.MkList(rig.CloneItems(u.Items))
			}
		}
		out = append(out, op)
	}
	if n < 0 {
		for k := range c05AppKinds {
			mk(k)
			if k == 2 {
				mk(8)
				mk(2) // added, used, removed again
			}
		}
		return out
	}
	for i := 0; i < n; i++ {
		mk(r.Intn(len(c05AppKinds)))
	}
	return out
}

// appDo makes one application call. It runs on the goroutine that owns cw.spareIn; the caller guards it.
func (cw *c05World) appDo(op c05AppOp) {
	ar := rand.New(rand.NewSource(op.seed))
	remote := func(ent []uint, f uint) api.FeatureRemoteInterface {
		rd := cw.w.Local.RemoteDeviceForSki(op.ski)
		if rd == nil {
			return nil // between the two halves of a reconnect
		}
		rf := rd.FeatureByAddress(rig.FA(op.addr, ent, f))
		if rig.IsNil(rf) {
			return nil
		}
		return rf
	}
	switch op.kind {
	case 0:
		cw.lc.SetData(model.FunctionTypeLoadControlLimitListData, &model.LoadControlLimitListDataType{LoadControlLimitData: []model.LoadControlLimitDataType{
			{LimitId: util.Ptr(model.LoadControlLimitIdType(1)), IsLimitChangeable: util.Ptr(true), IsLimitActive: util.Ptr(ar.Intn(2) == 0), Value: model.NewScaledNumberType(float64(ar.Intn(32)))},
			{LimitId: util.Ptr(model.LoadControlLimitIdType(2)), IsLimitChangeable: util.Ptr(false), Value: model.NewScaledNumberType(20)}}})
	case 1:
		if op.data != nil {
			cw.gsrv.SetData(op.fn, op.data)
		}
	case 2:
		if cw.spareIn {
			cw.w.Local.RemoveEntity(cw.spare)
		} else {
			cw.w.Local.AddEntity(cw.spare)
		}
		cw.spareIn = !cw.spareIn
	case 3:
		_, _ = cw.mcl.SubscribeToRemote(rig.FA(op.addr, []uint{1}, 2))
	case 4:
		_, _ = cw.gcl.BindToRemote(rig.FA(op.addr, []uint{1}, 4))
	case 5:
		if rf := remote([]uint{1}, 2); rf != nil {
			_, _ = cw.mcl.RequestRemoteData(model.FunctionTypeMeasurementListData, nil, nil, rf)
		}
	case 6:
		if rf := remote([]uint{1}, 4); rf != nil {
			_, _ = cw.gcl.RequestRemoteData(op.fn, nil, nil, rf)
		}
	case 7:
		if op.remove {
			_, _ = cw.mcl.RemoveRemoteSubscription(rig.FA(op.addr, []uint{1}, 2))
		} else {
			_, _ = cw.gcl.RemoveRemoteBinding(rig.FA(op.addr, []uint{1}, 4))
		}
	case 8:
		cw.spareF.SetData(model.FunctionTypeMeasurementListData, &model.MeasurementListDataType{MeasurementData: []model.MeasurementDataType{{MeasurementId: util.Ptr(model.MeasurementIdType(1)), Value: model.NewScaledNumberType(float64(ar.Intn(100)))}}})
	default:
		cw.dd.SetData(model.FunctionTypeDeviceDiagnosisStateData, &model.DeviceDiagnosisStateDataType{OperatingState: util.Ptr([]model.DeviceDiagnosisOperatingStateType{model.DeviceDiagnosisOperatingStateTypeNormalOperation, model.DeviceDiagnosisOperatingStateTypeStandby}[ar.Intn(2)])})
	}
}

// appGuarded makes the call on the calling goroutine and turns a panic into a violation (concurrent phase: the
// phase as a whole is under the watchdog).
func (cw *c05World) appGuarded(op c05AppOp) (ok bool) {
	defer func() {
		if r := recover(); r != nil {
			buf := make([]byte, 16<<10)
			buf = buf[:runtime.Stack(buf, false)]
			atomic.StoreInt32(&cw.abandoned, 1)
			cw.c.Violate("application-call-panic@"+c05Frame(string(buf)), "%s panicked while the peers deliver: %v\n%s\nhistory:\n  %s", op, r, buf, strings.Join(cw.hist(), "\n  "))
			ok = false
		}
	}()
	cw.appDo(op)
	cw.c.Count("application_calls", 1)
	cw.c.Count("application_call:"+c05AppKinds[op.kind], 1)
	return true
}

// c05Window is a core-level event handler: it is called synchronously from Events.Publish, i.e. INSIDE whatever the
// stack is doing when it publishes. On the first "removed" event of a case (a subscription or binding that goes with
// its entity or device, an entity that is announced away: reconnect, removal notify, teardown) it lets the application
// add and remove an entity and set data on a goroutine of its own, and gives that goroutine a millisecond to run into
// the window before the stack goes on (a scheduling nudge, no verdict depends on it). The stack publishes these events
// from inside its registries' critical sections, which is where an application call that takes the same locks in
// another order meets them. The call is joined under the watchdog before every probe and before the case ends.
type c05Window struct{ cw *c05World }

func (h *c05Window) HandleEvent(p api.EventPayload) {
	cw := h.cw
	if p.ChangeType != api.ElementChangeRemove || !strings.HasPrefix(p.Ski, cw.w.Tag) {
		return
	}
	if p.EventType != api.EventTypeSubscriptionChange && p.EventType != api.EventTypeBindingChange && p.EventType != api.EventTypeEntityChange {
		return
	}
	if !atomic.CompareAndSwapInt32(&cw.winBusy, 0, 1) {
		return
	}
	if atomic.AddInt32(&cw.winLeft, -1) < 0 || atomic.LoadInt32(&cw.abandoned) != 0 {
		atomic.StoreInt32(&cw.winBusy, 0)
		return
	}
	done := make(chan struct{})
	cw.winMu.Lock()
	cw.winDone = done
	cw.winMu.Unlock()
	cw.c.Count("application_calls_inside_a_cascade", 1)
	go func() {
		defer close(done)
		defer atomic.StoreInt32(&cw.winBusy, 0)
		defer func() {
			if r := recover(); r != nil {
				buf := make([]byte, 16<<10)
				buf = buf[:runtime.Stack(buf, false)]
				atomic.StoreInt32(&cw.abandoned, 1)
				cw.c.Violate("application-call-panic@"+c05Frame(string(buf)), "AddEntity/RemoveEntity/SetData called while the stack publishes a removal event panicked: %v\n%s\nhistory:\n  %s", r, buf, strings.Join(cw.hist(), "\n  "))
			}
		}()
		cw.w.Local.AddEntity(cw.spare2)
		cw.w.Local.RemoveEntity(cw.spare2)
		cw.dd.SetData(model.FunctionTypeDeviceDiagnosisStateData, &model.DeviceDiagnosisStateDataType{OperatingState: util.Ptr(model.DeviceDiagnosisOperatingStateTypeStandby)})
	}()
	select {
	case <-done:
	case <-time.After(time.Millisecond):
	}
}

// winWait joins the application call made from inside a cascade, if one is running.
func (cw *c05World) winWait() {
	cw.winMu.Lock()
	done := cw.winDone
	cw.winMu.Unlock()
	if done != nil {
		cw.call("the application's AddEntity/RemoveEntity/SetData made while a removal event was published", func() { <-done })
	}
}

// ---------------------------------------------------------------------------
// what a message announces away, decided from the message alone (known finding D28)

// c05Unannounces returns which of the three announcements the known finding D28 describes the message is: a partial
// discovery notify that removes [0], a full discovery notify that does not list [0], or a discovery reply / partial
// notify "added" that lists [0] without a description of its feature 0. "" for every other message, in particular
// for every message that is no datagram.
func c05Unannounces(b []byte) string {
	cause, _ := c05Announcement(b)
	return cause
}

// c05OwnNote is what is remembered of a message whose place in the order of events is not known: "cause|class".
func c05OwnNote(b []byte) string {
	cause, class := c05Announcement(b)
	return cause + "|" + class
}

// c05Announcement returns, besides the D28 cause, what else the message says about [0] (for the signature of a loss
// that no announcement explains): it lists [0] together with a description of feature 0, it is a discovery message
// that says nothing of the kind about [0], or it carries no discovery data at all.
func c05Announcement(b []byte) (cause, class string) {
	const none = "after-a-message-without-discovery-data"
	var d model.Datagram
	if json.Unmarshal(b, &d) != nil {
		return "", none
	}
	h := d.Datagram.Header
	if h.CmdClassifier == nil || len(d.Datagram.Payload.Cmd) == 0 {
		return "", none
	}
	cmd := d.Datagram.Payload.Cmd[0]
	dd := cmd.NodeManagementDetailedDiscoveryData
	if dd == nil {
		return "", none
	}
	root := func(e []model.AddressEntityType) bool { return len(e) == 1 && e[0] == 0 }
	feature0 := false
	for _, fi := range dd.FeatureInformation {
		// feature 0 counts as announced only if the description makes it the NodeManagement feature: a description
		// of [0]/0 without type or role, or with another type or role, announces the peer's NodeManagement away
		// just as one that leaves it out (the stack skips a description it cannot build a feature from)
		if fi.Description != nil && fi.Description.FeatureAddress != nil && root(fi.Description.FeatureAddress.Entity) && fi.Description.FeatureAddress.Feature != nil && *fi.Description.FeatureAddress.Feature == 0 &&
			fi.Description.FeatureType != nil && *fi.Description.FeatureType == model.FeatureTypeTypeNodeManagement &&
			fi.Description.Role != nil && *fi.Description.Role == model.RoleTypeSpecial {
			feature0 = true
		}
	}
	partial := false
	for _, f := range cmd.Filter {
		if f.CmdControl != nil && f.CmdControl.Partial != nil {
			partial = true
		}
	}
	listed, removed, added := false, false, false
	for _, ei := range dd.EntityInformation {
		if ei.Description == nil || ei.Description.EntityAddress == nil || !root(ei.Description.EntityAddress.Entity) {
			continue
		}
		listed = true
		if sc := ei.Description.LastStateChange; sc != nil {
			removed = removed || *sc == model.NetworkManagementStateChangeTypeRemoved
			added = added || *sc == model.NetworkManagementStateChangeTypeAdded
		}
	}
	const with0, silent = "after-an-announcement-of-[0]-with-feature-0", "after-a-discovery-message-that-announces-nothing-about-[0]"
	switch *h.CmdClassifier {
	case model.CmdClassifierTypeReply:
		if listed && !feature0 {
			return "reply lists [0] without feature 0", ""
		}
		if listed {
			return "", with0
		}
	case model.CmdClassifierTypeNotify:
		switch {
		case partial && removed:
			return "partial notify removes [0]", ""
		case partial && added && !feature0:
			return "partial notify adds [0] without feature 0", ""
		case !partial && !listed:
			return "full notify omits [0]", ""
		case partial && added:
			return "", with0
		}
	}
	return "", silent
}

// ---------------------------------------------------------------------------
// the discovery reply in canonical form

// c05CanonDiscovery renders the payload of a discovery reply independent of list order (the supported functions come
// out of a map). dropSpare leaves out the spare entity [2] (probes made while the application adds and removes it).
func c05CanonDiscovery(d model.DatagramType, dropSpare bool) string {
	if len(d.Payload.Cmd) != 1 {
		return fmt.Sprintf("%d commands", len(d.Payload.Cmd))
	}
	cmd := d.Payload.Cmd[0]
	dd := cmd.NodeManagementDetailedDiscoveryData
	if dd == nil {
		return "no discovery data: " + rig.JS(cmd)
	}
	// entity [3] comes and goes with the application call made from inside a cascade, which may run at any time
	spare := func(e []model.AddressEntityType) bool { return len(e) == 1 && (e[0] == 3 || (dropSpare && e[0] == 2)) }
	var ents, feats []string
	for _, ei := range dd.EntityInformation {
		if ei.Description != nil && ei.Description.EntityAddress != nil && spare(ei.Description.EntityAddress.Entity) {
			continue
		}
		ents = append(ents, rig.JS(ei))
	}
	for _, fi := range dd.FeatureInformation {
		if fi.Description != nil {
			if fi.Description.FeatureAddress != nil && spare(fi.Description.FeatureAddress.Entity) {
				continue
			}
			cp := *fi.Description
			cp.SupportedFunction = append([]model.FunctionPropertyType(nil), cp.SupportedFunction...)
			sort.Slice(cp.SupportedFunction, func(i, j int) bool { return rig.JS(cp.SupportedFunction[i]) < rig.JS(cp.SupportedFunction[j]) })
			fi.Description = &cp
		}
		feats = append(feats, rig.JS(fi))
	}
	sort.Strings(ents)
	sort.Strings(feats)
	extra := ""
	if cmd.Function != nil || len(cmd.Filter) > 0 {
		extra = fmt.Sprintf(" function=%s filter=%s", rig.JS(cmd.Function), rig.JS(cmd.Filter))
	}
	return fmt.Sprintf("versions=%s device=%s entities=[%s] features=[%s]%s", rig.JS(dd.SpecificationVersionList), rig.JS(dd.DeviceInformation), strings.Join(ents, " "), strings.Join(feats, " "), extra)
}

// c05Diff shows where two canonical renderings part.
func c05Diff(a, b string) string {
	i := 0
	for i < len(a) && i < len(b) && a[i] == b[i] {
		i++
	}
	from := i - 80
	if from < 0 {
		from = 0
	}
	clip := func(s string) string {
		to := i + 200
		if to > len(s) {
			to = len(s)
		}
		if from > len(s) {
			return ""
		}
		return s[from:to]
	}
	return fmt.Sprintf("first difference at byte %d (lengths %d / %d)\n   expected …%s…\n   observed …%s…", i, len(a), len(b), clip(a), clip(b))
}

// probe delivers a valid detailed discovery read on connection pi and judges the answer. lenient: the application
// adds and removes the spare entity meanwhile, which is left out of the comparison. false: the World is abandoned.
func (cw *c05World) probe(pi int, when string, lenient bool) bool {
	c, p := cw.c, cw.w.Peers[pi]
	if pi == cw.stallPi && cw.stall != nil && atomic.LoadInt32(&cw.stall.armed) != 0 {
		return true // its reader is (or will be) parked in the writer: probed after the release
	}
	if !lenient {
		cw.winWait() // the entity that call adds is removed again when it returns
	}
	p.Tap.Take()
	var mc model.MsgCounterType
	n0 := p.PanicCount()
	if pn := cw.call(fmt.Sprintf("health probe (%s) on peer %d", when, pi), func() {
		mc = p.Send(model.CmdClassifierTypeRead, p.NM(), rig.LNM, false, nil, model.CmdType{NodeManagementDetailedDiscoveryData: &model.NodeManagementDetailedDiscoveryDataType{}})
	}); pn != "" {
		c.Violate("harness-panic", "health probe: %s", pn)
		return false
	}
	if atomic.LoadInt32(&cw.abandoned) != 0 {
		return false
	}
	if p.PanicCount() > n0 {
		st := p.Panics[len(p.Panics)-1]
		c.Violate("health/panic@"+c05Frame(st), "the health probe (%s) on peer %d panicked: %s\nhistory:\n  %s", when, pi, st, strings.Join(cw.hist(), "\n  "))
		atomic.StoreInt32(&cw.abandoned, 1)
		c.Witness(cw.hist())
		return false
	}
	if cw.conn[pi] == 1 {
		c.Count("health_mute_connection_probe_returned", 1) // nothing can be written to it: only "returns, does not panic" is judged
		return true
	}
	outs := p.Tap.Take()
	rr := rig.Classify(outs, mc)
	atomic.AddInt64(&cw.probes, 1)
	c.Events(1)
	okReply := rr.Replies == 1 && rr.Errors == 0 && rr.OtherRef == 0
	var nmGone bool
	cw.call("FeatureByAddress", func() { nmGone = rig.IsNil(p.RD.FeatureByAddress(p.NM())) })
	ownLoss := pi < len(cw.nmGoneBy) && cw.nmGoneBy[pi] == pi
	switch {
	case okReply:
		d := rr.All[0]
		hasData := len(d.Payload.Cmd) == 1 && d.Payload.Cmd[0].NodeManagementDetailedDiscoveryData != nil && d.Payload.Cmd[0].NodeManagementDetailedDiscoveryData.DeviceInformation != nil
		canon := c05CanonDiscovery(d, lenient)
		switch {
		case !hasData:
			c.Violate("health/reply-without-discovery-data", "%s, peer %d (state %d): the reply to the discovery read carries no discovery data: %s\nhistory:\n  %s", when, pi, cw.states[pi], rig.JS(rr.All), strings.Join(cw.hist(), "\n  "))
			c.Witness(cw.hist())
		case rig.JS(d.Header.AddressSource) != rig.JS(rig.LNM) || rig.JS(d.Header.AddressDestination) != rig.JS(p.NM()):
			// the answer goes from the feature that was asked to the feature that asked
			c.Violate("health/reply-misaddressed", "%s, peer %d (state %d): the discovery read %s -> %s (counter %d) was answered by a reply addressed %s -> %s\nhistory:\n  %s", when, pi, cw.states[pi],
				rig.JS(p.NM()), rig.JS(rig.LNM), mc, rig.JS(d.Header.AddressSource), rig.JS(d.Header.AddressDestination), strings.Join(cw.hist(), "\n  "))
			c.Witness(cw.hist())
		case cw.baseline == "":
			cw.baseline = canon // the setup's first reply; the local device is the same for every peer and is not changed by any message
			atomic.AddInt64(&cw.healthy, 1)
		case canon != cw.baseline:
			c.Violate("health/reply-differs-from-setup", "%s, peer %d (state %d): the reply to the discovery read no longer describes the local device as the reply captured during the setup did (no message changes the local device)\n  %s\nhistory:\n  %s",
				when, pi, cw.states[pi], c05Diff(cw.baseline, canon), strings.Join(cw.hist(), "\n  "))
			c.Witness(cw.hist())
		default:
			atomic.AddInt64(&cw.healthy, 1)
			c.Count("health_ok", 1)
			c.Count("health_reply_payload_and_addressing_compared", 1)
		}
	case nmGone && ownLoss && cw.nmCause[pi] != "":
		atomic.AddInt64(&cw.d28, 1)
		c.Count("health_peer_unannounced_own_nodemanagement", 1)
		c.Violate("health/peer-unannounced-own-nodemanagement", "%s, peer %d (state %d) un-announced its own [0]/0 (%s) and is no longer served (%s)\n by: %s\nhistory:\n  %s", when, pi, cw.states[pi], cw.nmCause[pi], rr, cw.nmBy[pi], strings.Join(cw.hist(), "\n  "))
	case nmGone && ownLoss:
		// the connection lost [0]/0 after a message of its own peer that announces nothing of the kind away
		c.Count("health_nodemanagement_lost_without_unannouncement", 1)
		class := cw.nmBy[pi]
		if i := strings.Index(class, ": "); i >= 0 {
			class = class[:i]
		}
		c.Violate("health/nodemanagement-lost-without-unannouncement/"+class, "%s, peer %d (state %d): [0]/0 of the connection no longer resolves and the peer is no longer served (%s), but no message of the peer removed [0], omitted [0] from a full notification or listed [0] without feature 0\n lost after: %s\nhistory:\n  %s",
			when, pi, cw.states[pi], rr, cw.nmBy[pi], strings.Join(cw.hist(), "\n  "))
		c.Witness(cw.hist())
	default:
		c.Violate(fmt.Sprintf("health/probe-unanswered/replies=%d,errors=%d", rr.Replies, rr.Errors), "%s, peer %d (state %d): a valid detailed discovery read (counter %d) on a connection whose [0]/0 %s yielded %s, written to the connection: %s\nhistory:\n  %s",
			when, pi, cw.states[pi], mc, map[bool]string{false: "still resolves", true: "was not announced away by this peer itself"}[nmGone], rr, rig.JS(outs), strings.Join(cw.hist(), "\n  "))
		c.Witness(cw.hist())
	}
	return true
}

// ---------------------------------------------------------------------------
// the case

var c05GCOnce sync.Once

func c05Case(c *rig.Ctx) {
	r := c.Rand
	// A goroutine dump tells how long a goroutine has been parked only if a garbage collection ran after it
	// parked (that is when the runtime stamps it). A blocked case allocates nothing, so collect periodically:
	// the parent's hang classification (parked for over a minute inside spine-go) then sees the wait time.
	c05GCOnce.Do(func() {
		go func() {
			for {
				time.Sleep(4 * time.Second)
				runtime.GC()
			}
		}()
	})
	baseline := runtime.NumGoroutine()
	cw := newC05World(c)
	w := cw.w
	closed := false
	closeWorld := func() {
		if closed {
			return
		}
		closed = true
		if p := cw.call("World.Close (RemoveRemoteDeviceConnection of every peer)", w.Close); p != "" {
			c.Violate("teardown-panic@"+c05Frame(p), "teardown panicked: %s\nhistory:\n  %s", p, strings.Join(cw.hist(), "\n  "))
		}
	}
	win := &c05Window{cw}
	_ = spine.VerifSubscribeCore(win)
	defer func() { _ = spine.VerifUnsubscribeCore(win) }() // after the teardown, whose cascades are windows too
	defer closeWorld()

	// --- peers in their connection states
	np := 2 + r.Intn(2)
	special := 0 // connection kind of the LAST peer: 0 ordinary, 1 mute (nil writer), 2 stalled writer
	if x := r.Intn(10); x < 2 {
		special = 1
	} else if x < 4 {
		special = 2
	}
	if special != 0 {
		np = 3 // there are always two ordinary connections whose probes are judged
	}
	localReqs := make([]*model.MsgCounterType, np)
	boundLC, boundG := -1, -1
	for i := 0; i < np; i++ {
		var p *rig.Peer
		kind := 0
		if i == np-1 {
			kind = special
		}
		switch kind {
		case 1:
			p = addMutePeer(w, i)
			p.Addr = fmt.Sprintf("dev%d", i) // numbered like every other peer
			w.Peers = append(w.Peers, p)     // World.Close removes its connection
		case 2:
			p = &rig.Peer{Ski: fmt.Sprintf("%s-ski%d", w.Tag, i), Addr: fmt.Sprintf("dev%d", i), Tap: &rig.Tap{}, W: w}
			cw.stall = &c05StallTap{tap: p.Tap, gate: make(chan struct{})}
			cw.stallPi = i
			w.Local.SetupRemoteDevice(p.Ski, cw.stall) // not armed yet: the setup goes through
			p.RD = w.Local.RemoteDeviceForSki(p.Ski)
			w.Peers = append(w.Peers, p)
		default:
			p = w.AddPeer(i)
		}
		cw.conn = append(cw.conn, kind)
		p.Ctr = uint64(i+1) * 100000
		st := r.Intn(4)
		if cw.approvals > 0 && i == 0 {
			st = 2 + r.Intn(2) // a World with approval callbacks has at least one peer that can be bound
		}
		if cw.aimed && i == 0 {
			st = 2
		}
		if (cw.concurrent || kind != 0) && st == 0 {
			st = 1 + r.Intn(3) // every peer can deliver replies to local requests; a mute or stalled peer is one the stack sends to
		}
		cw.states = append(cw.states, st)
		c.Count("connection_kind:"+[]string{"tap", "mute", "stalled"}[kind], 1)
		feats := c05Feats(cw.lists)
		ok := cw.stack("setup-panic", fmt.Sprintf("setting up peer %d in state %d", i, st), func() {
			if st >= 1 {
				p.Announce(feats)
				if rf := p.RD.FeatureByAddress(rig.FA(p.Addr, []uint{1}, 2)); !rig.IsNil(rf) {
					if mc, err := cw.mcl.RequestRemoteData(model.FunctionTypeMeasurementListData, nil, nil, rf); err == nil && mc != nil {
						localReqs[i] = mc
						_ = cw.mcl.AddResponseCallback(*mc, func(msg api.ResponseMessage) { atomic.AddInt64(&cw.cbRuns, 1) })
					}
					if r.Intn(2) == 0 {
						_, _ = cw.mcl.SubscribeToRemote(rf.Address())
					}
				}
			}
			if st >= 2 {
				p.Subscribe(rig.FA(p.Addr, []uint{1}, 1), cw.lc.Address(), model.FeatureTypeTypeLoadControl)
				p.Subscribe(rig.FA(p.Addr, []uint{1}, 3), cw.gsrv.Address(), model.FeatureTypeTypeGeneric)
				if r.Intn(2) == 0 {
					p.Subscribe(p.NM(), rig.LNM, model.FeatureTypeTypeNodeManagement) // entity changes of the local device are notified to it
					p.Subscribe(rig.FA(p.Addr, []uint{1}, 5), cw.dd.Address(), model.FeatureTypeTypeDeviceDiagnosis)
				}
				if boundLC < 0 && (cw.approvals > 0 || r.Intn(3) != 0) {
					p.Bind(rig.FA(p.Addr, []uint{1}, 1), cw.lc.Address(), model.FeatureTypeTypeLoadControl)
					boundLC = i
				}
				if boundG < 0 && (cw.approvals > 0 || r.Intn(3) != 0) {
					p.Bind(rig.FA(p.Addr, []uint{1}, 3), cw.gsrv.Address(), model.FeatureTypeTypeGeneric)
					boundG = i
				}
			}
		})
		if !ok {
			c.Witness(cw.hist())
			return
		}
	}
	if special == 1 && w.Peers[np-1].Tap.Total() != 0 {
		c.Violate("harness-panic", "the mute peer's tap received a datagram: it is not mute")
		return
	}
	corp := make([][]c05Msg, np)
	for i, p := range w.Peers {
		corp[i] = cw.corpus(p, localReqs[i])
		if cw.aimed {
			corp[i] = append(corp[i], cw.richWrites(p)...)
		}
	}
	fixtures, skipped := c05Fixtures()
	for _, s := range skipped {
		c.Seen("fixtures_skipped_need_ship_transformation", s)
	}
	// state 3: a valid write is in flight (pending approval in Worlds with callbacks, executed otherwise)
	for i, p := range w.Peers {
		if cw.states[i] != 3 {
			continue
		}
		for _, m := range corp[i] {
			if m.kind == "write-partial" && (boundLC == i || r.Intn(2) == 0) {
				cw.note("peer %d state 3: valid %s", i, m.kind)
				if !cw.deliver(p, m.b, 1, "state-3 "+m.kind, true) {
					c.Witness(cw.hist())
					return
				}
			}
		}
	}
	for _, p := range w.Peers {
		p.Tap.Take()
	}
	w.Core.Take()
	cw.trackNM(-1, "the setup", nil)
	// the probe on the untouched World: its reply is what every later reply is compared with
	for pi := range w.Peers {
		if !cw.probe(pi, "during the setup", false) {
			return
		}
	}
	if cw.baseline == "" {
		c.Inconclusive("no discovery reply could be captured during the setup")
		return
	}
	if cw.stall != nil {
		atomic.StoreInt32(&cw.stall.armed, 1)
		if !cw.concurrent {
			cw.startReader(w.Peers[cw.stallPi])
		}
		defer cw.release() // runs before closeWorld (deferred earlier): the teardown never meets a parked handler
	}

	// --- the messages
	nmsg := 10 + r.Intn(11)
	var shape []string
	mutated, decodable, delivered := 0, 0, 0
	pendingCheck := false
	registryKinds := map[string]bool{"binding-request": true, "binding-delete": true, "binding-request-generic": true, "binding-delete-generic": true,
		"subscription-request": true, "subscription-delete": true, "subscription-request-generic": true, "subscription-delete-generic": true,
		"subscription-request-nodemanagement": true, "subscription-delete-nodemanagement": true, "subscription-request-devicediagnosis": true, "subscription-delete-devicediagnosis": true,
		"binding-request-to-client-feature": true, "subscription-request-to-client-feature": true}
	type c05Step = c05StepT
	// a reconnect in the middle of the case (an ordinary connection), followed at once by a probe of the new connection
	recPi, recAt, recAnnounce := -1, -1, false
	if r.Intn(4) == 0 {
		recPi, recAt, recAnnounce = r.Intn(2), 1+r.Intn(nmsg-1), r.Intn(2) == 0 // peers 0 and 1 are always ordinary
	}
	// reconnect drops and re-establishes connection pi and probes it; it runs on the goroutine that delivers pi's messages
	reconnect := func(pi int, lenient bool) bool {
		p := w.Peers[pi]
		cw.note("peer %d reconnects (announces itself again: %v)", pi, recAnnounce)
		c.Count("reconnects_in_the_middle", 1)
		if !cw.stack("reconnect-panic", fmt.Sprintf("RemoveRemoteDeviceConnection + SetupRemoteDevice of peer %d", pi), func() { w.Reconnect(p) }) {
			return false
		}
		p.Tap.Take()
		if recAnnounce {
			if !cw.stack("setup-panic", fmt.Sprintf("peer %d announces itself after the reconnect", pi), func() { p.Announce(c05Feats(cw.lists)) }) {
				return false
			}
		}
		return cw.probe(pi, "right after the reconnect", lenient)
	}
	afterReconnect := func(pi int) { // bookkeeping, on the case's goroutine
		cw.states[pi] = 0
		if recAnnounce {
			cw.states[pi] = 1
		}
		if pi < len(cw.nmGoneBy) {
			cw.nmGoneBy[pi], cw.nmCause[pi], cw.nmBy[pi] = -1, "", ""
		}
		if pi < len(cw.own) {
			cw.own[pi] = nil
		}
		if boundLC == pi {
			boundLC = -1
		}
		if boundG == pi {
			boundG = -1
		}
	}
	// next draws message k (sender, bytes, entry point); forPeer >= 0 fixes the sender
	next := func(k, forPeer int) c05Step {
		pi := r.Intn(np)
		if forPeer >= 0 {
			pi = forPeer
		}
		pool := append(append([]c05Msg(nil), corp[pi]...), fixtures...)
		semantic := false
		if bound := []int{boundLC, boundG}[r.Intn(2)]; forPeer < 0 && cw.approvals > 0 && bound >= 0 && (r.Intn(2) == 0 || (cw.aimed && r.Intn(8) != 0)) {
			// the approval path runs outside the entry point of the inbound handler: feed it writes of a bound peer
			pi = bound
			pool = nil
			for _, m := range corp[pi] {
				if m.write {
					pool = append(pool, m)
				}
			}
			c.Count("messages_aimed_at_the_approval_path", 1)
		} else if r.Intn(8) == 0 {
			// registry calls of a peer that holds bindings and subscriptions, valid except for ONE address part that is
			// replaced by another valid-looking value (another peer's device, the local device, a neighbouring number)
			if forPeer < 0 {
				var holders []int
				for i, st := range cw.states {
					if st >= 2 {
						holders = append(holders, i)
					}
				}
				if len(holders) > 0 {
					pi = holders[r.Intn(len(holders))]
				}
			}
			pool = nil
			for _, m := range corp[pi] {
				if registryKinds[m.kind] {
					pool = append(pool, m)
				}
			}
			semantic = true
			c.Count("messages_semantic_registry_calls", 1)
		}
		st := c05Step{pi: pi}
		// after a mutated message the next message is a valid one a little more often, so that "the next valid
		// message is handled normally" is exercised right behind the damage and not only by the final sweep
		// (stationary share of mutated messages: 60 %)
		switch {
		case semantic:
			base := pool[r.Intn(len(pool))]
			root := c05Parse(base.b)
			st.mut = c05Semantic(r, root, r.Intn(5) != 0)
			st.b, st.kind = root.bytes(), base.kind
		case (pendingCheck && r.Intn(4) == 0) || r.Intn(100) >= 70:
			m := pool[r.Intn(len(pool))]
			st.b, st.kind, st.mut, st.valid = m.b, m.kind, "valid", true
		default:
			st.b, st.mut, st.kind = c05Mutate(r, pool)
		}
		pendingCheck = !st.valid
		if !st.valid {
			mutated++
			var d model.Datagram
			if json.Unmarshal(st.b, &d) == nil {
				decodable++
				c.Count("mutated_still_a_datagram", 1)
			}
			for _, m := range strings.Split(st.mut, "+") {
				c.Count("mutator:"+strings.TrimPrefix(m, "t:"), 1)
				if strings.HasPrefix(m, "t:") {
					c.Count("mutator_family:targeted", 1)
				}
			}
		}
		st.mode = []int{0, 0, 1, 1, 2}[r.Intn(5)]
		entry := []string{"Raw", "HandleSpineMesssage", "HandleShipPayloadMessage"}[st.mode]
		c.Count("entry:"+entry, 1)
		c.Count("messages", 1)
		c.Count("peer_state:"+fmt.Sprint(cw.states[pi]), 1)
		if st.valid {
			c.Count("valid_messages", 1)
		}
		c.Seen("corpus_kinds", strings.SplitN(st.kind, "|", 2)[0])
		c.Count("peer_connection:"+[]string{"tap", "mute", "stalled"}[cw.conn[pi]], 1)
		st.unann = c05OwnNote(st.b)
		st.label = fmt.Sprintf("#%d peer%d(state %d%s) %s [%s] via %s", k, pi, cw.states[pi], []string{"", "/mute", "/stalled"}[cw.conn[pi]], st.kind, st.mut, entry)
		shape = append(shape, fmt.Sprintf("%d.%d/%s/%s/%d", cw.states[pi], cw.conn[pi], st.kind, st.mut, st.mode))
		return st
	}
	joinStalled := func() bool { return true } // concurrent parts: joins the goroutine of the stalled connection after the release
	var stalledSettled func() bool // concurrent parts with a stalled connection: its reader is parked in the writer, or done
	if cw.concurrent {
		// every peer delivers its own sequence on its own goroutine, as the SHIP readers of the connections do
		seqs := make([][]c05Step, np)
		for pi, p := range w.Peers {
			var replies []c05Msg
			if rf := p.RD.FeatureByAddress(rig.FA(p.Addr, []uint{1}, 2)); !rig.IsNil(rf) {
				ok := cw.stack("setup-panic", "requesting data from the peers", func() {
					for q := 0; q < 8; q++ {
						mc, err := cw.mcl.RequestRemoteData(model.FunctionTypeMeasurementListData, nil, nil, rf)
						if err != nil || mc == nil {
							continue
						}
						_ = cw.mcl.AddResponseCallback(*mc, func(msg api.ResponseMessage) { atomic.AddInt64(&cw.cbRuns, 1) })
						ref := *mc
						cmd := model.CmdType{MeasurementListData: &model.MeasurementListDataType{MeasurementData: []model.MeasurementDataType{{MeasurementId: util.Ptr(model.MeasurementIdType(q)), Value: model.NewScaledNumberType(float64(q))}}}}
						b, _ := json.Marshal(rig.Datagram(model.CmdClassifierTypeReply, rig.FA(p.Addr, []uint{1}, 2), cw.mcl.Address(), p.NextCounter(), false, &ref, cmd))
						replies = append(replies, c05Msg{kind: "reply-to-local-request", b: b})
					}
				})
				if !ok {
					c.Witness(cw.hist())
					return
				}
			}
			for k := 0; k < nmsg; k++ {
				if len(replies) > 0 && k%2 == 0 {
					m := replies[0]
					replies = replies[1:]
					seqs[pi] = append(seqs[pi], c05Step{pi: pi, mode: 1, b: m.b, kind: m.kind, mut: "valid", valid: true, label: fmt.Sprintf("#%d peer%d(state %d) %s [valid] via HandleSpineMesssage", k, pi, cw.states[pi], m.kind)})
					c.Count("messages", 1)
					c.Count("valid_messages", 1)
					c.Count("replies_to_local_requests", 1)
					continue
				}
				seqs[pi] = append(seqs[pi], next(k, pi))
			}
			for _, st := range seqs[pi] {
				cw.note("%s :: %s", st.label, c05ClipB(st.b))
			}
		}
		// the application works meanwhile on a goroutine of its own: it changes local data (notified to whoever
		// subscribed), adds and removes the spare entity, and subscribes / binds / reads towards the peers
		plan := cw.appPlan(r, 8+r.Intn(9))
		for _, op := range plan {
			cw.note("%s (concurrently)", op)
		}
		startC := make(chan struct{})
		dones := make([]chan struct{}, np+1) // np: the application
		for i := range dones {
			dones[i] = make(chan struct{})
		}
		var nDelivered int64
		for pi := range w.Peers {
			go func(pi int) {
				defer close(dones[pi])
				if pi == cw.stallPi {
					atomic.StoreInt64(&cw.stall.reader, c05Goid()) // this goroutine is the connection's reader
				}
				<-startC
				for k, st := range seqs[pi] {
					if atomic.LoadInt32(&cw.abandoned) != 0 {
						return
					}
					if pi == recPi && k == recAt && !reconnect(pi, true) {
						return
					}
					if !cw.deliverDirect(w.Peers[pi], st) {
						return
					}
					atomic.AddInt64(&nDelivered, 1)
				}
			}(pi)
		}
		go func() {
			defer close(dones[np])
			<-startC
			for _, op := range plan {
				if atomic.LoadInt32(&cw.abandoned) != 0 || !cw.appGuarded(op) {
					return
				}
			}
			if cw.spareIn {
				cw.appGuarded(c05AppOp{kind: 2, addr: "-"}) // the device ends as it began
			}
		}()
		close(startC)
		// join waits for the goroutines named; the one parked in the stalled writer is joined after the release
		join := func(what string, idx []int) bool {
			wait := func(max time.Duration) bool {
				deadline := time.After(max)
				for _, i := range idx {
					select {
					case <-dones[i]:
					case <-deadline:
						return false
					}
				}
				return true
			}
			if !wait(c05Watchdog) {
				fmt.Fprintf(os.Stderr, "\n@@STUCK %s: %s does not finish; history:\n  %s\n", c.Tag(), what, strings.Join(cw.hist(), "\n  "))
				if atomic.LoadInt32(&cw.abandoned) == 0 && !wait(c05Stuck) {
					c.Inconclusive("%s did not finish and the parent did not intervene", what)
					atomic.StoreInt32(&cw.abandoned, 1)
				} else {
					c.Inconclusive("%s took more than %v", what, c05Watchdog)
				}
			}
			return atomic.LoadInt32(&cw.abandoned) == 0
		}
		var others []int
		for i := 0; i <= np; i++ {
			if i != cw.stallPi {
				others = append(others, i)
			}
		}
		ok := join("concurrent delivery (peers and application)", others)
		delivered = int(atomic.LoadInt64(&nDelivered))
		if !ok {
			c.Witness(cw.hist())
			return
		}
		if recPi >= 0 {
			afterReconnect(recPi)
		}
		for pi := range w.Peers {
			from := 0
			if pi == recPi {
				from = recAt
			}
			cw.own[pi] = nil
			for _, st := range seqs[pi][from:] {
				cw.own[pi] = append(cw.own[pi], st.unann)
			}
		}
		cw.trackNM(-2, "the concurrent phase", nil)
		if cw.stallPi >= 0 {
			stalledSettled = func() bool {
				if atomic.LoadInt64(&cw.stall.stalled) > 0 {
					return true
				}
				select {
				case <-dones[cw.stallPi]:
					return true
				default:
					return false
				}
			}
			joinStalled = func() bool {
				ok := join("the released connection's delivery", []int{cw.stallPi})
				delivered = int(atomic.LoadInt64(&nDelivered))
				return ok
			}
		}
	} else {
		for k := 0; k < nmsg; k++ {
			if k == recAt {
				if !reconnect(recPi, false) {
					c.Witness(cw.hist())
					return
				}
				afterReconnect(recPi)
			}
			st := next(k, -1)
			cw.note("%s :: %s", st.label, c05ClipB(st.b))
			cw.own[st.pi] = append(cw.own[st.pi], st.unann)
			if st.pi == cw.stallPi {
				// the connection's reader delivers it; it parks in the writer at the first answer until the release
				cw.reader.q <- st
				c.Count("messages_queued_on_the_stalled_connection", 1)
			} else if !cw.deliver(w.Peers[st.pi], st.b, st.mode, st.label, st.valid) {
				c.Witness(cw.hist())
				return
			}
			delivered++
			cw.trackNM(st.pi, st.label, st.b)
			if r.Intn(4) == 0 {
				cw.flushHeld(r)
			}
			if atomic.LoadInt32(&cw.abandoned) != 0 {
				c.Witness(cw.hist())
				return
			}
		}
	}
	c.Events(int64(delivered))
	cw.flushHeld(r)

	// --- a fresh peer connects after the damage; it is probed like every other connection
	freshOK := true
	if stalledSettled != nil {
		// concurrent parts: the stalled connection's reader goroutine has read w.Peers before it parked in the writer
		// (or finished without ever being held). AddPeer below appends to w.Peers: order that goroutine's reads before
		// the append through its own atomic counter or its done channel (harness-side happens-before edge; without it
		// the race detector rightly reports the harness, once in 38 640 thorough cases)
		freshOK = rig.WaitFor(3*time.Second, stalledSettled)
		if !freshOK {
			c.Count("fresh_peers_skipped:stalled_reader_neither_parked_nor_done", 1)
		}
	}
	if r.Intn(3) == 0 && freshOK {
		fi := len(w.Peers)
		announce := r.Intn(2) == 0
		cw.note("a fresh peer %d connects after the messages (announces itself: %v)", fi, announce)
		c.Count("fresh_peers_after_the_messages", 1)
		if !cw.stack("fresh-peer-panic", fmt.Sprintf("SetupRemoteDevice of the fresh peer %d", fi), func() {
			p := w.AddPeer(fi)
			p.Ctr = uint64(fi+1) * 100000
			if announce {
				p.Announce(c05Feats(cw.lists))
			}
		}) {
			c.Witness(cw.hist())
			return
		}
		cw.conn = append(cw.conn, 0)
		cw.states = append(cw.states, map[bool]int{false: 0, true: 1}[announce])
		cw.trackNM(fi, "the fresh peer's setup", nil)
	}

	// --- health probe on EVERY connection: a valid detailed discovery read yields exactly one reply, addressed to
	// the asking feature, whose payload equals the one captured during the setup
	health := func(when string) bool {
		for pi := range w.Peers {
			if !cw.probe(pi, when, false) {
				return false
			}
		}
		cw.rounds++
		return true
	}
	if !health("right after the messages") {
		return
	}

	// --- sweep: valid messages on every connection that take every lock an inbound handler takes
	for pi, p := range w.Peers {
		if pi >= len(corp) || pi == cw.stallPi {
			continue // the fresh peer has no corpus; the stalled connection's reader is parked
		}
		for _, m := range corp[pi] {
			switch m.kind {
			case "subscription-request", "subscription-delete", "subscription-request-generic", "subscription-delete-generic", "binding-request", "binding-delete", "binding-request-generic", "binding-delete-generic",
				"binding-data-read", "subscription-data-call", "usecase-read", "destinationlist-read",
				"read", "read-selector", "write-full", "write-partial", "notify-partial", "reply", "result-error", "list-read", "discovery-notify-full",
				"subscription-request-nodemanagement", "subscription-delete-nodemanagement", "binding-request-to-client-feature", "subscription-request-devicediagnosis", "subscription-delete-devicediagnosis",
				"read-nested-entity-heartbeat", "read-spare-entity", "two-cmds-read", "two-cmds-write":
				cw.note("sweep peer%d %s", pi, m.kind)
				c.Count("sweep_messages", 1)
				if !cw.deliver(p, m.b, 1, fmt.Sprintf("sweep peer%d %s", pi, m.kind), true) {
					c.Witness(cw.hist())
					return
				}
				cw.trackNM(pi, "sweep "+m.kind, m.b)
			}
		}
	}
	cw.flushHeld(r)
	// --- the application makes every call once more over whatever the messages left (local data changes that are
	// notified, an entity added and removed, subscribe / bind / read towards the peers), each under the watchdog
	for _, op := range cw.appPlan(r, -1) {
		op := op
		cw.note("%s", op)
		if !cw.stack("afterwards/application-call-panic", op.String(), func() { cw.appDo(op) }) {
			c.Witness(cw.hist())
			return
		}
		c.Count("application_calls", 1)
		c.Count("application_call:"+c05AppKinds[op.kind], 1)
	}
	if cw.spareIn {
		c.Violate("harness-panic", "the spare entity is still part of the device after the application's calls")
		return
	}
	// what the stack wrote must be decodable datagrams
	for pi, p := range w.Peers {
		if len(p.Tap.Broken) > 0 {
			c.Violate("outbound/undecodable-payload", "peer %d was sent bytes that are no datagram: %q", pi, p.Tap.Broken[0])
		}
	}

	// --- what an application does afterwards: read-only walks must not panic
	if !cw.stack("afterwards/api-panic", "read-only API walk (UseCases, entities, features, data, registries)", func() {
		for pi, p := range w.Peers {
			if pi == cw.stallPi {
				continue // its reader may be parked inside a call that holds one of this connection's own locks
			}
			_ = p.RD.UseCases()
			_ = p.RD.Address()
			_ = p.RD.DeviceType()
			_ = p.RD.FeatureSet()
			for _, e := range p.RD.Entities() {
				_, _, _ = e.Address(), e.EntityType(), e.Description()
				for _, f := range e.Features() {
					_, _, _, _ = f.Address(), f.Type(), f.Role(), f.Description()
					_ = f.String()
					for fn := range f.Operations() {
						_ = f.DataCopy(fn)
					}
					_ = f.DataCopy(model.FunctionTypeMeasurementListData)
					_ = f.DataCopy(model.FunctionTypeNodeManagementUseCaseData)
				}
			}
			_ = w.Local.BindingManager().Bindings(p.RD)
			_ = w.Local.SubscriptionManager().Subscriptions(p.RD)
		}
		for _, f := range []api.FeatureLocalInterface{cw.lc, cw.mcl, cw.gsrv, cw.gcl, cw.dd} {
			for _, fn := range f.Functions() {
				_ = f.DataCopy(fn)
			}
			_ = w.Local.BindingManager().BindingsOnFeature(*f.Address())
			_ = w.Local.SubscriptionManager().SubscriptionsOnFeature(*f.Address())
		}
		_ = w.Local.RemoteDevices()
		_ = w.Local.Information()
		_ = w.Local.NodeManagement().DataCopy(model.FunctionTypeNodeManagementUseCaseData)
	}) {
		c.Witness(cw.hist())
		return
	}

	if !health("after the sweep") {
		return
	}

	// --- the stalled writer takes its datagrams now: the handler parked in it returns, the connection's remaining
	// messages are handled, and the connection is probed like the others
	if cw.stall != nil {
		cw.note("the stalled writer of peer %d is released", cw.stallPi)
		cw.release()
		if atomic.LoadInt32(&cw.abandoned) != 0 || !joinStalled() {
			c.Witness(cw.hist())
			return
		}
		cw.trackNM(cw.stallPi, "the release of the stalled writer", nil)
		if !cw.probe(cw.stallPi, "after the release of its writer", false) {
			return
		}
		cw.flushHeld(r)
	}

	// --- teardown takes the remaining locks (approval caches, registries, event bus)
	cw.waitTimers()
	closeWorld()
	cw.winWait()
	if atomic.LoadInt32(&cw.abandoned) != 0 {
		return
	}
	// every goroutine the stack spawned for this case must come to an end (a crash is then attributed to this case,
	// and a callback goroutine parked forever inside the stack keeps the case blocked for the parent's watchdog)
	if !rig.WaitQuiet(baseline, c05Watchdog) {
		fmt.Fprintf(os.Stderr, "\n@@STUCK %s: goroutines spawned by the stack do not end (%d > baseline %d); history:\n  %s\n", c.Tag(), runtime.NumGoroutine(), baseline, strings.Join(cw.hist(), "\n  "))
		if rig.WaitQuiet(baseline, c05Stuck) {
			c.Inconclusive("goroutines spawned by the stack took more than %v to end", c05Watchdog)
		} else {
			c.Inconclusive("goroutines spawned by the stack did not end and the parent did not intervene")
		}
	}
	c.Count("callback_goroutines_run", atomic.LoadInt64(&cw.cbRuns))
	if cw.approvals > 0 {
		c.Count("worlds_with_approval_callbacks", 1)
	}
	h := fnv.New64a()
	fmt.Fprintf(h, "%v|%v|%d,%d|%d|%v|%s", cw.states, cw.conn, recPi, recAt, cw.approvals, cw.policy, strings.Join(shape, ";"))
	c.Shape(fmt.Sprintf("%x", h.Sum64()))
	c.NonTrivial(mutated >= 4 && decodable >= 1 && cw.rounds == 2)
	hs := cw.hist()
	if len(hs) > 14 {
		hs = hs[:14]
	}
	for i := range hs {
		if len(hs[i]) > 260 {
			hs[i] = hs[i][:260] + "…"
		}
	}
	c.Sample(map[string]any{"peers": np, "peer_states": cw.states, "approval_callbacks_per_server": cw.approvals, "approval_policy": cw.policy, "messages": delivered, "mutated": mutated,
		"mutated_still_decodable": decodable, "health_ok": atomic.LoadInt64(&cw.healthy), "health_d28": atomic.LoadInt64(&cw.d28), "connection_kinds": cw.conn, "reconnect_of_peer": recPi, "reconnect_before_message": recAt, "first_steps": hs})
}
