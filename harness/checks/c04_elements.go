package checks

import (
	"fmt"
	"math/rand"
	"reflect"
	"strings"

	"verifharness/rig"
)

// C04, the ELEMENTS part of a delete filter as an input dimension of its own.
//
// A delete filter "with elements" (quantifier: "delete with selector and/or elements, and combinations") can name
//
//	one        one element of the list item                          {value:{}}
//	two        two elements                                           {value:{}, timePeriod:{}}
//	sub        one or two SUB elements of a structured element        {timePeriod:{endTime:{}}}, {value:{number:{},scale:{}}}
//	two(sub)   a second element next to the one whose sub elements are named
//
// and it can stand alone, next to a selector, and next to every kind of partial part (identifiers, selector,
// identifier-less). What the clauses of the statement demand does not depend on the form: protected and
// unaddressed elements stay as they are, an error result leaves the data EXACTLY as it was — down to the last
// sub element, which is why every "before" is a deep copy — and the verdict does not depend on unaddressed
// elements.
//
// For "success has applied all of its changes" the statement fixes less when SUB elements are named: the named
// sub elements are gone from every element the delete part addresses; whether their siblings inside the same
// structured element stay ("exactly the named parts") or go with them ("the element that was named") it does
// not say. Both readings are accepted, per command: c04Folds returns every state the statement allows and the
// store must equal one of them. A blind history carries the set of allowed states forward.

// c04SubNames: the sub elements the delete filter of u names inside item field fi (nil: the element as a whole).
// ok=false: a named sub element has no counterpart in the data type (what the filter means is then unknown).
func c04SubNames(li *rig.ListInfo, u rig.Update, fi int) (names []string, ok bool) {
	if u.NestedElem <= 0 {
		return nil, true
	}
	_, fd, fok := li.Filters(u)
	if !fok || fd == nil {
		return nil, false
	}
	e := reflect.ValueOf(fd).Elem().Field(li.ElIdx)
	if e.IsNil() {
		return nil, false
	}
	ef := e.Elem().FieldByName(li.ElemT.Field(fi).Name)
	if !ef.IsValid() || ef.Kind() != reflect.Ptr || ef.IsNil() || ef.Elem().Kind() != reflect.Struct {
		return nil, true
	}
	dt := li.ElemT.Field(fi).Type
	for i := 0; i < ef.Elem().NumField(); i++ {
		sf := ef.Elem().Field(i)
		if sf.Kind() != reflect.Ptr || sf.IsNil() {
			continue
		}
		name := ef.Elem().Type().Field(i).Name
		if dt.Kind() != reflect.Ptr || dt.Elem().Kind() != reflect.Struct {
			return nil, false
		}
		df, has := dt.Elem().FieldByName(name)
		if !has || !df.IsExported() {
			return nil, false
		}
		switch df.Type.Kind() {
		case reflect.Ptr, reflect.Slice, reflect.Map, reflect.Interface:
		default:
			return nil, false // a sub element that cannot be absent
		}
		names = append(names, name)
	}
	return names, true
}

// c04DeletePartTargets: the elements of old the delete part of u addresses.
func c04DeletePartTargets(li *rig.ListInfo, u rig.Update, old []reflect.Value) (ts []reflect.Value) {
	for _, it := range old {
		if u.DelSel < 0 || li.Matches(it, u.DelSel) {
			ts = append(ts, it)
		}
	}
	return ts
}

// c04SubHits: the delete part of u names a sub element that element it holds.
func c04SubHits(li *rig.ListInfo, u rig.Update, it reflect.Value) bool {
	for _, fi := range u.DelElem {
		names, ok := c04SubNames(li, u, fi)
		if !ok || len(names) == 0 || it.Field(fi).IsNil() {
			continue
		}
		for _, n := range names {
			if f := it.Field(fi).Elem().FieldByName(n); f.IsValid() && !f.IsZero() {
				return true
			}
		}
	}
	return false
}

// c04DrawElements draws what the ELEMENTS part of the delete filter of u names (u.DelSel is set already, if the
// shape has a selector). Sub elements are aimed: of up to 12 draws the first one is taken that names a sub element
// which a changeable element addressed by the delete part actually holds (the last draw otherwise) — the aim
// decides what is sent, never how it is judged.
func c04DrawElements(r *rand.Rand, li *rig.ListInfo, u *rig.Update, old []reflect.Value) (form string, ok bool) {
	pf := c04PayloadFields(li)
	if len(pf) == 0 {
		return "", false
	}
	isPayload := map[int]bool{}
	for _, f := range pf {
		isPayload[f] = true
	}
	var nest []int
	for _, f := range li.NestableElems() {
		if isPayload[f] {
			nest = append(nest, f)
		}
	}
	other := func(not int) (int, bool) {
		var cand []int
		for _, f := range pf {
			if f != not {
				cand = append(cand, f)
			}
		}
		if len(cand) == 0 {
			return 0, false
		}
		return cand[r.Intn(len(cand))], true
	}
	x := r.Intn(10)
	switch {
	case x >= 5 && len(nest) > 0:
		targets := c04DeletePartTargets(li, *u, old)
		if len(targets) == 0 {
			targets = old
		}
		for try := 0; try < 12; try++ {
			u.DelElem = []int{nest[r.Intn(len(nest))]}
			u.NestedElem = 1 + r.Intn(24)
			hit := false
			for _, it := range targets {
				if c04Changeable(li, it) && c04SubHits(li, *u, it) {
					hit = true
				}
			}
			if hit {
				break
			}
		}
		form = "sub"
		if r.Intn(4) == 0 {
			if f, has := other(u.DelElem[0]); has {
				u.DelElem = append(u.DelElem, f)
				if r.Intn(2) == 0 {
					u.DelElem[0], u.DelElem[1] = u.DelElem[1], u.DelElem[0]
				}
				form = "two(sub)"
			}
		}
	case x == 4:
		f := pf[r.Intn(len(pf))]
		u.DelElem, form = []int{f}, "one"
		if g, has := other(f); has {
			u.DelElem, form = []int{f, g}, "two"
		}
	default:
		u.DelElem, form = []int{pf[r.Intn(len(pf))]}, "one"
	}
	if _, _, fok := li.Filters(*u); !fok {
		// the elements type lacks one of the fields: fall back to the plain form
		u.DelElem, u.NestedElem, form = []int{pf[r.Intn(len(pf))]}, 0, "one"
	}
	return form, true
}

// c04ApplySub folds u into cur reading a delete filter that names sub elements as "exactly the named sub elements
// go" (rig's RefApply reads it as "the element that was named goes").
func c04ApplySub(li *rig.ListInfo, cur []reflect.Value, u rig.Update) (out []reflect.Value, ok bool) {
	cur = c04DeepItems(cur) // nested values are edited below
	for _, it := range cur {
		if u.DelSel >= 0 && !li.Matches(it, u.DelSel) {
			continue
		}
		for _, fi := range u.DelElem {
			names, nok := c04SubNames(li, u, fi)
			if !nok {
				return nil, false
			}
			f := it.Field(fi)
			if len(names) == 0 {
				f.Set(reflect.Zero(f.Type()))
				continue
			}
			if f.IsNil() {
				continue
			}
			for _, n := range names {
				sf := f.Elem().FieldByName(n)
				sf.Set(reflect.Zero(sf.Type()))
			}
		}
	}
	if strings.HasPrefix(u.Kind, "delete") {
		return cur, true
	}
	rest := u
	rest.DelSel, rest.DelElem, rest.NestedElem = -1, nil, 0
	return li.RefApply(cur, rest), true
}

// c04Folds: every state an accepted write may leave behind according to the statement (flags are compared
// separately). One state unless a command names sub elements; ok=false: the statement does not fix the result.
func c04Folds(li *rig.ListInfo, w *c04Write, pre []reflect.Value, urs []rig.Update) (cands [][]reflect.Value, ok bool) {
	if w.emptySel {
		if w.shape == "delete-selector(empty)" {
			return [][]reflect.Value{nil}, true
		}
		return nil, false
	}
	if w.selIds >= 0 && w.selIds != w.u.SelKey {
		return nil, false // a selector write that renumbers the selected element: the result is not fixed
	}
	if c04AddressesDup(li, w, pre) {
		return nil, false // which of several elements with the same identifiers a write means is not fixed
	}
	if w.bare {
		if len(urs) != 1 {
			return nil, false
		}
		return c04BareFolds(li, pre, urs[0]), true
	}
	cands = [][]reflect.Value{pre}
	for _, ur := range urs {
		var next [][]reflect.Value
		for _, cd := range cands {
			next = append(next, li.RefApply(cd, ur))
			if ur.NestedElem > 0 && len(ur.DelElem) > 0 {
				sub, sok := c04ApplySub(li, cd, ur)
				if !sok {
					return nil, false
				}
				next = append(next, sub)
			}
		}
		cands = c04Dedup(li, next)
	}
	return cands, true
}

func c04Dedup(li *rig.ListInfo, in [][]reflect.Value) (out [][]reflect.Value) {
	seen := map[string]bool{}
	for _, s := range in {
		k := rig.Multiset(c04NoFlag(li, s))
		if !seen[k] {
			seen[k] = true
			out = append(out, s)
		}
	}
	return out
}

// c04MatchesOne: got equals one of the allowed states (flags aside).
func c04MatchesOne(li *rig.ListInfo, got []reflect.Value, cands [][]reflect.Value) bool {
	g := rig.Multiset(c04NoFlag(li, got))
	for _, cd := range cands {
		if g == rig.Multiset(c04NoFlag(li, cd)) {
			return true
		}
	}
	return false
}

func c04RenderCands(li *rig.ListInfo, cands [][]reflect.Value) string {
	var ss []string
	for _, cd := range cands {
		ss = append(ss, renderItems(c04NoFlag(li, cd)))
	}
	return strings.Join(ss, "\n   or:  ")
}

// c04CheckElementsDecoded compares the elements struct of the delete filter that was sent with the decoded one.
func c04CheckElementsDecoded(li *rig.ListInfo, u rig.Update, fdDecoded any) error {
	if len(u.DelElem) == 0 {
		return nil
	}
	_, fd, ok := li.Filters(u)
	if !ok || fd == nil {
		return fmt.Errorf("no delete filter for %s", u.String())
	}
	sent := reflect.ValueOf(fd).Elem().Field(li.ElIdx)
	dv := reflect.ValueOf(fdDecoded)
	if !dv.IsValid() || dv.IsNil() {
		return fmt.Errorf("the delete filter does not arrive")
	}
	got := dv.Elem().Field(li.ElIdx)
	if c04Presence(sent) != c04Presence(got) {
		return fmt.Errorf("the elements of the delete filter arrive as %s, sent %s", c04Presence(got), c04Presence(sent))
	}
	return nil
}

// c04Presence renders which (sub) elements an elements struct names: presence of pointers, nothing else.
func c04Presence(v reflect.Value) string {
	switch v.Kind() {
	case reflect.Ptr:
		if v.IsNil() {
			return ""
		}
		return "{" + c04Presence(v.Elem()) + "}"
	case reflect.Struct:
		var ps []string
		for i := 0; i < v.NumField(); i++ {
			if p := c04Presence(v.Field(i)); p != "" {
				ps = append(ps, v.Type().Field(i).Name+p)
			}
		}
		return strings.Join(ps, ",")
	}
	return ""
}

// c04CountElements: evidence for the elements dimension. The last counter is the situation in which "error result
// => data exactly as it was" has teeth for sub elements: the write is rejected although its delete part met a
// changeable element that holds a named sub element.
func c04CountElements(c *rig.Ctx, li *rig.ListInfo, w *c04Write, old []reflect.Value, prefix, verdict string) {
	if w.elemForm == "" {
		return
	}
	c.Count(prefix+"delete-elements-form:"+w.elemForm+":"+verdict, 1)
	us := []rig.Update{w.u}
	if w.u2 != nil {
		us = append(us, *w.u2)
	}
	for _, u := range us {
		if u.NestedElem <= 0 || len(u.DelElem) == 0 {
			continue
		}
		c.Seen("functions_with_sub_element_deletes", string(li.Fn))
		c.Seen("sub_element_filters", string(li.Fn)+":"+w.elemText)
		for _, it := range c04DeletePartTargets(li, u, old) {
			if c04Changeable(li, it) && c04SubHits(li, u, it) {
				c.Count(prefix+"sub-element-deletes-meeting-a-changeable-element-that-holds-the-sub-element:"+verdict, 1)
				break
			}
		}
	}
}
