package checks

import (
	"fmt"
	"sort"
	"strings"
	"time"

	"github.com/enbility/spine-go/api"
	"github.com/enbility/spine-go/model"
	"github.com/enbility/spine-go/spine"
	"github.com/enbility/spine-go/util"

	"verifharness/rig"
)

// C03 — a remote write takes effect only with a binding and write permission.
//
// The entity addresses of the local server features are a dimension of their own (c03Layouts): S0/S1 live in entity eA, S2 in eB, and
// (eA, eB) is seeded per world from flat [1]+[2] and nested / sibling pairs ([1]+[1,1], [1,1]+[1], [1]+[1,1,1], [1,2,1]+[1], [1,1]+[1,2],
// [1,1]+[2,1], [2]+[1,2]); S0 and S2 always carry the same feature id, so "a binding to THAT feature" is told apart by the entity part alone.
//
// One case = one World: local server features S0 eA/1 (classically [1]/1; DeviceClassification: user data writable, manufacturer
// data mostly read-only), S1 [1]/2 (Identification: list writable, session list mostly not added) and S2 [2]/1
// (DeviceClassification: manufacturer data writable, user data mostly not added). "Writable" is read-write or WRITE-ONLY, the second
// function is drawn from {read-only, added without any operation, write-only, read-write, not added}, and the application may add a missing
// function (or register an added one again) in the middle of the history. Whether the written function "is announced as writable" is
// never taken from these registrations nor from the library's Operations(): before every write a connected peer reads
// nodeManagementDetailedDiscoveryData and the oracle uses the possibleOperations found in that reply. Three peers with identical numbering
// - in 45 % of the worlds one of them never announces a device address (the element is optional), so all its addresses, its binding and
// its subscriptions are device-less - and three client features
// per server type ([1]/x, [1,1]/x and [2]/x), subscribers from every peer on every server feature. A history of
// 15-30 operations {bind, unbind, disconnect, reconnect + re-announce, re-announcement without reconnect, remote entities
// removed (one, two or three with ONE notify: a partial one naming them removed, or a full one that no longer lists them) / added,
// write (also with a 'function' element that disagrees with / repeats the data element's function; source device own / omitted /
// foreign, destination device given / omitted; unauthorised ones also with delete and selector filters)}
// drives a shadow model = reference binding registry (holder per server feature) /\ write flag of the function.
// Around every write: DataCopy of the four functions of both feature types on every server feature before and after, the taps of all
// peers, the core event sink.

func init() {
	rig.Register(&rig.Check{
		ID:    "C03",
		Floor: 450,
		Rule: "case = one World (3 local server features S0 = eA/1, S1 = eA/2, S2 = eB/1 whose entity addresses (eA, eB) are seeded per world: flat [1]+[2] (30 %) or related as parent/child, grandparent/grandchild (either direction), siblings that differ in the last element, cousins that differ in the first element only, or an entity of another branch with the same last element - S0 and S2 always share the feature id, missing parent entities are created feature-less, creation order of the entities is seeded; half of the writes to a server feature nobody is bound to come from a client that holds the binding on the other server feature of the same type; mixing functions registered read-write, WRITE-ONLY, read-only, without any operation and not added at all (seeded per world: the primary function of a feature is RW 70 % / WO 30 %, the second one RO / -- / WO / RW / not added); 'announced as writable' is decided by the possibleOperations in the reply to a nodeManagementDetailedDiscoveryData read that a connected peer sends immediately before every write, not by the registration and not by Operations().Write(); " +
			"3 identically numbered peers x 3 client features per type in the entities [1], [1,1] and [2], in 45 % of the worlds ONE peer whose detailed discovery data (reply, re-announcements, partial and full notifies) never carries deviceInformation.description.deviceAddress (absent, or present without device): the stack knows no device address for it and all its addresses are device-less; subscribers on every server feature) and a seeded history of 15-30 operations " +
			"{bind, bind by another peer, unbind, disconnect, reconnect + re-announce, AddFunctionType by the application in mid-history (a function that was never added gets RW / WO / RO / --, or an added one is registered again with the opposite flags) followed by writes of the holder and of a non-holder to that function, re-announcement WITHOUT reconnect (the detailed discovery reply once more, or a partial notify lastStateChange=added for a known entity; same addresses, roles and types, in every second one new description texts; by a binding holder or a bystander; the shadow registry is unchanged by it), " +
			"remote entities removed by ONE discovery notify that takes away one, two or three of [1], [1,1], [2] at once - a partial notify listing them with lastStateChange=removed (every sixth one names an entity the stack never knew first) or a FULL (filter-less) notify of the remaining tree that no longer lists them (and may list an absent one again); " +
			"the shadow model is the statement's: the writer's entity disappeared => its binding is gone for good => its writes are rejected and change nothing, also after the entity was announced again; the other bindings of that peer and of the others stay -, remote entity added by partial notify, write by the holder / a non-holder with the same numbers / the holder's other client feature / to a read-only function / to a function not added / " +
			"with a 'function' element that names a WRITABLE function while the data element is that of a read-only or not-added function of the same feature type (by the holder and by non-holders) / with a 'function' element that merely repeats the data element's function / " +
			"by a feature that is no longer announced / over the stale connection of a disconnected holder}; " +
			"teardown operations are followed by writes of the former holder and of a remaining holder, a reconnect after a disconnect by writes of the former holder without a new binding; two thirds of the re-announcements of a holder are followed by its disconnect + reconnect, reconnect, or the removal and re-addition of the holder's entity. " +
			"Writes are filter-less full writes of flag-less functions or partial writes to an existing id; half of the UNAUTHORISED writes of a list function carry what an authorised one may carry: a delete filter with / without selector, a partial filter with selector, or both filters in either order. " +
			"Address forms of a write: source device = the writer's own (60 %), omitted (20 %: same writer, same verdict) or - unauthorised writers only - the device of somebody else, preferably of the peer that holds the binding with the same numbers (no effect, no notify, no event, no success result; the result count is not judged); destination device given or omitted (20 %). " +
			"Before and after every write the data of the four functions of both feature types is compared on every server feature. " +
			"non-trivial if at least one write was accepted, one refused, and one write was judged after a revocation (unbind, disconnect or entity removal of the holder); distinct = hash of operation kinds, features and outcomes.",
		Assumptions: []string{
			"message handling is synchronous (no write approval callbacks registered), so data, taps and core events are complete when the call into the stack has returned",
			"the response to an authorised write is C01's subject: here only 'no error result, at most one success result' is asserted",
			"a writer that is not an announced feature of a connected peer (removed entity, unknown feature, stale connection object after a disconnect) may or may not get a result; only 'no effect, no notify, no event' is asserted for it",
			"'the written function' is the function of the cmd's data element (that is what a write changes); the optional 'function' element of the cmd does not widen the permission: a cmd that names a writable function there and carries the data of a function that is not writable is an unauthorised write",
			"who writes is decided by the connection the datagram arrives on and the entity/feature numbers of its source address: a source address without device part names the sender's own feature; a source address that names ANOTHER device (the binding holder's) over the sender's connection does not make the holder the writer, such a write must have no effect (whether its sender counts as 'an announced feature' for the one-error-result clause is left open). A foreign device in the DESTINATION is C01's open finding D62 and not generated here",
			"two connections that announce the SAME device address are outside the quantifier (several peers = several devices; SPINE device addresses are unique): not generated. For the same reason at most ONE peer of a world is without device address (two of them would be indistinguishable by address)",
			"'announced as writable' = the function is listed for the feature with a 'write' element in its possibleOperations in the detailed discovery data the local device sends at that moment (the read element is irrelevant: a write-only function is writable, a function listed with empty possibleOperations is not). If no peer is connected (writes over a stale connection) the feature's Information() - what that reply is assembled from - stands in; that the two agree is C07's subject",
			"a peer may omit the optional deviceAddress of its detailed discovery data; it is then identified by its connection alone, its source addresses carry no device part, and everything the statement says about 'the writer's device' (disconnect, reconnect with the same SKI) applies to it unchanged",
			"a re-announcement that leaves addresses, roles and types as they were (no reconnect, no removal; description texts may change) is neither a deletion of a binding nor a disappearance of the writer's device or entity: the holder stays authorised, everybody else stays unauthorised",
		},
		Parts: []rig.Part{
			{Name: "hist", Cases: func(t rig.Tier) int { return map[rig.Tier]int{rig.Quick: 4800, rig.Thorough: 60000}[t] }, Run: c03Case, Procs: 2},
		},
	})
}

var c03PeerFeats = []rkPeerFeat{
	{Name: "x", Ent: []uint{1}, Id: 1, Typ: model.FeatureTypeTypeDeviceClassification, Role: model.RoleTypeClient},
	{Name: "z", Ent: []uint{1}, Id: 2, Typ: model.FeatureTypeTypeIdentification, Role: model.RoleTypeClient},
	{Name: "y", Ent: []uint{1, 1}, Id: 1, Typ: model.FeatureTypeTypeDeviceClassification, Role: model.RoleTypeClient},
	{Name: "v", Ent: []uint{1, 1}, Id: 2, Typ: model.FeatureTypeTypeIdentification, Role: model.RoleTypeClient},
	// a third entity, so that one discovery notify can take away up to three entities at once
	{Name: "u", Ent: []uint{2}, Id: 1, Typ: model.FeatureTypeTypeDeviceClassification, Role: model.RoleTypeClient},
	{Name: "t", Ent: []uint{2}, Id: 2, Typ: model.FeatureTypeTypeIdentification, Role: model.RoleTypeClient},
}

// c03Ents: the entities every peer announces besides its device information entity [0].
var c03Ents = []string{"[1]", "[1,1]", "[2]"}
var c03EntAddr = map[string][]uint{"[1]": {1}, "[1,1]": {1, 1}, "[2]": {2}}

type c03Srv struct {
	name string
	f    api.FeatureLocalInterface
	typ  model.FeatureTypeType
	// reg: what the harness registered with AddFunctionType: "RW", "RO", "WO" (write-only) or "--" (added with neither flag); absent = never
	// added. It steers the GENERATOR only (which function a write class aims at). The oracle never reads it: whether a function "is announced
	// as writable" is taken from the announcement itself (c03World.announcedOps).
	reg     map[model.FunctionType]string
	primary model.FunctionType   // the function the harness registered as writable when the world was built
	all     []model.FunctionType // every function of the feature type (added or not)
}

func (s *c03Srv) regWritable(fn model.FunctionType) bool {
	return s.reg[fn] == "RW" || s.reg[fn] == "WO"
}

type c03Holder struct {
	peer int
	cli  string
}

type c03World struct {
	w      *rig.World
	srv    map[string]*c03Srv
	pf     map[string]rkPeerFeat
	conn   [3]bool
	hasEnt [3]map[string]bool // "[1]", "[1,1]", "[2]"
	binds  map[string]c03Holder
	subs   map[string]bool // "peer|cli|srv"
	val    int
	// noAddr: the peer (or -1) whose detailed discovery data never carries the optional deviceInformation.description.deviceAddress:
	// the stack knows no device address for it, all its addresses are device-less. noAddrForm: the element is absent / present but empty.
	noAddr     int
	noAddrForm string
	// bareDisc: peers WITH a device address whose detailed discovery data names it once, in deviceInformation, and gives every
	// entityAddress / featureAddress without device part (what most real devices send); the others repeat it in every address
	bareDisc [3]bool
	// layout: where the local server features live (c03Layouts): the entity of S0 and S1 and the entity of S2
	layout c03Layout
}

// c03Layout: the addresses of the two local entities that carry the server features (S0 = eA/1, S1 = eA/2, S2 = eB/1 - feature ids
// restart at 1 in every entity, so S0 and S2 always share the feature id and differ in the entity part only). Besides the flat classic
// one, the entity addresses are related in every way two SPINE entity addresses can be: one extends the other (child / grandchild, in
// either direction), siblings that differ in the last element only, or in the first element only, or in length and last element.
// The parents a nested entity needs are created as well (feature-less unless they are one of the two).
type c03Layout struct {
	name   string
	eA, eB []uint
	weight int
}

var c03Layouts = []c03Layout{
	{"flat:[1]+[2]", []uint{1}, []uint{2}, 6},
	{"S2-nested-under-S0:[1]+[1,1]", []uint{1}, []uint{1, 1}, 4},
	{"S0-nested-under-S2:[1,1]+[1]", []uint{1, 1}, []uint{1}, 3},
	{"S2-grandchild-of-S0:[1]+[1,1,1]", []uint{1}, []uint{1, 1, 1}, 1},
	{"S0-grandchild-of-S2:[1,2,1]+[1]", []uint{1, 2, 1}, []uint{1}, 1},
	{"siblings-last-element-differs:[1,1]+[1,2]", []uint{1, 1}, []uint{1, 2}, 2},
	{"cousins-first-element-differs:[1,1]+[2,1]", []uint{1, 1}, []uint{2, 1}, 2},
	{"nephew-same-last-element:[2]+[1,2]", []uint{2}, []uint{1, 2}, 1},
}

// c03EntRel: how the entity address a relates to b (evidence only).
func c03EntRel(a, b []model.AddressEntityType) string {
	n := len(a)
	if len(b) < n {
		n = len(b)
	}
	common := 0
	for common < n && a[common] == b[common] {
		common++
	}
	switch {
	case len(a) == len(b) && common == n:
		return "same-entity"
	case common == len(b):
		return "nested-under-it"
	case common == len(a):
		return "parent-of-it"
	case len(a) == len(b) && common == n-1:
		return "sibling-last-element-differs"
	case len(a) == len(b) && common == 0:
		return "first-element-differs"
	}
	return "other-branch"
}

var c03Names = []string{"S0", "S1", "S2"}

// c03SnapFns: the functions whose stored data is compared before and after every write, on every server feature.
var c03SnapFns = []model.FunctionType{model.FunctionTypeDeviceClassificationUserData, model.FunctionTypeDeviceClassificationManufacturerData,
	model.FunctionTypeIdentificationListData, model.FunctionTypeSessionIdentificationListData}

func c03Ent(f rkPeerFeat) string { return rkShort(f.Ent, 0)[:strings.Index(rkShort(f.Ent, 0), "/")] }

// c03Flags: the (read, write) flags of a registration class.
var c03Flags = map[string][2]bool{"RW": {true, true}, "RO": {true, false}, "WO": {false, true}, "--": {false, false}}

func c03Pick(r interface{ Intn(int) int }, weighted ...any) string {
	total := 0
	for i := 1; i < len(weighted); i += 2 {
		total += weighted[i].(int)
	}
	k := r.Intn(total)
	for i := 0; i < len(weighted); i += 2 {
		if k -= weighted[i+1].(int); k < 0 {
			return weighted[i].(string)
		}
	}
	panic("harness: c03Pick")
}

func newC03World(c *rig.Ctx) *c03World {
	cw := &c03World{w: rig.NewWorld(c.Tag()), srv: map[string]*c03Srv{}, pf: map[string]rkPeerFeat{}, binds: map[string]c03Holder{}, subs: map[string]bool{}, noAddr: -1}
	w := cw.w
	r := c.Rand
	// the local entity layout (seeded per world): flat, or nested / sibling entity addresses (see c03Layouts)
	{
		var ws []any
		for _, l := range c03Layouts {
			ws = append(ws, l.name, l.weight)
		}
		name := c03Pick(r, ws...)
		for _, l := range c03Layouts {
			if l.name == name {
				cw.layout = l
			}
		}
	}
	c.Count("local_entity_layout:"+cw.layout.name, 1)
	// entities are created parents first or in the order (eA, eB) / (eB, eA) with the missing parents in between: the position in the
	// device's entity list is no part of an address
	made := map[string]*spine.EntityLocal{}
	mkEnt := func(addr []uint) *spine.EntityLocal {
		for n := 1; n <= len(addr); n++ {
			k := fmt.Sprint(addr[:n])
			if made[k] == nil {
				made[k] = w.AddEntity(model.EntityTypeTypeCEM, append([]uint{}, addr[:n]...), 4*time.Second)
			}
		}
		return made[fmt.Sprint(addr)]
	}
	var e1, e2 *spine.EntityLocal
	if r.Intn(2) == 0 {
		e1 = mkEnt(cw.layout.eA)
		e2 = mkEnt(cw.layout.eB)
	} else {
		e2 = mkEnt(cw.layout.eB)
		e1 = mkEnt(cw.layout.eA)
	}
	ud, md := model.FunctionTypeDeviceClassificationUserData, model.FunctionTypeDeviceClassificationManufacturerData
	il, sl := model.FunctionTypeIdentificationListData, model.FunctionTypeSessionIdentificationListData
	// Every server feature has a primary function that is writable - read-write or WRITE-ONLY - and a second function of the same type
	// that is read-only, added without any operation ("--"), write-only, read-write or (S1, S2) not added at all (it may be added later
	// in the history). The classic mix (RW + RO, RW + not added, RW + not added) stays the most frequent one.
	mk := func(name string, f api.FeatureLocalInterface, primary, second model.FunctionType, secondReg string) {
		s := &c03Srv{name: name, f: f, typ: f.Type(), reg: map[model.FunctionType]string{}, primary: primary, all: []model.FunctionType{primary, second}}
		if primary == md { // keep the order ud, md of the feature type
			s.all = []model.FunctionType{second, primary}
		}
		s.reg[primary] = c03Pick(r, "RW", 7, "WO", 3)
		if secondReg != "" {
			s.reg[second] = secondReg
		}
		order := []model.FunctionType{primary, second}
		if r.Intn(2) == 0 {
			order = []model.FunctionType{second, primary}
		}
		for _, fn := range order {
			if reg, ok := s.reg[fn]; ok {
				f.AddFunctionType(fn, c03Flags[reg][0], c03Flags[reg][1])
			}
		}
		cw.srv[name] = s
	}
	mk("S0", e1.GetOrAddFeature(model.FeatureTypeTypeDeviceClassification, model.RoleTypeServer), ud, md, c03Pick(r, "RO", 10, "--", 4, "WO", 3, "RW", 3))
	mk("S1", e1.GetOrAddFeature(model.FeatureTypeTypeIdentification, model.RoleTypeServer), il, sl, c03Pick(r, "", 12, "RO", 3, "--", 2, "WO", 3))
	mk("S2", e2.GetOrAddFeature(model.FeatureTypeTypeDeviceClassification, model.RoleTypeServer), md, ud, c03Pick(r, "", 12, "RO", 3, "--", 2, "WO", 3))
	for _, f := range c03PeerFeats {
		cw.pf[f.Name] = f
	}
	// initial data everywhere, so that "unchanged" and partial writes have something to compare with
	for _, n := range c03Names {
		s := cw.srv[n]
		for _, fn := range s.all {
			cw.val++
			s.f.SetData(fn, rkPayload(fn, cw.val))
		}
	}
	// in 45 % of the worlds one of the three peers never announces a device address
	if r.Intn(20) < 9 {
		cw.noAddr = r.Intn(3)
		cw.noAddrForm = []string{"deviceAddress-element-absent", "deviceAddress-element-without-device"}[r.Intn(2)]
	}
	for i := 0; i < 3; i++ {
		p := w.AddPeer(i)
		p.Ctr = uint64(i+1) * 100000
		if i == cw.noAddr {
			p.Addr = "" // rig.FA / rig.EA / p.NM() leave the device part out for an empty address
			c.Count("worlds_with_a_peer_without_device_address:"+cw.noAddrForm, 1)
		} else if r.Intn(3) == 0 {
			cw.bareDisc[i] = true
			c.Count("peers_whose_discovery_data_carries_device-less_entity_and_feature_addresses", 1)
		}
		cw.connect(i, false)
	}
	w.Core.Take()
	return cw
}

// disc builds detailed discovery data like rig.Peer.Discovery; for the peer without device address the optional
// deviceInformation.description.deviceAddress is left out (or present without its - equally optional - device element).
func (cw *c03World) disc(p *rig.Peer, feats []rig.FS, states map[string]model.NetworkManagementStateChangeType, removed [][]uint) *model.NodeManagementDetailedDiscoveryDataType {
	d := p.Discovery(feats, states, removed)
	if p.Addr == "" {
		d.DeviceInformation.Description.DeviceAddress = nil
		if cw.noAddrForm == "deviceAddress-element-without-device" {
			d.DeviceInformation.Description.DeviceAddress = &model.DeviceAddressType{}
		}
	}
	for i, q := range cw.w.Peers {
		if q != p || !cw.bareDisc[i] {
			continue
		}
		for _, ei := range d.EntityInformation {
			if ei.Description != nil && ei.Description.EntityAddress != nil {
				ei.Description.EntityAddress.Device = nil
			}
		}
		for _, fi := range d.FeatureInformation {
			if fi.Description != nil && fi.Description.FeatureAddress != nil {
				fi.Description.FeatureAddress.Device = nil
			}
		}
	}
	return d
}

// announce sends the detailed discovery reply (what rig.Peer.Announce does, with disc).
func (cw *c03World) announce(p *rig.Peer, feats []rig.FS) model.MsgCounterType {
	return p.Send(model.CmdClassifierTypeReply, p.NM(), rig.LNM, false, util.Ptr(model.MsgCounterType(1)), model.CmdType{NodeManagementDetailedDiscoveryData: cw.disc(p, feats, nil, nil)})
}

// c03Ops is what the local device announces for one function of one feature: presence of the read / write element.
type c03Ops struct{ listed, read, write bool }

func (o c03Ops) String() string {
	switch {
	case !o.listed:
		return "not-announced"
	case o.read && o.write:
		return "RW"
	case o.read:
		return "RO"
	case o.write:
		return "WO"
	}
	return "--"
}

func c03OpsOf(fis []model.NodeManagementDetailedDiscoveryFeatureInformationType, srv *model.FeatureAddressType, fn model.FunctionType) (ops c03Ops, featureListed bool) {
	for _, fi := range fis {
		d := fi.Description
		if d == nil || d.FeatureAddress == nil || d.FeatureAddress.Feature == nil || srv.Feature == nil || *d.FeatureAddress.Feature != *srv.Feature || rkEnt(d.FeatureAddress.Entity) != rkEnt(srv.Entity) {
			continue
		}
		featureListed = true
		for _, sf := range d.SupportedFunction {
			if sf.Function == nil || *sf.Function != fn {
				continue
			}
			ops.listed = true
			if po := sf.PossibleOperations; po != nil {
				ops.read = ops.read || po.Read != nil
				ops.write = ops.write || po.Write != nil
			}
		}
	}
	return
}

// announcedOps: what the local device ANNOUNCES for function fn of server feature s at this moment. Source: the reply to a
// nodeManagementDetailedDiscoveryData read that a connected peer (the writer's, if it is connected) sends right now - the very
// datagram a peer learns the possible operations from. Only if no peer is connected (or the read stays unanswered, which is
// counted) the feature's Information() - what such a reply is assembled from - is used instead. The registration flags the
// harness passed to AddFunctionType and the library's Operations().Write() - what the gate looks at - are deliberately not consulted.
func (cw *c03World) announcedOps(c *rig.Ctx, prefer int, s *c03Srv, fn model.FunctionType) (c03Ops, string) {
	w := cw.w
	for k := 0; k < 3; k++ {
		pi := (prefer + k) % 3
		if !cw.conn[pi] {
			continue
		}
		p := w.Peers[pi]
		p.Tap.Take()
		mc := p.Send(model.CmdClassifierTypeRead, p.NM(), rig.LNM, false, nil, model.CmdType{NodeManagementDetailedDiscoveryData: &model.NodeManagementDetailedDiscoveryDataType{}})
		for _, d := range rig.Classify(p.Tap.Take(), mc).All {
			if rkClassifier(d) != model.CmdClassifierTypeReply || len(d.Payload.Cmd) != 1 || d.Payload.Cmd[0].NodeManagementDetailedDiscoveryData == nil {
				continue
			}
			if ops, listed := c03OpsOf(d.Payload.Cmd[0].NodeManagementDetailedDiscoveryData.FeatureInformation, s.f.Address(), fn); listed {
				return ops, "discovery-reply"
			}
		}
		c.Count("announcement:discovery_read_without_usable_reply", 1)
	}
	ops, _ := c03OpsOf([]model.NodeManagementDetailedDiscoveryFeatureInformationType{*s.f.Information()}, s.f.Address(), fn)
	return ops, "feature-information"
}

// connect announces the full tree of peer i and subscribes it to every server feature (peer 2 twice on S0 and S1).
func (cw *c03World) connect(i int, reconnect bool) {
	w := cw.w
	p := w.Peers[i]
	if reconnect {
		if cw.conn[i] {
			w.Reconnect(p)
		} else {
			p.Tap = &rig.Tap{}
			w.Local.SetupRemoteDevice(p.Ski, p.Tap)
			p.RD = w.Local.RemoteDeviceForSki(p.Ski)
		}
		for s, h := range cw.binds {
			if h.peer == i {
				delete(cw.binds, s)
			}
		}
		for k := range cw.subs {
			if strings.HasPrefix(k, fmt.Sprintf("%d|", i)) {
				delete(cw.subs, k)
			}
		}
	}
	cw.announce(p, rkAnnounceList(c03PeerFeats))
	cw.conn[i] = true
	cw.hasEnt[i] = map[string]bool{"[1]": true, "[1,1]": true, "[2]": true}
	pairs := [][2]string{{"x", "S0"}, {"z", "S1"}, {"x", "S2"}}
	if i == 1 {
		pairs = [][2]string{{"x", "S0"}, {"u", "S0"}, {"z", "S1"}, {"t", "S1"}, {"x", "S2"}, {"u", "S2"}}
	}
	if i == 2 {
		pairs = [][2]string{{"x", "S0"}, {"y", "S0"}, {"v", "S1"}, {"z", "S1"}, {"y", "S2"}}
	}
	for _, pr := range pairs {
		f := cw.pf[pr[0]]
		mc := p.Subscribe(f.Addr(p, true), cw.srv[pr[1]].f.Address(), cw.srv[pr[1]].typ)
		if ok, _, _ := rkResultOf(p.Tap.Peek(), mc); ok == 1 {
			cw.subs[fmt.Sprintf("%d|%s|%s", i, pr[0], pr[1])] = true
		}
	}
	p.Tap.Take()
}

func (cw *c03World) announced(peer int, cli string) bool {
	f, ok := cw.pf[cli]
	return ok && cw.conn[peer] && cw.hasEnt[peer][c03Ent(f)]
}

func (cw *c03World) clientsFor(srv string) []string {
	if cw.srv[srv].typ == model.FeatureTypeTypeIdentification {
		return []string{"z", "v", "t"}
	}
	return []string{"x", "y", "u"}
}

func (cw *c03World) snapshot() map[string]string {
	m := map[string]string{}
	for _, n := range c03Names {
		s := cw.srv[n]
		for _, fn := range c03SnapFns { // also the functions that are foreign to the feature's type: nothing may appear there
			m[n+"."+string(fn)] = rig.CanonAny(s.f.DataCopy(fn))
		}
	}
	return m
}

func (cw *c03World) removeEntityRefs(peer int, ent string) {
	for s, h := range cw.binds {
		if h.peer == peer && c03Ent(cw.pf[h.cli]) == ent {
			delete(cw.binds, s)
		}
	}
	for k := range cw.subs {
		parts := strings.Split(k, "|")
		if parts[0] == fmt.Sprint(peer) && c03Ent(cw.pf[parts[1]]) == ent {
			delete(cw.subs, k)
		}
	}
}

// notAddedFn returns a function of the feature's own type that was never added with AddFunctionType
// (S1, S2), or a function foreign to the type where every function of the type is added (S0).
func notAddedFn(s *c03Srv) model.FunctionType {
	for _, fn := range s.all {
		if _, added := s.reg[fn]; !added {
			return fn
		}
	}
	if s.typ == model.FeatureTypeTypeIdentification {
		return model.FunctionTypeDeviceClassificationUserData
	}
	return model.FunctionTypeIdentificationListData
}

type c03Write struct {
	peer  int
	cli   string // feature name, or "unk" for an unknown feature [1]/99
	srv   string
	fn    model.FunctionType
	class string
	after string // the revocation this write follows, if any
	readd string // entity ("[1]" or "[1,1]") the writer's peer announces again right before this write
	// fnElem: the cmd's optional 'function' element. "" = absent (partial writes carry the matching one), "match" = the
	// function of the data element, "mismatch" = a WRITABLE function of the feature while the data element is that of fn
	fnElem string
}

// c03Forced is an operation the history has to perform next (after the queued writes): the teardown that follows a
// re-announcement of a binding holder.
type c03Forced struct {
	roll int    // selects the operation like the random roll does
	pi   int    // the peer
	ent  string // entity removal: which entity
}

func c03Case(c *rig.Ctx) {
	cw := newC03World(c)
	w := cw.w
	defer w.Close()
	r := c.Rand
	var hist, shape []string
	log := func(format string, a ...any) { hist = append(hist, fmt.Sprintf(format, a...)) }
	fail := func(sig, format string, a ...any) {
		c.Violate(sig, "%s\n history:\n  %s", fmt.Sprintf(format, a...), strings.Join(hist, "\n  "))
	}
	shape = append(shape, fmt.Sprintf("world:no-device-address=%d/%s:device-less-discovery-addresses=%v:layout=%s", cw.noAddr, cw.noAddrForm, cw.bareDisc, cw.layout.name))
	log("world: local server features S0 %s, S1 %s, S2 %s (layout %s)", rkKey(cw.srv["S0"].f.Address()), rkKey(cw.srv["S1"].f.Address()), rkKey(cw.srv["S2"].f.Address()), cw.layout.name)
	log("world: peer without device address: %d (%s); peers whose discovery data carries device-less entity/feature addresses: %v; registrations S0 %v, S1 %v, S2 %v", cw.noAddr, cw.noAddrForm, cw.bareDisc, cw.srv["S0"].reg, cw.srv["S1"].reg, cw.srv["S2"].reg)
	accepted, refused, afterRevocation, teardowns := 0, 0, 0, 0
	var queue []c03Write                      // writes forced by a preceding revocation
	var forced []c03Forced                    // operations forced by a preceding re-announcement
	var lostAtDisconnect [3]map[string]string // per peer: the bindings (server feature -> client) its last disconnect took away
	reann := 0

	takeAll := func() [][]model.DatagramType {
		outs := make([][]model.DatagramType, len(w.Peers))
		for i, p := range w.Peers {
			outs[i] = p.Tap.Take()
		}
		return outs
	}
	holders := func() []string {
		var hs []string
		for _, n := range c03Names {
			if _, ok := cw.binds[n]; ok {
				hs = append(hs, n)
			}
		}
		return hs
	}
	// writableFn: a function of s the harness registered with the write flag - mostly the primary one (read-write or write-only),
	// now and then the second one if that is writable too. (Generator only; the verdict comes from the announcement.)
	writableFn := func(s *c03Srv) model.FunctionType {
		for _, fn := range s.all {
			if fn != s.primary && s.regWritable(fn) && r.Intn(3) == 0 {
				return fn
			}
		}
		if !s.regWritable(s.primary) {
			panic("harness: no writable function")
		}
		return s.primary
	}
	// after a revocation by peer pi: the former holder tries again, and a holder that must not be affected writes too
	followUps := func(pi int, lost []string, what string, lostCli map[string]string) {
		for _, s := range lost {
			queue = append(queue, c03Write{peer: pi, cli: lostCli[s], srv: s, fn: writableFn(cw.srv[s]), class: "former-holder", after: what})
		}
		for _, s := range holders() {
			h := cw.binds[s]
			if h.peer != pi || strings.HasPrefix(what, "entity-") || what == "unbind" {
				queue = append(queue, c03Write{peer: h.peer, cli: h.cli, srv: s, fn: writableFn(cw.srv[s]), class: "holder", after: "bystander-of-" + what})
				break
			}
		}
	}

	announceEntity := func(pi int, ek string) {
		p := w.Peers[pi]
		ent := c03EntAddr[ek]
		var feats []rig.FS
		for _, f := range c03PeerFeats {
			if c03Ent(f) == ek {
				feats = append(feats, f.FS())
			}
		}
		p.NotifyDiscovery(true, cw.disc(p, feats, map[string]model.NetworkManagementStateChangeType{fmt.Sprint(ent): model.NetworkManagementStateChangeTypeAdded}, nil))
		cw.hasEnt[pi][ek] = true
		c.Count("op:entity-added", 1)
	}

	// dropEntities: peer pi announces that the entities `gone` (all present) exist no longer, with ONE detailed discovery
	// notify: how = "partial" lists them with lastStateChange=removed (now and then behind an entity the stack never
	// knew), how = "full" is a filter-less notify of the whole remaining tree (what is not listed is gone; an absent
	// entity that is listed comes back). Shadow model, from the statement: the writer's entity disappeared => its
	// bindings (and subscriptions) are gone for good; every other binding stays.
	dropEntities := func(step, pi int, gone []string, how string, alwaysReAdd bool) {
		p := w.Peers[pi]
		goneSet := map[string]bool{}
		for _, e := range gone {
			goneSet[e] = true
		}
		var lost []string
		lostCli := map[string]string{}
		for _, s := range c03Names {
			if h, ok := cw.binds[s]; ok && h.peer == pi && goneSet[c03Ent(cw.pf[h.cli])] {
				lost = append(lost, s)
				lostCli[s] = h.cli
			}
		}
		// evidence only: where the departing entities stand in the device's own entity list
		lastGone := ""
		for _, e := range p.RD.Entities() {
			if k := rkEnt(e.Address().Entity); goneSet[k] {
				lastGone = k
			}
		}
		var added []string
		if how == "partial" {
			var rem [][]uint
			unknownFirst := r.Intn(6) == 0
			if unknownFirst {
				rem = append(rem, []uint{7})
				c.Count("entity_removal_notifies_that_name_an_unknown_entity_first", 1)
			}
			for _, e := range gone {
				rem = append(rem, c03EntAddr[e])
			}
			log("#%d peer%d announces %v removed (one partial notify, unknown entity [7] first: %v); bindings that go with them: %v", step, pi, gone, unknownFirst, lostCli)
			p.NotifyDiscovery(true, cw.disc(p, nil, nil, rem))
		} else {
			feats := []rig.FS{rig.NMFS}
			var listed []string
			for _, e := range c03Ents {
				keep := cw.hasEnt[pi][e] && !goneSet[e]
				back := !cw.hasEnt[pi][e] && r.Intn(3) == 0
				if !keep && !back {
					continue
				}
				listed = append(listed, e)
				if back {
					added = append(added, e)
				}
				for _, f := range c03PeerFeats {
					if c03Ent(f) == e {
						feats = append(feats, f.FS())
					}
				}
			}
			log("#%d peer%d sends a FULL detailed discovery notify listing [0] and %v: %v are gone (device's entity list before: last of them %s), %v are new; bindings that go with them: %v", step, pi, listed, gone, lastGone, added, lostCli)
			p.NotifyDiscovery(false, cw.disc(p, feats, nil, nil))
		}
		for _, e := range gone {
			cw.hasEnt[pi][e] = false
			cw.removeEntityRefs(pi, e)
		}
		for _, e := range added {
			cw.hasEnt[pi][e] = true
		}
		teardowns++
		what := "entity-removed"
		if how == "full" {
			what = "entity-dropped-by-full-notify"
		}
		followUps(pi, lost, what, lostCli)
		if len(lost) > 0 && (r.Intn(2) == 0 || alwaysReAdd) { // announced again, but the binding must be gone for good
			for _, s := range lost {
				queue = append(queue, c03Write{peer: pi, cli: lostCli[s], srv: s, fn: writableFn(cw.srv[s]), class: "former-holder-re-added", after: what + "-and-added", readd: c03Ent(cw.pf[lostCli[s]])})
			}
		}
		notLast := 0
		for _, s := range lost {
			if c03Ent(cw.pf[lostCli[s]]) != lastGone {
				notLast++
			}
		}
		c.Count("op:"+what, 1)
		c.Count(fmt.Sprintf("%s:%d_entities_at_once", what, len(gone)), 1)
		if len(lost) > 0 {
			c.Count(fmt.Sprintf("%s:%d_entities_at_once:a_binding_holder_among_them", what, len(gone)), 1)
		}
		if notLast > 0 && len(gone) > 1 {
			c.Count(what+":several_entities_at_once:holder's_entity_is_not_the_last_of_them_in_the_device's_entity_list", 1)
		}
		shape = append(shape, fmt.Sprintf("entrem:%s:%v:%d:%d", how, gone, len(lost), len(added)))
		if n := p.PanicCount(); n > 0 {
			fail("panic", "the stack panicked: %s", p.Panics[n-1])
		}
		for qi, o := range takeAll() {
			if ns, _ := rkNotifies(o); len(ns) > 0 {
				fail("entity-change/unexpected-notify", "peer %d received %s", qi, rig.JS(ns[0].Raw))
			}
		}
		w.Core.Take()
	}

	doWrite := func(step int, wr c03Write) {
		s := cw.srv[wr.srv]
		p := w.Peers[wr.peer]
		if wr.readd != "" && cw.conn[wr.peer] && !cw.hasEnt[wr.peer][wr.readd] {
			log("#%d peer%d announces entity %s added", step, wr.peer, wr.readd)
			announceEntity(wr.peer, wr.readd)
			shape = append(shape, "entadd:"+wr.readd)
		}
		var src *model.FeatureAddressType
		if wr.cli == "unk" {
			src = rig.FA(p.Addr, []uint{1}, 99)
		} else {
			src = cw.pf[wr.cli].Addr(p, true)
		}
		announced := cw.announced(wr.peer, wr.cli)
		h, bound := cw.binds[wr.srv]
		// "the written function is announced as writable on that feature": read from the announcement, at this very moment
		// (the discovery read is spent where the announcement decides the verdict: on writes of the binding holder; for everybody
		// else the write is unauthorised whatever is announced, and the announcement is only recorded as evidence)
		byHolder := bound && h.peer == wr.peer && h.cli == wr.cli && announced
		var ops c03Ops
		opsFrom := "feature-information(evidence-only)"
		if byHolder {
			ops, opsFrom = cw.announcedOps(c, wr.peer, s, wr.fn)
		} else {
			ops, _ = c03OpsOf([]model.NodeManagementDetailedDiscoveryFeatureInformationType{*s.f.Information()}, s.f.Address(), wr.fn)
		}
		authorised := byHolder && ops.write
		// address forms. Source: the writer's own device, no device part, or (unauthorised writers only) the device of
		// somebody else - preferably of the peer that holds the binding with the same numbers. Destination: the local
		// device or no device part. Who writes is decided by the connection and the entity/feature numbers; naming the
		// holder's device over another connection does not make the holder the writer. (A foreign device in the
		// DESTINATION is C01's open finding D62 and not used here.)
		srcFull, dst := src, s.f.Address()
		form, foreignSrc := "", false
		if wr.cli != "unk" {
			switch k := r.Intn(20); {
			case k < 4:
				if p.Addr != "" { // (the peer without device address never names a device of its own)
					src, form = rkStripDevice(src), "source-device-omitted"
					if bound && h.peer == cw.noAddr && h.peer != wr.peer && h.cli == wr.cli {
						// on the wire this source address EQUALS the client address of the binding, which a peer without device address holds
						form = "source-device-omitted=the-address-of-the-device-less-holder"
					}
				}
			case k < 8 && !authorised:
				dev := []string{rig.LocalAddr, "nowhere", w.Peers[(wr.peer+1)%3].Addr, w.Peers[(wr.peer+2)%3].Addr}[r.Intn(4)]
				form = "source-device-foreign"
				if bound && h.peer != wr.peer && r.Intn(4) > 0 && w.Peers[h.peer].Addr != "" {
					dev, form = w.Peers[h.peer].Addr, "source-device-of-the-holder"
				}
				if dev == "" { // the peer without device address has no device name anybody could borrow
					dev = "nowhere"
				}
				c2 := *src
				c2.Device = util.Ptr(model.AddressDeviceType(dev))
				src, foreignSrc = &c2, true
			}
		}
		if r.Intn(5) == 0 {
			dst = rkStripDevice(dst)
			form += "+destination-device-omitted"
		}
		form = strings.TrimPrefix(form, "+")
		cw.val++
		v := cw.val
		ack := r.Intn(3) > 0
		// payload: full write, or a partial write to the existing id 1 of the flag-less list
		cmd := rig.CmdFor(wr.fn, rkPayload(wr.fn, v))
		wantData := rig.CanonAny(rkPayload(wr.fn, v))
		mode := "full"
		if rkIsList(wr.fn) && r.Intn(3) == 0 {
			if cur, ok := s.f.DataCopy(wr.fn).(*model.IdentificationListDataType); ok && cur != nil {
				// DataCopy shares the list's backing array with the store: build the expectation in a fresh list
				exp := &model.IdentificationListDataType{}
				for _, it := range cur.IdentificationData {
					if it.IdentificationId != nil && *it.IdentificationId == 1 {
						it.IdentificationValue = util.Ptr(model.IdentificationValueType(rkToken(v)))
						mode = "partial"
					}
					exp.IdentificationData = append(exp.IdentificationData, it)
				}
				if mode == "partial" {
					cmd = rig.CmdFor(wr.fn, rkPartial(wr.fn, v))
					cmd.Function = util.Ptr(wr.fn)
					cmd.Filter = []model.FilterType{*model.NewFilterTypePartial()}
					wantData = rig.CanonAny(exp)
				}
			}
		}
		// an unauthorised write of a list function with the filters an authorised one may carry: delete (with and without
		// selector), partial with selector, both. None of them may touch the data.
		if mode == "full" && !authorised && wr.fnElem == "" && (wr.fn == model.FunctionTypeIdentificationListData || wr.fn == model.FunctionTypeSessionIdentificationListData) && r.Intn(2) == 0 {
			del := func(withSel bool, id uint) model.FilterType {
				f := model.FilterType{CmdControl: &model.CmdControlType{Delete: &model.ElementTagType{}}}
				if withSel && wr.fn == model.FunctionTypeIdentificationListData {
					f.IdentificationListDataSelectors = &model.IdentificationListDataSelectorsType{IdentificationId: util.Ptr(model.IdentificationIdType(id))}
				} else if withSel {
					f.SessionIdentificationListDataSelectors = &model.SessionIdentificationListDataSelectorsType{SessionId: util.Ptr(model.SessionIdType(id))}
				}
				return f
			}
			part := func(withSel bool, id uint) model.FilterType {
				f := *model.NewFilterTypePartial()
				if withSel && wr.fn == model.FunctionTypeIdentificationListData {
					f.IdentificationListDataSelectors = &model.IdentificationListDataSelectorsType{IdentificationId: util.Ptr(model.IdentificationIdType(id))}
				} else if withSel {
					f.SessionIdentificationListDataSelectors = &model.SessionIdentificationListDataSelectorsType{SessionId: util.Ptr(model.SessionIdType(id))}
				}
				return f
			}
			empty := func() any {
				if wr.fn == model.FunctionTypeIdentificationListData {
					return &model.IdentificationListDataType{}
				}
				return &model.SessionIdentificationListDataType{}
			}
			one := func() any { // one element without identifier: what a selector-addressed update carries
				if wr.fn == model.FunctionTypeIdentificationListData {
					return &model.IdentificationListDataType{IdentificationData: []model.IdentificationDataType{{IdentificationValue: util.Ptr(model.IdentificationValueType(rkToken(v)))}}}
				}
				return &model.SessionIdentificationListDataType{SessionIdentificationData: []model.SessionIdentificationDataType{{IdentificationId: util.Ptr(model.IdentificationIdType(uint(v)))}}}
			}
			id := uint(1 + r.Intn(2))
			switch r.Intn(5) {
			case 0:
				mode, cmd = "delete-filter+selector", rig.CmdFor(wr.fn, empty())
				cmd.Filter = []model.FilterType{del(true, id)}
			case 1:
				mode, cmd = "delete-filter-without-selector", rig.CmdFor(wr.fn, empty())
				cmd.Filter = []model.FilterType{del(false, 0)}
			case 2:
				mode, cmd = "partial-filter+selector", rig.CmdFor(wr.fn, one())
				cmd.Filter = []model.FilterType{part(true, id)}
			case 3:
				mode, cmd = "partial-filter+delete-filter+selector", rig.CmdFor(wr.fn, rkPayloadOrPartial(wr.fn, v))
				cmd.Filter = []model.FilterType{part(false, 0), del(true, 3-id)}
			default:
				mode, cmd = "delete-filter+selector+partial-filter", rig.CmdFor(wr.fn, rkPayloadOrPartial(wr.fn, v))
				cmd.Filter = []model.FilterType{del(true, id), part(false, 0)}
			}
			cmd.Function = util.Ptr(wr.fn)
			c.Count("unauthorised_writes_with:"+mode, 1)
		}
		switch {
		case mode != "full":
		case wr.fnElem == "match":
			cmd.Function = util.Ptr(wr.fn)
			mode = "full+function-element"
			c.Count("function_element:equal-to-the-data-element's-function", 1)
		case wr.fnElem == "mismatch":
			// the data element decides which function is written; the function element names another, writable one
			named := writableFn(s)
			cmd.Function = util.Ptr(named)
			mode = "full+function-element=" + string(named)
			if r.Intn(4) == 0 {
				cmd.Filter = []model.FilterType{*model.NewFilterTypePartial()}
				mode += "+partial-filter"
			}
			c.Count("function_element:writable-function-named-while-data-element-is-of-another-function", 1)
		}
		log("#%d write(%s,%s,ack=%v) peer%d %s -> %s.%s from %s to "+rkKey(dst)+" class=%s%s authorised=%v (holder %v, writer announced=%v; function announced as %s [%s], registered as %q)", step, mode, rkToken(v), ack, wr.peer, wr.cli, wr.srv, wr.fn, rkKey(src),
			wr.class, map[bool]string{true: " after " + wr.after, false: ""}[wr.after != ""], authorised, cw.binds[wr.srv], announced, ops, opsFrom, s.reg[wr.fn])
		before := cw.snapshot()
		takeAll()
		w.Core.Take()
		mc := p.Send(model.CmdClassifierTypeWrite, src, dst, ack, nil, cmd)
		after := cw.snapshot()
		outs := takeAll()
		evs := w.Core.Take()
		if wr.fnElem == "mismatch" && authorised {
			// The generator aims these cmds at functions it registered WITHOUT the write flag; if the announcement nevertheless lists the
			// data element's function as writable (the library re-interpreted a registration), this is a contradictory cmd of an authorised
			// writer: the statement allows the change and does not demand it. Not judged (never seen on the unchanged tree).
			c.Count("not-judged:function-element-mismatch-while-the-data-element's-function-is-announced-writable", 1)
			return
		}
		c.Events(1)
		what := "write/" + wr.class
		if form != "" {
			what += "/" + strings.ReplaceAll(form, "+", "/")
		}
		key := wr.srv + "." + string(wr.fn)

		// data
		var changedKeys []string
		for k := range before {
			if before[k] != after[k] {
				changedKeys = append(changedKeys, k)
			}
		}
		sort.Strings(changedKeys)
		c.Events(int64(len(before)))
		if !authorised && len(changedKeys) > 0 {
			fail(what+"/unauthorised-write-changed-data", "an unauthorised write changed %v: %s -> %s", changedKeys, before[changedKeys[0]], after[changedKeys[0]])
		}
		if authorised {
			switch {
			case after[key] == before[key]:
				fail(what+"/authorised-write-refused", "an authorised write left %s unchanged; writer's tap: %s", key, rig.JS(outs[wr.peer]))
			case after[key] != wantData:
				fail(what+"/authorised-write-wrong-data", "%s is %s after the write, expected %s", key, after[key], wantData)
			}
			for _, k := range changedKeys {
				if k != key {
					fail(what+"/write-changed-other-function", "a write to %s changed %s", key, k)
				}
			}
		}
		// results
		res := rig.Classify(outs[wr.peer], mc)
		c.Events(int64(len(res.All)))
		if authorised {
			if res.Errors > 0 || res.Success > 1 || res.Replies+res.OtherRef > 0 || (!ack && res.Success > 0) {
				fail(what+"/authorised-write-answered-wrongly", "responses to an authorised write: %s (ack requested: %v)", res, ack)
			}
		} else if announced && !foreignSrc {
			if res.Errors != 1 || res.Success+res.Replies+res.OtherRef != 0 {
				sig := what + "/unauthorised-write-result-count"
				if res.Success > 0 {
					sig = what + "/unauthorised-write-acknowledged"
				}
				fail(sig, "an unauthorised write by an announced feature must get exactly one error result, got %s: %s", res, rig.JS(res.All))
			}
			for _, d := range res.All {
				// (a device part the request omitted may be filled in or left out in the answer)
				if (rkKey(d.Header.AddressDestination) != rkKey(src) && rkKey(d.Header.AddressDestination) != rkKey(srcFull)) || rkKey(d.Header.AddressSource) != rkKey(s.f.Address()) {
					fail(what+"/result-addressing", "error result goes from %s to %s, want %s to %s", rkKey(d.Header.AddressSource), rkKey(d.Header.AddressDestination), rkKey(s.f.Address()), rkKey(src))
				}
			}
		} else if res.Success > 0 {
			fail(what+"/unauthorised-write-acknowledged", "a write by a feature that is not announced (or that names a device other than its own as source) was acknowledged")
		}
		if form != "" {
			c.Count(fmt.Sprintf("address_form:%s:authorised=%v", form, authorised), 1)
		}
		// notifies: exactly the subscribers of the written feature if authorised, nobody otherwise
		for qi, q := range w.Peers {
			o := outs[qi]
			if qi == wr.peer {
				o = res.Unref
			}
			ns, others := rkNotifies(o)
			c.Events(int64(len(ns)))
			want := map[string]int{}
			if authorised {
				for k := range cw.subs {
					parts := strings.Split(k, "|")
					if parts[0] == fmt.Sprint(qi) && parts[2] == wr.srv {
						want[cw.pf[parts[1]].Key(q)]++
					}
				}
			}
			got := map[string]int{}
			for _, n := range ns {
				got[n.Dst]++
				if !authorised {
					fail(what+"/unauthorised-write-notified", "peer %d received a notify after an unauthorised write: %s", qi, rig.JS(n.Raw))
					continue
				}
				if n.Src != rkKey(s.f.Address()) || n.Fn != wr.fn || rig.CanonAny(n.Value) != after[key] {
					fail(what+"/notify-content", "notify to peer %d: from %s function %q data %s; want from %s function %s data %s", qi, n.Src, n.Fn, rig.JS(n.Value), rkKey(s.f.Address()), wr.fn, after[key])
				}
			}
			for dst, n := range want {
				if got[dst] != n {
					fail(what+"/authorised-write-notify-count", "subscriber %s of peer %d received %d notifies after an authorised write to %s (want %d)", dst, qi, got[dst], wr.srv, n)
				}
			}
			for dst := range got {
				if authorised && want[dst] == 0 {
					fail(what+"/notify-to-non-subscriber", "%s of peer %d is not subscribed to %s but was notified", dst, qi, wr.srv)
				}
			}
			if len(others) > 0 {
				fail(what+"/unexpected-datagram", "peer %d received %s", qi, rig.JS(others))
			}
		}
		// events
		var dc []rig.Ev
		for _, e := range evs {
			if e.P.EventType == api.EventTypeDataChange {
				dc = append(dc, e)
			}
		}
		c.Events(int64(len(dc)))
		if !authorised && len(dc) > 0 {
			fail(what+"/unauthorised-write-published-event", "a data change event was published for an unauthorised write: %s", dc[0])
		}
		if authorised {
			if len(dc) != 1 {
				fail(what+"/authorised-write-event-count", "%d data change events for an authorised write", len(dc))
			} else if e := dc[0]; rkFeatKey(e.P.LocalFeature) != rkKey(s.f.Address()) || e.P.Function != wr.fn || e.P.Ski != p.Ski || rkFeatKey(e.P.Feature) != rkKey(srcFull) ||
				e.P.CmdClassifier == nil || *e.P.CmdClassifier != model.CmdClassifierTypeWrite {
				fail(what+"/authorised-write-event-content", "event %s does not describe the write by %s to %s.%s", e, rkKey(src), wr.srv, wr.fn)
			}
		}
		if authorised {
			accepted++
			c.Count("writes_authorised", 1)
		} else {
			refused++
			c.Count("writes_unauthorised", 1)
			if !announced {
				c.Count("writes_unauthorised_by_unannounced_writer", 1)
			}
		}
		if wr.after != "" {
			afterRevocation++
			c.Count("writes_after:"+wr.after, 1)
		}
		c.Count("write_class:"+wr.class, 1)
		// the announcement dimension: what was announced for the written function, who held the binding, what happened
		verdict := map[bool]string{true: "accepted", false: "refused"}[authorised]
		// the address dimension: the writer holds a binding on another server feature - how does the written feature's address relate to that one?
		for _, o := range c03Names {
			if oh, ok := cw.binds[o]; ok && o != wr.srv && oh.peer == wr.peer && oh.cli == wr.cli && announced {
				oa, sa := cw.srv[o].f.Address(), s.f.Address()
				c.Count(fmt.Sprintf("writes_by_the_holder_of_another_server_feature:written_entity_is_%s:same_feature_id=%v:same_feature_type=%v:%s", c03EntRel(sa.Entity, oa.Entity), *oa.Feature == *sa.Feature, cw.srv[o].typ == s.typ, verdict), 1)
			}
		}
		c.Count(fmt.Sprintf("written_function_announced_as:%s:by_the_binding_holder=%v:%s", ops, byHolder, verdict), 1)
		c.Count("announcement_taken_from:"+opsFrom, 1)
		if wr.peer == cw.noAddr {
			c.Count("writes_by_the_peer_without_device_address:"+verdict, 1)
			if wr.after != "" {
				c.Count("writes_by_the_peer_without_device_address:after:"+wr.after+":"+verdict, 1)
			}
		} else if bound && h.peer == cw.noAddr {
			c.Count("writes_by_others_while_the_peer_without_device_address_holds_the_binding:"+verdict, 1)
		}
		shape = append(shape, fmt.Sprintf("w:%s:%s:%s:%s:%s:%s:%v", wr.class, wr.cli, wr.srv, wr.fn, ops, strings.SplitN(mode, "=", 2)[0]+":"+form, authorised))
	}

	nOps := 15 + r.Intn(16)
	for step := 0; step < nOps && !c.Failed(); step++ {
		if len(queue) > 0 {
			wr := queue[0]
			queue = queue[1:]
			doWrite(step, wr)
			continue
		}
		pi := r.Intn(3)
		roll := r.Intn(100)
		hs := holders()
		if len(hs) == 0 && roll >= 19 && roll < 72 {
			roll = 0 // nothing is bound: bind first
		}
		forcedEnt := ""
		if len(forced) > 0 {
			roll, pi, forcedEnt = forced[0].roll, forced[0].pi, forced[0].ent
			forced = forced[1:]
		}
		p := w.Peers[pi]
		switch {
		case roll < 19: // ---------------- bind
			srv := c03Names[r.Intn(3)]
			if !cw.conn[pi] {
				continue
			}
			cs := cw.clientsFor(srv)
			cli := cs[r.Intn(len(cs))]
			_, bound := cw.binds[srv]
			want := !bound && cw.announced(pi, cli)
			f := cw.pf[cli]
			takeAll()
			mc := p.Bind(f.Addr(p, true), cw.srv[srv].f.Address(), cw.srv[srv].typ)
			ok, bad, _ := rkResultOf(takeAll()[pi], mc)
			log("#%d bind peer%d %s -> %s expect=%v got ok=%d err=%d", step, pi, cli, srv, want, ok, bad)
			if cw.announced(pi, cli) && ((ok == 1) != want || ok+bad != 1) {
				fail("bind/result-differs-from-reference", "bind by peer%d %s on %s: success=%d error=%d, reference grant=%v (holder %v)", pi, cli, srv, ok, bad, want, cw.binds[srv])
			}
			if ok == 1 && !bound {
				cw.binds[srv] = c03Holder{pi, cli}
				if r.Intn(2) == 0 { // "accepted once the binding is granted"
					queue = append(queue, c03Write{peer: pi, cli: cli, srv: srv, fn: writableFn(cw.srv[srv]), class: "holder", after: ""})
				}
			}
			c.Count("op:bind", 1)
			shape = append(shape, fmt.Sprintf("bind:%s:%s:%v", cli, srv, ok == 1))

		case roll >= 62 && roll < 66: // ---------------- a FULL discovery notify that drops one, two or three entities at once
			if forcedEnt == "" && len(hs) > 0 && r.Intn(4) > 0 { // prefer a peer that holds a binding
				pi = cw.binds[hs[r.Intn(len(hs))]].peer
				p = w.Peers[pi]
			}
			if !cw.conn[pi] {
				continue
			}
			var present []string
			for _, e := range c03Ents {
				if cw.hasEnt[pi][e] {
					present = append(present, e)
				}
			}
			if len(present) == 0 {
				continue
			}
			r.Shuffle(len(present), func(i, j int) { present[i], present[j] = present[j], present[i] })
			n := 1 + r.Intn(len(present))
			if n == 1 && len(present) > 1 && r.Intn(2) == 0 {
				n = 2
			}
			if forcedEnt != "" && cw.hasEnt[pi][forcedEnt] { // the holder's entity is among them, and not the only one
				for i, e := range present {
					if e == forcedEnt {
						present[0], present[i] = present[i], present[0]
					}
				}
				if n == 1 && len(present) > 1 {
					n = 2
				}
			}
			takeAll()
			w.Core.Take()
			dropEntities(step, pi, present[:n], "full", forcedEnt != "")

		case roll >= 59 && roll < 62: // ---------------- the application adds a function to a server feature while peers are connected
			// "at the moment it is processed": what is announced for a function can change during a history. A function of the
			// feature's type that was never added is added now (read-write, write-only, read-only or without operations); now and
			// then a function that IS added is registered once more with the opposite flags (whatever the library makes of that -
			// the oracle reads the announcement before every write anyway). Writes of the holder and of a non-holder follow.
			var cands []*c03Srv
			for _, n := range c03Names {
				if fn := notAddedFn(cw.srv[n]); fn == cw.srv[n].all[0] || fn == cw.srv[n].all[1] {
					cands = append(cands, cw.srv[n])
				}
			}
			var s *c03Srv
			var fn model.FunctionType
			reg, how := "", "function-added"
			if len(cands) > 0 && r.Intn(5) > 0 {
				s = cands[r.Intn(len(cands))]
				fn, reg = notAddedFn(s), c03Pick(r, "RW", 4, "WO", 3, "RO", 2, "--", 1)
				s.f.AddFunctionType(fn, c03Flags[reg][0], c03Flags[reg][1])
				s.reg[fn] = reg
			} else {
				s = cw.srv[c03Names[r.Intn(3)]]
				fn = s.all[r.Intn(2)]
				if _, added := s.reg[fn]; !added {
					fn = s.primary
				}
				how = "function-registered-again-with-the-opposite-flags"
				reg = s.reg[fn]
				s.f.AddFunctionType(fn, !c03Flags[reg][0], !c03Flags[reg][1])
			}
			log("#%d the application calls AddFunctionType(%s) on %s: %s (harness registration now %q)", step, fn, s.name, how, s.reg[fn])
			for qi, o := range takeAll() {
				if ns, _ := rkNotifies(o); len(ns) > 0 {
					fail("function-added/unexpected-notify", "peer %d received %s", qi, rig.JS(ns[0].Raw))
				}
			}
			w.Core.Take()
			c.Count("op:"+how+":"+reg, 1)
			shape = append(shape, fmt.Sprintf("addfn:%s:%s:%s:%s", how, s.name, fn, reg))
			if h, bound := cw.binds[s.name]; bound {
				queue = append(queue, c03Write{peer: h.peer, cli: h.cli, srv: s.name, fn: fn, class: "holder+" + how})
				if r.Intn(2) == 0 {
					queue = append(queue, c03Write{peer: (h.peer + 1 + r.Intn(2)) % 3, cli: h.cli, srv: s.name, fn: fn, class: "same-numbers-from-other-peer+" + how})
				}
			} else {
				queue = append(queue, c03Write{peer: pi, cli: cw.clientsFor(s.name)[r.Intn(3)], srv: s.name, fn: fn, class: "no-binding-on-feature+" + how})
			}

		case roll < 66: // ---------------- write
			srv := hs[r.Intn(len(hs))]
			if r.Intn(6) == 0 {
				srv = c03Names[r.Intn(3)]
			}
			s := cw.srv[srv]
			h, bound := cw.binds[srv]
			wr := c03Write{srv: srv, fn: writableFn(s)}
			k := r.Intn(100)
			// addedNotWritable: a function the harness added WITHOUT the write flag: read-only, or with no operation at all ("--")
			addedNotWritable := func() (model.FunctionType, string) {
				for _, fn := range s.all {
					switch s.reg[fn] {
					case "RO":
						return fn, "read-only"
					case "--":
						return fn, "operation-less"
					}
				}
				return "", ""
			}
			// notWritable: a function that a remote write must never change: added read-only or without operations, or never added
			notWritable := func() (model.FunctionType, string) {
				if fn, how := addedNotWritable(); fn != "" {
					return fn, how
				}
				return notAddedFn(s), "not-added"
			}
			switch {
			case !bound:
				wr.class, wr.peer, wr.cli = "no-binding-on-feature", pi, cw.clientsFor(srv)[r.Intn(3)]
				// half of them by a client that holds a binding on ANOTHER server feature of the same type (same feature id in another -
				// parent, nested, sibling or unrelated - entity): a binding to that feature is not a binding to this one
				if r.Intn(2) == 0 {
					for _, o := range hs {
						if oh := cw.binds[o]; cw.srv[o].typ == s.typ && (wr.class == "no-binding-on-feature" || r.Intn(2) == 0) {
							wr.class, wr.peer, wr.cli = "no-binding-on-feature:writer-holds-other-feature", oh.peer, oh.cli
						}
					}
				}
			case k < 40:
				wr.class, wr.peer, wr.cli = "holder", h.peer, h.cli
			case k < 51:
				wr.class, wr.peer, wr.cli = "same-numbers-from-other-peer", (h.peer+1+r.Intn(2))%3, h.cli
			case k < 60:
				wr.class, wr.peer = "other-client-of-holder", h.peer
				for _, o := range cw.clientsFor(srv) { // another client feature of the holder's peer, same type
					if o != h.cli && (wr.cli == "" || r.Intn(2) == 0) {
						wr.cli = o
					}
				}
			case k < 67:
				// the holder of another server feature writes here
				wr.class, wr.peer, wr.cli = "holder-of-other-feature", pi, cw.clientsFor(srv)[r.Intn(3)]
				for _, o := range hs {
					if oh := cw.binds[o]; o != srv && cw.srv[o].typ == s.typ && (oh.peer != h.peer || oh.cli != h.cli) {
						wr.peer, wr.cli = oh.peer, oh.cli
					}
				}
			case k < 74:
				wr.peer, wr.cli = h.peer, h.cli
				if fn, how := addedNotWritable(); fn != "" {
					wr.class, wr.fn = how+"-function", fn
				} else {
					wr.class, wr.fn = "function-not-added", notAddedFn(s)
				}
			case k < 83:
				wr.class, wr.peer, wr.cli = "function-not-added", h.peer, h.cli
				wr.fn = notAddedFn(s) // a function of the feature's own type that was never added
				if r.Intn(4) == 0 {
					wr.class = "function-of-foreign-type"
					wr.fn = model.FunctionTypeIdentificationListData
					if s.typ == model.FeatureTypeTypeIdentification {
						wr.fn = model.FunctionTypeDeviceClassificationUserData
					}
				}
			case k < 94:
				// the cmd names a writable function in its 'function' element and carries the data element of a function
				// of the same feature type that is read-only or was never added: the written function is not writable
				var how string
				wr.peer, wr.cli = h.peer, h.cli
				wr.fn, how = notWritable()
				wr.class, wr.fnElem = "function-element-mismatch:data-element-of-"+how+"-function", "mismatch"
			default:
				wr.class, wr.peer, wr.cli = "unknown-writer-feature", h.peer, "unk"
			}
			// writes that fail BOTH conditions (no binding and no write permission) must still get exactly one error result
			if bound && (strings.HasPrefix(wr.class, "read-only-function") || strings.HasPrefix(wr.class, "operation-less-function") || strings.HasPrefix(wr.class, "function-not-added") || wr.class == "function-of-foreign-type" || wr.fnElem == "mismatch") && r.Intn(3) == 0 {
				wr.peer = (h.peer + 1 + r.Intn(2)) % 3
				wr.class += "+non-holder"
			}
			if !bound && r.Intn(3) == 0 {
				if fn := notAddedFn(s); fn != "" {
					wr.fn = fn
					wr.class += "+function-not-added"
				}
				if fn, how := addedNotWritable(); fn != "" && r.Intn(2) == 0 {
					wr.fn = fn
					wr.class = "no-binding-on-feature+" + how + "-function"
				}
				if r.Intn(3) == 0 {
					wr.fnElem = "mismatch"
					wr.class += "+function-element-mismatch"
				}
			}
			// the function element that merely repeats the data element's function changes nothing
			if wr.fnElem == "" && r.Intn(5) == 0 {
				wr.fnElem = "match"
				wr.class += "+function-element"
			}
			if wr.cli != "unk" && !cw.announced(wr.peer, wr.cli) {
				wr.class += "+unannounced"
			}
			doWrite(step, wr)

		case roll < 72: // ---------------- re-announcement without reconnect
			// A peer announces again what it has announced before, with unchanged content: the whole detailed discovery
			// reply (what a second discovery read is answered with) or a partial notify lastStateChange=added for a known
			// entity. The stack may rebuild its objects; who holds a binding does not change.
			if len(hs) > 0 && r.Intn(3) > 0 { // prefer a peer that holds a binding
				pi = cw.binds[hs[r.Intn(len(hs))]].peer
				p = w.Peers[pi]
			}
			if !cw.conn[pi] {
				continue
			}
			var present []string
			for _, ek := range c03Ents {
				if cw.hasEnt[pi][ek] {
					present = append(present, ek)
				}
			}
			var mine []string // server features this peer holds
			mineCli := map[string]string{}
			for _, sn := range c03Names {
				if h, ok := cw.binds[sn]; ok && h.peer == pi {
					mine = append(mine, sn)
					mineCli[sn] = h.cli
				}
			}
			how := "reply"
			ek := ""
			if len(present) > 0 && r.Intn(2) == 0 {
				how, ek = "added", present[r.Intn(len(present))]
				if len(mine) > 0 && r.Intn(4) > 0 { // the entity of a client that holds a binding
					ek = c03Ent(cw.pf[mineCli[mine[r.Intn(len(mine))]]])
				}
			}
			takeAll()
			w.Core.Take()
			// in every second one the features carry a new description text: addresses, roles and types - what makes a
			// feature "the same" - are unchanged
			desc := ""
			if r.Intn(2) == 0 {
				reann++
				desc = fmt.Sprintf("revision %d", reann)
				c.Count("re-announcements_with_new_description_texts", 1)
			}
			withDesc := func(f rig.FS) rig.FS { f.Desc = desc; return f }
			if how == "reply" {
				feats := []rig.FS{withDesc(rig.NMFS)}
				for _, f := range c03PeerFeats {
					if cw.hasEnt[pi][c03Ent(f)] {
						feats = append(feats, withDesc(f.FS()))
					}
				}
				log("#%d peer%d sends its detailed discovery reply again (entities %v, same addresses, roles and types; descriptions %q); it holds %v", step, pi, present, desc, mine)
				cw.announce(p, feats)
			} else {
				ent := c03EntAddr[ek]
				var feats []rig.FS
				for _, f := range c03PeerFeats {
					if c03Ent(f) == ek {
						feats = append(feats, withDesc(f.FS()))
					}
				}
				log("#%d peer%d announces the known entity %s as added again (same addresses, roles and types; descriptions %q); it holds %v", step, pi, ek, desc, mine)
				p.NotifyDiscovery(true, cw.disc(p, feats, map[string]model.NetworkManagementStateChangeType{fmt.Sprint(ent): model.NetworkManagementStateChangeTypeAdded}, nil))
			}
			for qi, o := range takeAll() {
				if ns, _ := rkNotifies(o); len(ns) > 0 {
					fail("re-announcement/unexpected-notify", "peer %d received %s", qi, rig.JS(ns[0].Raw))
				}
			}
			w.Core.Take()
			c.Count("op:re-announcement:"+how, 1)
			if len(mine) > 0 {
				c.Count("re-announcements_by_a_binding_holder", 1)
			} else {
				c.Count("re-announcements_by_a_bystander", 1)
			}
			shape = append(shape, fmt.Sprintf("reann:%s:%s:%d", how, ek, len(mine)))
			// the holder still writes, and so does a holder on another connection
			if len(mine) > 0 && r.Intn(2) == 0 {
				sn := mine[r.Intn(len(mine))]
				queue = append(queue, c03Write{peer: pi, cli: mineCli[sn], srv: sn, fn: writableFn(cw.srv[sn]), class: "holder", after: "re-announcement"})
			}
			for _, sn := range holders() {
				if h := cw.binds[sn]; h.peer != pi && r.Intn(3) == 0 {
					queue = append(queue, c03Write{peer: h.peer, cli: h.cli, srv: sn, fn: writableFn(cw.srv[sn]), class: "holder", after: "bystander-of-re-announcement"})
					break
				}
			}
			// ... and the teardown that follows must find what it has to remove (and nothing else)
			if len(mine) > 0 && r.Intn(3) > 0 {
				switch r.Intn(5) {
				case 0:
					forced = append(forced, c03Forced{roll: 81, pi: pi}, c03Forced{roll: 87, pi: pi}) // disconnect, then reconnect
				case 1:
					forced = append(forced, c03Forced{roll: 87, pi: pi}) // reconnect
				case 2:
					forced = append(forced, c03Forced{roll: 63, pi: pi, ent: c03Ent(cw.pf[mineCli[mine[r.Intn(len(mine))]]])}) // full notify without the holder's entity
				default:
					forced = append(forced, c03Forced{roll: 99, pi: pi, ent: c03Ent(cw.pf[mineCli[mine[r.Intn(len(mine))]]])})
				}
				c.Count("re-announcements_followed_by_a_teardown_of_the_holder", 1)
			}

		case roll < 81: // ---------------- unbind
			if !cw.conn[pi] {
				continue
			}
			srv := c03Names[r.Intn(3)]
			cli := cw.clientsFor(srv)[r.Intn(3)]
			if len(hs) > 0 && r.Intn(3) > 0 {
				srv = hs[r.Intn(len(hs))]
				pi, cli = cw.binds[srv].peer, cw.binds[srv].cli
				p = w.Peers[pi]
			}
			if !cw.announced(pi, cli) {
				continue
			}
			h, bound := cw.binds[srv]
			want := bound && h.peer == pi && h.cli == cli
			takeAll()
			mc := p.Unbind(cw.pf[cli].Addr(p, true), cw.srv[srv].f.Address())
			ok, bad, _ := rkResultOf(takeAll()[pi], mc)
			log("#%d unbind peer%d %s -> %s expect=%v got ok=%d err=%d", step, pi, cli, srv, want, ok, bad)
			if (ok == 1) != want || ok+bad != 1 {
				fail("unbind/result-differs-from-reference", "unbind by peer%d %s on %s: success=%d error=%d, reference %v (holder %v)", pi, cli, srv, ok, bad, want, cw.binds[srv])
			}
			if ok == 1 && want {
				delete(cw.binds, srv)
				teardowns++
				followUps(pi, []string{srv}, "unbind", map[string]string{srv: cli})
			}
			c.Count("op:unbind", 1)
			shape = append(shape, fmt.Sprintf("unbind:%s:%s:%v", cli, srv, ok == 1))

		case roll < 87: // ---------------- disconnect
			if !cw.conn[pi] {
				continue
			}
			log("#%d disconnect peer%d", step, pi)
			takeAll()
			w.Local.RemoveRemoteDeviceConnection(p.Ski)
			cw.conn[pi] = false
			var lost []string
			lostCli := map[string]string{}
			for _, s := range c03Names {
				if h, ok := cw.binds[s]; ok && h.peer == pi {
					lost = append(lost, s)
					lostCli[s] = h.cli
					delete(cw.binds, s)
				}
			}
			for k := range cw.subs {
				if strings.HasPrefix(k, fmt.Sprintf("%d|", pi)) {
					delete(cw.subs, k)
				}
			}
			teardowns++
			lostAtDisconnect[pi] = lostCli
			followUps(pi, lost, "disconnect", lostCli) // the former holder writes over the stale connection object
			c.Count("op:disconnect", 1)
			shape = append(shape, fmt.Sprintf("disconnect:%d", len(lost)))

		case roll < 93: // ---------------- reconnect + re-announce
			var lost []string
			lostCli := map[string]string{}
			for _, s := range c03Names {
				if h, ok := cw.binds[s]; ok && h.peer == pi {
					lost = append(lost, s)
					lostCli[s] = h.cli
				}
			}
			log("#%d reconnect + re-announce peer%d (was connected: %v)", step, pi, cw.conn[pi])
			what := "reconnect"
			if !cw.conn[pi] && len(lostAtDisconnect[pi]) > 0 {
				// the bindings went with the disconnect; coming back with the same SKI and addresses does not bring them back
				what = "disconnect-and-reconnect"
				for _, s := range c03Names {
					if cl, ok := lostAtDisconnect[pi][s]; ok {
						lost = append(lost, s)
						lostCli[s] = cl
					}
				}
			}
			lostAtDisconnect[pi] = nil
			takeAll()
			cw.connect(pi, true)
			takeAll()
			w.Core.Take()
			if len(lost) > 0 && what == "reconnect" {
				teardowns++
			}
			followUps(pi, lost, what, lostCli) // announced again, but the binding is gone
			c.Count("op:reconnect", 1)
			shape = append(shape, fmt.Sprintf("reconnect:%d", len(lost)))

		default: // ---------------- remote entity removed / added
			if !cw.conn[pi] {
				continue
			}
			ek := []string{"[1,1]", "[1]", "[2]", "[1,1]"}[r.Intn(4)]
			if r.Intn(5) < 3 { // prefer announcing a removed entity again
				for _, e := range c03Ents {
					if !cw.hasEnt[pi][e] {
						ek = e
						break
					}
				}
			}
			if forcedEnt != "" && cw.hasEnt[pi][forcedEnt] { // the removal that follows a re-announcement
				ek = forcedEnt
			}
			takeAll()
			if cw.hasEnt[pi][ek] {
				// one, two or three entities go with one notify: a partial one that lists them as removed, or a full
				// (filter-less) one that simply does not list them any more
				gone := []string{ek}
				if r.Intn(5) < 2 {
					for _, e := range c03Ents {
						if e != ek && cw.hasEnt[pi][e] && r.Intn(3) > 0 {
							gone = append(gone, e)
						}
					}
					r.Shuffle(len(gone), func(i, j int) { gone[i], gone[j] = gone[j], gone[i] })
				}
				how := "partial"
				if r.Intn(5) < 2 {
					how = "full"
				}
				dropEntities(step, pi, gone, how, forcedEnt != "")
			} else {
				log("#%d peer%d announces entity %s added", step, pi, ek)
				announceEntity(pi, ek)
				// announced again, not bound: a write must be refused with exactly one error
				for _, s := range c03Names {
					for _, cl := range cw.clientsFor(s) {
						if c03Ent(cw.pf[cl]) == ek && r.Intn(3) == 0 {
							queue = append(queue, c03Write{peer: pi, cli: cl, srv: s, fn: writableFn(cw.srv[s]), class: "re-added-feature", after: "entity-added"})
						}
					}
				}
				shape = append(shape, "entadd:"+ek)
			}
			if n := p.PanicCount(); n > 0 {
				fail("panic", "the stack panicked: %s", p.Panics[n-1])
			}
			for qi, o := range takeAll() {
				if ns, _ := rkNotifies(o); len(ns) > 0 {
					fail("entity-change/unexpected-notify", "peer %d received %s", qi, rig.JS(ns[0].Raw))
				}
			}
			w.Core.Take()
		}
		for _, q := range w.Peers {
			if n := q.PanicCount(); n > 0 {
				fail("panic", "the stack panicked: %s", q.Panics[n-1])
				q.Panics = nil
			}
		}
	}
	if c.Failed() {
		c.Witness(map[string]any{"history": hist})
	}
	c.Shape(rkHash(shape...))
	c.NonTrivial(accepted > 0 && refused > 0 && afterRevocation > 0)
	c.Count("teardowns", int64(teardowns))
	c.Sample(map[string]any{"history": hist, "writes_accepted": accepted, "writes_refused": refused, "writes_after_revocation": afterRevocation})
}
