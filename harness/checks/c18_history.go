package checks

import (
	"fmt"
	"math/rand"
	"reflect"
	"runtime"
	"strings"
	"sync"
	"time"

	"github.com/enbility/spine-go/api"
	"github.com/enbility/spine-go/model"
	"github.com/enbility/spine-go/spine"

	"verifharness/rig"
)

// C18, histories. The statement speaks about "the command the API builds ... once encoded to JSON and decoded again"
// for all functions and all programs; it does not say that the command is encoded at once, alone, by the goroutine that
// built it, in a process that has never handed the API anything but well typed arguments. The parts of c18.go judged
// every command the moment it was built. This file adds the three dimensions that were pinned to one value:
//
//   lifetime     every command of a payload is kept alive while the others are built and is then encoded a second time,
//                all of them in ONE datagram (several commands per datagram is what Sender.Request takes), and judged by
//                the same judge (signatures late/<shape>/<deviation>); part api does the same across functions through
//                the stack's own Sender (api/batch-…), and reads the Sender's notify cache back after later notifies.
//   history      between the payloads of a function the API is called with arguments the function has no place for
//                (a selector for a function without selectors type, elements for one without elements type, a pointer of
//                another type where it has one): those calls are judged only for what the statement decides (function,
//                payload type, payload) — everything the statement does decide is judged again AFTER them.
//   concurrency  parts conc / conc-race: goroutines build and encode commands of the same function (separate objects), of
//                different functions and of one shared function data object, in lock step (all build, then all encode)
//                and free running; every decoded command is judged by the same judge (conc/<shape>/<deviation>), the
//                race detector watches the race binary.
//
// Verdicts are on values only; the wall clock is used for watchdogs (expiry => inconclusive).

// c18Held is a command that is kept alive after it was built.
type c18Held struct {
	s         c18Shape
	cmd       model.CmdType
	want      any
	m0        time.Time
	fn        model.FunctionType
	T         reflect.Type
	selT, elT reflect.Type
	id        string
}

// c18Late encodes all held commands in one datagram, decodes it and judges every command against what was asked for when
// it was built. Returns the number of commands judged completely.
func c18Late(c *rig.Ctx, prefix, idBase string, held []*c18Held, g *c18Gen) int {
	if len(held) == 0 {
		return 0
	}
	cmds := make([]model.CmdType, 0, len(held))
	for _, h := range held {
		cmds = append(cmds, h.cmd)
	}
	hdr := g.val(reflect.TypeOf(model.HeaderType{}), 0).Interface().(model.HeaderType)
	in := &model.Datagram{Datagram: model.DatagramType{Header: hdr, Payload: model.PayloadType{Cmd: cmds}}}
	outAny, js, eq, err := c18Roundtrip(in)
	if err != nil {
		c.Violate(prefix+"/codec-error", "%s: %d commands in one datagram: %v\n json=%s", idBase, len(held), err, c18Clip(js))
		return 0
	}
	out := outAny.(*model.Datagram)
	if len(out.Datagram.Payload.Cmd) != len(held) {
		c.Violate(prefix+"/cmd-count", "%s: %d commands were put into one datagram, %d came out\n json=%s", idBase, len(held), len(out.Datagram.Payload.Cmd), c18Clip(js))
		return 0
	}
	c.Count(prefix+"_datagrams_with_several_commands", 1)
	c.Seen(prefix+"_commands_per_datagram", fmt.Sprint(len(held)))
	n := 0
	for i, h := range held {
		oc := out.Datagram.Payload.Cmd[i]
		e := &c18Eq{m0: h.m0, t1: eq.t1}
		id := fmt.Sprintf("%s %s (command %d of %d, encoded after all of them had been built)", h.id, h.s.name, i+1, len(held))
		if c18JudgeCmd(c, prefix, id, h.s, h.fn, h.T, h.selT, h.elT, h.want, oc, e, js) {
			n++
		}
	}
	return n
}

// ---------------------------------------------------------------------------
// foreign arguments

type c18ForeignArg struct {
	kind string
	v    any
}

// c18ForeignArgs: arguments that are not the selectors / elements type of the function (own = the types the function has).
func c18ForeignArgs(r *rand.Rand, T reflect.Type, selT, elT reflect.Type, dp any) []c18ForeignArg {
	id := model.DeviceConfigurationKeyIdType(1 + r.Intn(9))
	str := fmt.Sprintf("s%d", r.Intn(9))
	args := []c18ForeignArg{
		{"selectors-type-of-another-function", &model.DeviceConfigurationKeyValueListDataSelectorsType{KeyId: &id}},
		{"elements-type-of-another-function", &model.MeasurementDataElementsType{MeasurementId: &model.ElementTagType{}, Timestamp: &model.ElementTagType{}}},
		{"filter-type", &model.FilterType{CmdControl: &model.CmdControlType{Partial: &model.ElementTagType{}}}},
		{"pointer-to-string", &str},
		{"struct-value-not-a-pointer", model.ElementTagType{}},
	}
	if dp != nil {
		args = append(args, c18ForeignArg{"payload-type-of-the-function", dp})
	}
	if elT != nil {
		g := c18NewGen(r, r.Intn(72))
		g.maxDepth = 2
		args = append(args, c18ForeignArg{"own-elements-type", g.ptrTo(elT)})
	}
	if selT != nil {
		g := c18NewGen(r, r.Intn(72))
		g.maxDepth = 2
		args = append(args, c18ForeignArg{"own-selectors-type", g.ptrTo(selT)})
	}
	return args
}

func c18IsType(v any, t reflect.Type) bool {
	return t != nil && reflect.TypeOf(v) == reflect.PtrTo(t)
}

// c18ForeignCalls calls the API of one function with arguments it has no place for and judges of the commands only what
// the statement decides. Returns the number of calls judged and their names.
func c18ForeignCalls(c *rig.Ctx, pr c18Pair, fd api.FunctionDataCmdInterface, T, selT, elT reflect.Type, dp any, rep int, g *c18Gen) (n int, trace []string) {
	fn := pr.Fn.Fn
	args := c18ForeignArgs(c.Rand, T, selT, elT, dp)
	pick := func(not reflect.Type, off int) c18ForeignArg {
		for k := 0; k < len(args); k++ {
			a := args[(rep+c.Index+off+k)%len(args)]
			if !c18IsType(a.v, not) {
				return a
			}
		}
		return args[0]
	}
	var el any
	if elT != nil {
		ge := c18NewGen(c.Rand, c.Rand.Intn(72))
		ge.maxDepth = 2
		el = ge.ptrTo(elT)
	}
	type call struct {
		name  string
		arg   c18ForeignArg
		build func(x any) model.CmdType
		pay   bool
	}
	var calls []call
	if selT == nil {
		a := pick(nil, 0)
		calls = append(calls, call{"read+foreign-selector", a, func(x any) model.CmdType { return fd.ReadCmdType(x, nil) }, false})
		switch (rep + c.Index) % 3 {
		case 0:
			calls = append(calls, call{"notify-delete+foreign-selector", pick(nil, 1), func(x any) model.CmdType { return fd.NotifyOrWriteCmdType(x, nil, false, nil) }, true})
		case 1:
			calls = append(calls, call{"notify-partial+foreign-selector", pick(nil, 2), func(x any) model.CmdType { return fd.NotifyOrWriteCmdType(nil, x, false, nil) }, true})
		default:
			if el != nil {
				calls = append(calls, call{"read+foreign-selector+elements", pick(nil, 3), func(x any) model.CmdType { return fd.ReadCmdType(x, el) }, false})
			}
		}
	} else {
		// the function has a selectors type: a pointer of another type (converting it panics on the unchanged tree)
		calls = append(calls, call{"read+mistyped-selector", pick(selT, 0), func(x any) model.CmdType { return fd.ReadCmdType(x, nil) }, false})
	}
	if elT == nil {
		if (rep+c.Index)%2 == 0 {
			calls = append(calls, call{"read+foreign-elements", pick(nil, 4), func(x any) model.CmdType { return fd.ReadCmdType(nil, x) }, false})
		} else {
			calls = append(calls, call{"notify-delete+foreign-elements", pick(nil, 5), func(x any) model.CmdType { return fd.NotifyOrWriteCmdType(nil, nil, false, x) }, true})
		}
	} else {
		calls = append(calls, call{"notify-delete+mistyped-elements", pick(elT, 1), func(x any) model.CmdType { return fd.NotifyOrWriteCmdType(nil, nil, false, x) }, true})
	}
	for _, cl := range calls {
		cl := cl
		s := c18Shape{name: cl.name, kind: c18Kind(cl.name), payload: cl.pay, foreign: cl.arg.kind}
		s.build = func() model.CmdType { return cl.build(cl.arg.v) }
		c.Seen("foreign_argument_kinds", cl.arg.kind)
		c.Count("foreign:"+cl.name, 1)
		var cmd model.CmdType
		var panicked string
		func() {
			defer func() {
				if r := recover(); r != nil {
					buf := make([]byte, 4<<10)
					buf = buf[:runtime.Stack(buf, false)]
					panicked = fmt.Sprintf("%v @ %s", r, rig.InnermostSpineFrame(string(buf)))
				}
			}()
			cmd = s.build()
		}()
		if panicked != "" {
			// an argument outside the quantifier: a panic is not this property's; it is part of the history all the same
			c.Count("foreign_calls_that_panic", 1)
			c.Seen("foreign_calls_that_panic", strings.SplitN(cl.name, "+", 2)[1]+" <- "+cl.arg.kind)
			continue
		}
		want := dp
		if !cl.pay {
			want = reflect.New(T).Interface()
		}
		hdr := g.val(reflect.TypeOf(model.HeaderType{}), 0).Interface().(model.HeaderType)
		in := &model.Datagram{Datagram: model.DatagramType{Header: hdr, Payload: model.PayloadType{Cmd: []model.CmdType{cmd}}}}
		id := fmt.Sprintf("%s/%s %s <- %s", pr.FT, fn, cl.name, cl.arg.kind)
		outAny, js, eq, err := c18Roundtrip(in)
		if err != nil {
			c.Violate("shape/"+cl.name+"/codec-error", "%s: %v\n json=%s", id, err, c18Clip(js))
			continue
		}
		out := outAny.(*model.Datagram)
		if len(out.Datagram.Payload.Cmd) != 1 {
			c.Violate("shape/"+cl.name+"/cmd-count", "%s: %d commands after the round trip\n json=%s", id, len(out.Datagram.Payload.Cmd), c18Clip(js))
			continue
		}
		if c18JudgeCmd(c, "shape", id, s, fn, T, selT, elT, want, out.Datagram.Payload.Cmd[0], eq, js) {
			n++
			trace = append(trace, cl.name)
		}
	}
	return n, trace
}

// ---------------------------------------------------------------------------
// parts conc / conc-race

type c18Actor struct {
	ft        model.FeatureTypeType
	fn        model.FunctionType
	fd        api.FunctionDataCmdInterface
	T         reflect.Type
	selT, elT reflect.Type
	dp        any
	r         *rand.Rand
	judged    int
	built     int
}

// c18FilterPairs: the (feature type, function) pairs that can carry a selector or elements at all.
func c18FilterPairs() []c18Pair {
	c18FilterPairsOnce.Do(func() {
		for _, p := range c18Pairs() {
			if s, e := c18FilterTypes(p.Fn.Fn); s != nil || e != nil {
				c18FilterPairsV = append(c18FilterPairsV, p)
			}
		}
	})
	return c18FilterPairsV
}

var (
	c18FilterPairsOnce sync.Once
	c18FilterPairsV    []c18Pair
)

func c18NewFD(pr c18Pair) api.FunctionDataCmdInterface {
	for _, x := range spine.CreateFunctionData[api.FunctionDataCmdInterface](pr.FT) {
		if x.FunctionType() == pr.Fn.Fn {
			return x
		}
	}
	return nil
}

// shape draws one command shape with a filter wherever the function allows one.
func (a *c18Actor) shape(i int) c18Shape {
	mk := func(t reflect.Type) any {
		if t == nil {
			return nil
		}
		g := c18NewGen(a.r, a.r.Intn(72))
		g.maxDepth = 2 + a.r.Intn(2)
		return g.ptrTo(t)
	}
	fd := a.fd
	var s c18Shape
	sel, el := mk(a.selT), mk(a.elT)
	switch k := i % 6; {
	case k == 0 && sel != nil:
		s = c18Shape{name: "read+selector", build: func() model.CmdType { return fd.ReadCmdType(sel, nil) }, wantPartial: true, sel: sel}
	case k == 1 && sel != nil:
		s = c18Shape{name: "notify-partial+selector", build: func() model.CmdType { return fd.NotifyOrWriteCmdType(nil, sel, false, nil) }, payload: true, wantPartial: true, sel: sel}
	case k == 2 && sel != nil:
		s2 := mk(a.selT)
		s = c18Shape{name: "notify-delete+selector,partial+selector", build: func() model.CmdType { return fd.NotifyOrWriteCmdType(sel, s2, false, nil) }, payload: true, wantPartial: true, wantDelete: true, delSel: sel, sel: s2}
	case k == 3 && sel != nil && el != nil:
		s = c18Shape{name: "read+selector+elements", build: func() model.CmdType { return fd.ReadCmdType(sel, el) }, wantPartial: true, sel: sel, el: el}
	case k == 4 && sel != nil:
		s = c18Shape{name: "notify-delete+selector", build: func() model.CmdType { return fd.NotifyOrWriteCmdType(sel, nil, false, nil) }, payload: true, wantDelete: true, delSel: sel}
	case el != nil && k%2 == 0:
		s = c18Shape{name: "read+elements", build: func() model.CmdType { return fd.ReadCmdType(nil, el) }, wantPartial: true, el: el}
	case el != nil:
		s = c18Shape{name: "notify-delete+elements", build: func() model.CmdType { return fd.NotifyOrWriteCmdType(nil, nil, false, el) }, payload: true, wantDelete: true, delEl: el}
	default:
		s = c18Shape{name: "read+selector", build: func() model.CmdType { return fd.ReadCmdType(sel, nil) }, wantPartial: true, sel: sel}
	}
	s.kind = c18Kind(s.name)
	return s
}

// build builds one command (a panic is a violation: these are the well typed shapes of the statement).
func (a *c18Actor) build(c *rig.Ctx, s c18Shape, phase string) *c18Held {
	h := &c18Held{s: s, m0: time.Now(), fn: a.fn, T: a.T, selT: a.selT, elT: a.elT, id: fmt.Sprintf("%s/%s [%s]", a.ft, a.fn, phase)}
	ok := false
	func() {
		defer func() {
			if r := recover(); r != nil {
				buf := make([]byte, 4<<10)
				buf = buf[:runtime.Stack(buf, false)]
				c.Violate("conc/"+s.name+"/api-panics", "%s: building the command panics: %v @ %s", h.id, r, rig.InnermostSpineFrame(string(buf)))
			}
		}()
		h.cmd = s.build()
		ok = true
	}()
	if !ok {
		return nil
	}
	a.built++
	h.want = a.dp
	if !s.payload {
		h.want = reflect.New(a.T).Interface()
	}
	return h
}

// encode marshals one held command alone in a datagram, decodes it and judges it.
func (a *c18Actor) encode(c *rig.Ctx, h *c18Held) {
	if h == nil {
		return
	}
	in := &model.Datagram{Datagram: model.DatagramType{Payload: model.PayloadType{Cmd: []model.CmdType{h.cmd}}}}
	outAny, js, eq, err := c18Roundtrip(in)
	if err != nil {
		c.Violate("conc/"+h.s.name+"/codec-error", "%s: %v\n json=%s", h.id, err, c18Clip(js))
		return
	}
	out := outAny.(*model.Datagram)
	if len(out.Datagram.Payload.Cmd) != 1 {
		c.Violate("conc/"+h.s.name+"/cmd-count", "%s: %d commands after the round trip", h.id, len(out.Datagram.Payload.Cmd))
		return
	}
	eq.m0 = h.m0
	if c18JudgeCmd(c, "conc", h.id+" "+h.s.name, h.s, h.fn, h.T, h.selT, h.elT, h.want, out.Datagram.Payload.Cmd[0], eq, js) {
		a.judged++
	}
}

func c18Conc(c *rig.Ctx) {
	ps := c18FilterPairs()
	if len(ps) < 4 {
		c.Inconclusive("only %d functions with a selectors or elements type", len(ps))
		return
	}
	// actors 0 and 1: the same function, two function data objects; actor 2: another function; actor 3 shares the function
	// data OBJECT of actor 2 (what two callers of one FeatureLocal do); actor 4: a third function
	pa := ps[(c.Index*7)%len(ps)]
	pb := ps[(c.Index*7+1+c.Rand.Intn(len(ps)-1))%len(ps)]
	pc := ps[c.Rand.Intn(len(ps))]
	mkActor := func(pr c18Pair, fd api.FunctionDataCmdInterface) *c18Actor {
		a := &c18Actor{ft: pr.FT, fn: pr.Fn.Fn, fd: fd, T: pr.Fn.T, r: rand.New(rand.NewSource(c.Rand.Int63()))}
		a.selT, a.elT = c18FilterTypes(a.fn)
		return a
	}
	fdb := c18NewFD(pb)
	actors := []*c18Actor{mkActor(pa, c18NewFD(pa)), mkActor(pa, c18NewFD(pa)), mkActor(pb, fdb), mkActor(pb, fdb), mkActor(pc, c18NewFD(pc))}
	for i, a := range actors {
		if a.fd == nil {
			c.Violate("functiontable/function-vanished", "%s/%s is not returned by CreateFunctionData any more", a.ft, a.fn)
			return
		}
		if i == 3 {
			a.dp = actors[2].dp // one object, one stored value
			continue
		}
		g := c18NewGen(c.Rand, c.Index+i)
		g.fill, g.maxDepth = 1.0, 3
		a.dp = g.ptrTo(a.T)
		if _, err := a.fd.UpdateDataAny(false, true, a.dp, nil, nil); err != nil {
			c.Violate("store/full-update-rejected", "%s/%s: UpdateDataAny(full) failed: %s", a.ft, a.fn, err.String())
			return
		}
	}
	const burst = 4 // commands every goroutine builds between two barriers
	rounds, free := c.Pick(6, 30), c.Pick(12, 120)
	if c.Race {
		rounds, free = c.Pick(4, 12), c.Pick(12, 60)
	}
	n := len(actors)
	// a reusable barrier: every actor arrives, the last one opens the gate of this generation
	var bmu sync.Mutex
	arrived, gate := 0, make(chan struct{})
	barrier := func() {
		bmu.Lock()
		arrived++
		g := gate
		if arrived == n {
			arrived, gate = 0, make(chan struct{})
			bmu.Unlock()
			close(g)
			return
		}
		bmu.Unlock()
		<-g
	}
	ok, pan := rig.Guard(120*time.Second, func() {
		var wg sync.WaitGroup
		for i, a := range actors {
			wg.Add(1)
			go func(i int, a *c18Actor) {
				defer wg.Done()
				// phase 1, lock step: everybody builds, then everybody encodes what he built
				// (the arguments are drawn before the barrier, so that nothing but the API runs between the barriers)
				for r := 0; r < rounds; r++ {
					var ss []c18Shape
					for k := 0; k < burst; k++ {
						ss = append(ss, a.shape(r*burst+k+i))
					}
					hs := make([]*c18Held, 0, burst)
					barrier()
					for _, s := range ss {
						hs = append(hs, a.build(c, s, "lock step"))
					}
					barrier()
					for _, h := range hs {
						a.encode(c, h)
					}
				}
				barrier()
				// phase 2, free running: build, yield now and then, encode
				for r := 0; r < free; r++ {
					h := a.build(c, a.shape(r+2*i), "free running")
					if r%3 == 0 {
						runtime.Gosched()
					}
					a.encode(c, h)
				}
			}(i, a)
		}
		wg.Wait()
	})
	if pan != "" {
		c.Violate("conc/harness-panic", "%s", pan)
		return
	}
	if !ok {
		c.Inconclusive("the concurrent builders did not finish within 120 s")
		return
	}
	judged, built := 0, 0
	for _, a := range actors {
		judged += a.judged
		built += a.built
	}
	c.Count("conc_commands_built", int64(built))
	c.Count("conc_commands_judged", int64(judged))
	c.Count("conc_lockstep_rounds", int64(rounds))
	c.Count("conc_commands_built_between_barriers", int64(n*rounds*burst))
	c.Events(int64(judged))
	c.Seen("conc_functions", string(pa.Fn.Fn))
	c.Seen("conc_functions", string(pb.Fn.Fn))
	c.Seen("conc_functions", string(pc.Fn.Fn))
	c.Shape(fmt.Sprintf("conc/%s/%s/%s", pa.Fn.Fn, pb.Fn.Fn, pc.Fn.Fn))
	c.NonTrivial(judged == built && judged == n*(rounds*burst+free))
	c.Sample(map[string]any{"actors": []string{string(pa.FT) + "/" + string(pa.Fn.Fn) + " (object 1)", string(pa.FT) + "/" + string(pa.Fn.Fn) + " (object 2)", string(pb.FT) + "/" + string(pb.Fn.Fn) + " (shared object)", string(pb.FT) + "/" + string(pb.Fn.Fn) + " (shared object)", string(pc.FT) + "/" + string(pc.Fn.Fn)},
		"lockstep_rounds": rounds, "free_running_commands_per_actor": free, "commands_judged": judged})
}

// ---------------------------------------------------------------------------
// part api: commands of several functions in one request, and the Sender's memory of the notifications it sent

type c18SentNotify struct {
	ctr model.MsgCounterType
	h   *c18Held
}

// c18APIBatch builds filtered commands of several functions of the feature type, ALL of them before any is sent, hands
// them to the stack's Sender as one request (Sender.Request takes a list of commands) and judges every command of the
// datagram the Sender wrote to the connection. Returns the number of commands judged.
func c18APIBatch(c *rig.Ctx, FT model.FeatureTypeType, fns []rig.FnInfo, cli api.FeatureLocalInterface, dst *model.FeatureAddressType, rf api.FeatureRemoteInterface, p *rig.Peer) (judged int) {
	sender := rf.Device().Sender()
	for _, form := range []string{"read", "write"} {
		var held []*c18Held
		for _, f := range fns {
			pr := c18Pair{FT, f}
			fd := c18NewFD(pr)
			if fd == nil {
				continue
			}
			a := &c18Actor{ft: FT, fn: f.Fn, fd: fd, T: f.T, r: c.Rand}
			a.selT, a.elT = c18FilterTypes(f.Fn)
			if a.selT == nil && a.elT == nil {
				continue
			}
			g := c18NewGen(c.Rand, c.Index)
			g.fill, g.maxDepth = 1.0, 2
			a.dp = g.ptrTo(f.T)
			if _, err := fd.UpdateDataAny(false, true, a.dp, nil, nil); err != nil {
				continue
			}
			for _, k := range map[string][]int{"read": {0, 3, 6}, "write": {1, 2, 4, 5}}[form] {
				s := a.shape(k)
				if (form == "read") != (s.kind == "read") {
					continue
				}
				s.name = "batch-" + s.name
				if h := a.build(c, s, "one request of "+form+" commands"); h != nil {
					held = append(held, h)
				}
			}
		}
		if len(held) < 2 {
			continue
		}
		cmds := make([]model.CmdType, 0, len(held))
		for _, h := range held {
			cmds = append(cmds, h.cmd)
		}
		cl := model.CmdClassifierTypeRead
		if form == "write" {
			cl = model.CmdClassifierTypeWrite
		}
		p.Tap.Take()
		var err error
		ok, pan := rig.Guard(20*time.Second, func() { _, err = sender.Request(cl, cli.Address(), dst, false, cmds) })
		if pan != "" {
			c.Violate("api/batch-"+form+"/api-panics", "%s: Sender.Request with %d commands panics: %s", FT, len(cmds), pan)
			continue
		}
		if !ok {
			c.Inconclusive("%s: Sender.Request with %d commands did not return within 20 s", FT, len(cmds))
			continue
		}
		outs := p.Tap.Take()
		t1 := time.Now()
		if err != nil || len(outs) != 1 || len(outs[0].Payload.Cmd) != len(held) {
			n := -1
			if len(outs) == 1 {
				n = len(outs[0].Payload.Cmd)
			}
			c.Violate("api/batch-"+form+"/not-one-datagram-with-all-commands", "%s: Sender.Request(%d commands) err=%v wrote %d datagram(s), %d command(s) in the first", FT, len(held), err, len(outs), n)
			continue
		}
		c.Count("api_batch_requests", 1)
		c.Seen("api_batch_commands_per_datagram", fmt.Sprint(len(held)))
		for i, h := range held {
			oc := outs[0].Payload.Cmd[i]
			if c18JudgeCmd(c, "api", fmt.Sprintf("%s %s (command %d of %d of one request)", h.id, h.s.name, i+1, len(held)), h.s, h.fn, h.T, h.selT, h.elT, h.want, oc, &c18Eq{m0: h.m0, t1: t1}, []byte(rig.JS(oc))) {
				judged++
				c.Count("api:"+h.s.name, 1)
			}
		}
	}
	return judged
}

// c18APINotifyCache: the Sender keeps the datagrams of the notifications it sent (DatagramForMsgCounter). The commands
// in them are the commands the API built; they are encoded once more now, after every later command was built and sent.
func c18APINotifyCache(c *rig.Ctx, sender api.SenderInterface, sent []c18SentNotify) (judged int) {
	for _, sn := range sent {
		d, err := sender.DatagramForMsgCounter(sn.ctr)
		if err != nil {
			c.Count("api_notify_cache_misses", 1) // the cache is bounded: not this property's
			continue
		}
		if len(d.Payload.Cmd) != 1 {
			c.Violate("api/"+sn.h.s.name+"/cached-notify-cmd-count", "%s: the datagram the Sender remembers for counter %d holds %d commands", sn.h.id, sn.ctr, len(d.Payload.Cmd))
			continue
		}
		s := sn.h.s
		s.name += "@sender-cache"
		held := &c18Held{s: s, cmd: d.Payload.Cmd[0], want: sn.h.want, m0: sn.h.m0, fn: sn.h.fn, T: sn.h.T, selT: sn.h.selT, elT: sn.h.elT, id: sn.h.id}
		in := &model.Datagram{Datagram: d}
		outAny, js, eq, err := c18Roundtrip(in)
		if err != nil {
			c.Violate("api/"+s.name+"/codec-error", "%s: %v\n json=%s", held.id, err, c18Clip(js))
			continue
		}
		oc := outAny.(*model.Datagram).Datagram.Payload.Cmd
		if len(oc) != 1 {
			c.Violate("api/"+s.name+"/cmd-count", "%s: %d commands after the round trip", held.id, len(oc))
			continue
		}
		eq.m0 = held.m0
		if c18JudgeCmd(c, "api", held.id+" "+s.name, s, held.fn, held.T, held.selT, held.elT, held.want, oc[0], eq, js) {
			judged++
			c.Count("api_notify_cache_commands_judged", 1)
		}
	}
	return judged
}
