package checks

import (
	"fmt"
	"runtime"
	"sort"
	"strings"
	"sync"
	"time"

	"github.com/enbility/spine-go/api"
	"github.com/enbility/spine-go/model"
	"github.com/enbility/spine-go/spine"
	"github.com/enbility/spine-go/util"

	"verifharness/rig"
)

// C10, parts co-pending / co-pending-race: writes of SEVERAL senders wait for approval on the SAME local server
// feature when one of the senders is torn down.
//
// A local server feature accepts one binding, so in every other part of this check all writes pending on one feature
// come from one entity of one peer, and whatever the stack keeps per feature and per connection (timers, the sending
// entity, the tally of approvals already received) is never shared between a sender that goes and one that stays.
// Here the binding is handed over: a sender binds, writes (the write is presented to the k application callbacks and
// stays pending, approval timeout 30 min = never within the case), gives the binding up, the next sender - another
// entity of the same peer, the same entity numbers on another peer, or the same sender again - binds and writes, and
// so on (2-4 writes, all legal requests, each to an element of its own so that every outcome is visible in the data).
// The application answers some of the callbacks before the teardown (0..k approvals per write, rarely a denial; right
// after the write or after the last write), then one sender is torn down - its connection is removed, or its entity
// is announced as removed (partial notify with / without device part, or a notify without filter that restates the
// tree without it; a quarter of the removals take a second entity of that peer in the same datagram) - and afterwards
// the application gives ALL remaining verdicts, for the writes of the removed sender as well, one call at a time in a
// drawn interleaving (a quarter of the writes get a denial at a drawn position).
//
// Oracle (logical steps only, no clock: no timer expires within a case). At the return of the teardown and of every
// single ApproveOrDenyWrite call, for every write:
//   - undecided when its device / entity was removed: never a result, its element unchanged, whatever the
//     application answers afterwards ("all ... pending write approvals that refer to that device or entity disappear");
//   - every other write ("and only"; "every other peer ... keeps all of its state and continues to be served"): no result
//     and element unchanged while it has fewer than k approvals and no denial - the approvals it had received BEFORE
//     the teardown count -, exactly one error result and element unchanged after a denial, element written and exactly
//     one success result iff requested once the k-th approval is in.
//
// State (VerifApprovalState, after the teardown returned and at the end): per connection the number of pending
// approvals equals the number of undecided writes of senders that still exist, the number of writes with a tally of
// received approvals equals the number of those that got at least one approval (k > 1); nothing for a removed connection.
// Registry: the feature's binding is there iff its holder still exists; afterwards the holder (or, if it went, another
// entity of that peer or another peer, which must be granted the freed binding) writes once more and all callbacks
// approve: applied and acknowledged. Nothing is written to a removed connection after the removal returned.
//
// Message counters (half of the cases): all peers count from the same start, so the first write of every peer carries
// the same counter (announcement, binding request, write) and state kept per counter collides across connections.
// Overlap (a third of the cases, all on the race binary): the next one or two verdicts for writes of senders that stay
// are given on goroutines of their own while the teardown runs - half of them held at the hook
// ApproveOrDenyWrite.afterLookup (between finding the pending write and counting the approval) until the teardown has
// returned, the others unaimed (jitter at RemoveRemoteDevice.beforeCleanup / ApproveOrDenyWrite.afterLookup); in half
// of the overlapped cases whose binding holder is on another connection than the victim the holder's further write
// is processed during the teardown as well. Both orders give the same state, so the oracle is unchanged.

const c10CoLong = 30 * time.Minute

type c10CoWrite struct {
	peer   int
	ent    []uint
	elem   int
	val    int64
	ack    bool
	mc     model.MsgCounterType
	rd     api.DeviceRemoteInterface
	nApp   int   // approvals given while the write was pending
	denied bool  // a denial given while the write was pending
	gone   bool  // its device / entity was removed while it was undecided
	left   []int // callbacks that have not answered yet, in the order they are going to
	denyAt int   // index in left of the callback that denies (-1: none)
	preN   int   // verdicts given before the teardown
	preNow bool  // ... right after the write (else after the last write)
}

func c10CoPending(c *rig.Ctx) {
	r := c.Rand
	w := rig.NewWorld(c.Tag())
	defer w.Close()
	var trace []string
	hard := false
	const pre = "co-pending"
	fail := func(soft bool, sig, format string, a ...any) {
		if !soft {
			hard = true // a behavioural deviation: the rest of the plan is not judged
		}
		c.Violate(pre+"/"+sig, "%s\n history (last is the failing step):\n   %s", fmt.Sprintf(format, a...), strings.Join(trace, "\n   "))
		c.Witness(map[string]any{"history": trace})
	}

	// ---- local device: one LoadControl server feature with k harness-driven approval callbacks
	k := []int{1, 2, 2, 2, 3, 3}[r.Intn(6)]
	e := w.AddEntity(model.EntityTypeTypeCEM, []uint{1}, 4*time.Second)
	f := e.GetOrAddFeature(model.FeatureTypeTypeLoadControl, model.RoleTypeServer).(*spine.FeatureLocal)
	f.AddFunctionType(c12Fn, true, true)
	var items []model.LoadControlLimitDataType
	for i := 1; i <= c12Elems; i++ {
		items = append(items, model.LoadControlLimitDataType{LimitId: util.Ptr(model.LoadControlLimitIdType(i)), IsLimitChangeable: util.Ptr(true),
			Value: &model.ScaledNumberType{Number: util.Ptr(model.NumberType(i))}})
	}
	f.SetData(c12Fn, &model.LoadControlLimitListDataType{LoadControlLimitData: items})
	f.SetWriteApprovalTimeout(c10CoLong)
	type ckey struct {
		cb int
		rd api.DeviceRemoteInterface
		mc model.MsgCounterType
	}
	var mu sync.Mutex
	captured := map[ckey]*api.Message{}
	for cb := 0; cb < k; cb++ {
		cb := cb
		_ = f.AddWriteApprovalCallback(func(m *api.Message) {
			if m == nil || m.DeviceRemote == nil || m.RequestHeader == nil || m.RequestHeader.MsgCounter == nil {
				return
			}
			mu.Lock()
			if kk := (ckey{cb, m.DeviceRemote, *m.RequestHeader.MsgCounter}); captured[kk] == nil {
				captured[kk] = m
			}
			mu.Unlock()
		})
	}
	msgOf := func(cb int, wr *c10CoWrite) *api.Message {
		mu.Lock()
		defer mu.Unlock()
		return captured[ckey{cb, wr.rd, wr.mc}]
	}
	value := func(elem int) int64 {
		d, _ := f.DataCopy(c12Fn).(*model.LoadControlLimitListDataType)
		if d == nil {
			return -1
		}
		for _, it := range d.LoadControlLimitData {
			if it.LimitId != nil && int(*it.LimitId) == elem && it.Value != nil && it.Value.Number != nil {
				return int64(*it.Value.Number)
			}
		}
		return -1
	}

	// ---- peers with identical trees: [1], [1,1], [2], each with a LoadControl client feature 1
	ents := c10Ents
	tree := []rig.FS{rig.NMFS}
	for _, ea := range ents {
		tree = append(tree, rig.FS{Ent: ea, Id: 1, Typ: model.FeatureTypeTypeLoadControl, Role: model.RoleTypeClient})
	}
	nP := 2 + r.Intn(2)
	sameCtr := r.Intn(2) == 0
	var peers []*rig.Peer
	for i := 0; i < nP; i++ {
		p := w.AddPeer(i)
		p.Ctr = 5000
		if !sameCtr {
			p.Ctr = uint64(i+1) * 100000
		}
		p.Announce(tree)
		peers = append(peers, p)
	}
	baseline := runtime.NumGoroutine()

	// ---- plan
	nW := 2 + r.Intn(3)
	var writes []*c10CoWrite
	for i := 0; i < nW; i++ {
		wr := &c10CoWrite{elem: 1 + i, val: int64(1000 + 10*i + r.Intn(10)), ack: r.Intn(3) > 0, denyAt: -1}
		if i > 0 && r.Intn(2) == 0 { // the previous sender's connection again, mostly another entity of it
			wr.peer = writes[i-1].peer
			wr.ent = ents[r.Intn(len(ents))]
			for r.Intn(4) > 0 && c06Key(wr.ent) == c06Key(writes[i-1].ent) {
				wr.ent = ents[r.Intn(len(ents))]
			}
		} else {
			wr.peer, wr.ent = r.Intn(nP), ents[r.Intn(len(ents))]
		}
		// verdicts before the teardown: none (1/8), all k (1/8: decided before), else some but not all
		order := r.Perm(k)
		switch x := r.Intn(8); {
		case x == 0:
		case x == 1:
			wr.preN = k
		case k > 1:
			wr.preN = 1 + r.Intn(k-1)
		}
		wr.preNow = r.Intn(2) == 0
		wr.left = order
		if r.Intn(4) == 0 {
			wr.denyAt = r.Intn(k)
		}
		writes = append(writes, wr)
	}
	same := func(a, b *c10CoWrite) bool { return a.peer == b.peer && c06Key(a.ent) == c06Key(b.ent) }
	kind := []string{"disconnect", "remove-entity", "remove-entity"}[r.Intn(3)]
	// the victim: mostly one of the senders, for an entity removal preferably one whose peer has another sending entity
	vPeer, vEnt := r.Intn(nP), ents[r.Intn(len(ents))]
	if r.Intn(6) > 0 {
		v := writes[r.Intn(nW)]
		if kind == "remove-entity" && r.Intn(2) == 0 {
			var cand []*c10CoWrite
			for _, a := range writes {
				for _, b := range writes {
					if a.peer == b.peer && !same(a, b) {
						cand = append(cand, a)
						break
					}
				}
			}
			if len(cand) > 0 {
				v = cand[r.Intn(len(cand))]
			}
		}
		vPeer, vEnt = v.peer, v.ent
	}
	remEnts := map[string]bool{}
	var remList [][]uint
	form := ""
	if kind == "remove-entity" {
		remEnts[c06Key(vEnt)] = true
		remList = append(remList, vEnt)
		if r.Intn(4) == 0 {
			for _, i := range r.Perm(len(ents)) {
				if !remEnts[c06Key(ents[i])] {
					remEnts[c06Key(ents[i])] = true
					remList = append(remList, ents[i])
					break
				}
			}
			r.Shuffle(len(remList), func(i, j int) { remList[i], remList[j] = remList[j], remList[i] })
		}
		form = []string{"partial", "partial", "partial-nodev", "full"}[r.Intn(4)]
	}
	hit := func(peer int, ent []uint) bool {
		return peer == vPeer && (kind == "disconnect" || remEnts[c06Key(ent)])
	}
	conc := c.Race || r.Intn(3) == 0
	held := conc && r.Intn(2) == 0
	concProbe := conc && r.Intn(2) == 0
	X := peers[vPeer]

	// ---- helpers that talk to the stack
	decided := func(wr *c10CoWrite) bool { return wr.denied || wr.nApp >= k }
	approve := model.ErrorType{ErrorNumber: 0}
	deny := model.ErrorType{ErrorNumber: 7, Description: util.Ptr(model.DescriptionType("denied by the application"))}
	// rawCall only calls the stack (it is also used on goroutines of its own); settle judges how the call ended
	rawCall := func(m *api.Message, et model.ErrorType) (bool, string) {
		return rig.Guard(30*time.Second, func() { f.ApproveOrDenyWrite(m, et) })
	}
	settle := func(okA bool, p string) bool {
		if p != "" {
			fail(false, "verdict-panic", "%s", p)
		} else if !okA {
			c.Inconclusive("ApproveOrDenyWrite did not return within 30s")
		}
		return okA && p == ""
	}
	call := func(wr *c10CoWrite, cb int, et model.ErrorType) bool {
		m := msgOf(cb, wr)
		if m == nil {
			c.Inconclusive("harness: no message captured for callback %d of write %d", cb, wr.mc)
			return false
		}
		return settle(rawCall(m, et))
	}
	// next takes the next callback of wr's order and says what it answers
	next := func(wr *c10CoWrite) (cb int, et model.ErrorType, isDeny bool) {
		pos := k - len(wr.left)
		cb, wr.left = wr.left[0], wr.left[1:]
		if pos == wr.denyAt {
			return cb, deny, true
		}
		return cb, approve, false
	}
	// book records a verdict that was given: it counts only while the write is pending
	book := func(wr *c10CoWrite, isDeny bool) {
		if wr.gone || decided(wr) {
			return
		}
		if isDeny {
			wr.denied = true
		} else {
			wr.nApp++
		}
	}
	who := func(wr *c10CoWrite) string {
		return fmt.Sprintf("write %d of peer%d %s (element %d := %d, ack=%v)", wr.mc, wr.peer, c06Key(wr.ent), wr.elem, wr.val, wr.ack)
	}
	rel := func(peer int) string { // for signatures: whose state is it, seen from the victim
		if peer == vPeer {
			return "other-entity-of-that-peer"
		}
		return "other-peer"
	}
	judge := func(when string) {
		for _, wr := range writes {
			if wr.rd == nil {
				continue // not sent yet
			}
			res := rig.Classify(peers[wr.peer].Tap.Peek(), wr.mc)
			applied := value(wr.elem) == wr.val
			c.Events(2)
			ackN := 0
			if wr.ack {
				ackN = 1
			}
			switch {
			case wr.gone:
				if applied || len(res.All) > 0 {
					fail(false, kind+"/write-of-removed-sender-decided-after-the-removal", "%s: %s was undecided (%d of %d approvals) when its sender was removed: applied=%v %s", when, who(wr), wr.nApp, k, applied, res)
				}
			case wr.denied:
				if applied || res.Success > 0 {
					fail(false, kind+"/denied-write-applied", "%s: %s was denied: applied=%v %s", when, who(wr), applied, res)
				} else if res.Errors != 1 || len(res.All) != 1 {
					fail(false, kind+"/denied-write-of-"+rel(wr.peer)+"-without-exactly-one-error-result", "%s: %s was denied by a callback: %s", when, who(wr), res)
				}
			case wr.nApp < k:
				if applied || res.Success > 0 {
					fail(false, kind+"/applied-before-all-approved", "%s: %s has %d of %d approvals and no denial but is applied=%v / answered %s", when, who(wr), wr.nApp, k, applied, res)
				} else if len(res.All) != 0 {
					fail(false, kind+"/pending-write-of-"+rel(wr.peer)+"-answered", "%s: %s has %d of %d approvals, no denial and a timeout of %v but received %s", when, who(wr), wr.nApp, k, c10CoLong, res)
				}
			default:
				if !applied || res.Errors != 0 || res.Success != ackN || len(res.All) != ackN {
					fail(false, kind+"/approved-write-of-"+rel(wr.peer)+"-not-carried-out", "%s: all %d callbacks approved %s (%d of the approvals before the teardown of peer%d): applied=%v %s (want applied, ok=%d)",
						when, k, who(wr), wr.preN, vPeer, applied, res, ackN)
				}
			}
			if hard {
				return
			}
		}
	}
	torn := false
	state := func(when string) {
		pm, rm := f.VerifApprovalState()
		for pi, p := range peers {
			wantP, wantR, goneP, goneR := 0, 0, 0, 0
			for _, wr := range writes {
				if wr.peer != pi || wr.rd == nil {
					continue
				}
				switch {
				case wr.gone:
					goneP++
					if k > 1 && wr.nApp > 0 {
						goneR++
					}
				case !decided(wr):
					wantP++
					if k > 1 && wr.nApp > 0 {
						wantR++
					}
				}
			}
			c.Events(2)
			what := "entity"
			if kind == "disconnect" {
				what = "device"
			}
			switch {
			case pm[p.Ski] > wantP && goneP > 0:
				fail(true, kind+"/pending-approval-of-removed-"+what+"-survives", "%s: peer%d has %d undecided writes of senders that still exist and %d of removed ones; the stack holds %d pending approvals for it", when, pi, wantP, goneP, pm[p.Ski])
			case pm[p.Ski] < wantP:
				fail(true, kind+"/pending-approval-of-"+rel(pi)+"-lost", "%s: peer%d has %d undecided writes of senders that still exist; the stack holds only %d pending approvals for it (teardown done: %v, victim peer%d)", when, pi, wantP, pm[p.Ski], torn, vPeer)
			case pm[p.Ski] != wantP:
				fail(true, kind+"/pending-approvals-of-"+rel(pi)+"-exceed-its-undecided-writes", "%s: peer%d has %d undecided writes of senders that still exist; the stack holds %d pending approvals for it (teardown done: %v, victim peer%d)", when, pi, wantP, pm[p.Ski], torn, vPeer)
			}
			switch {
			case rm[p.Ski] > wantR && goneR > 0:
				fail(true, kind+"/received-approvals-of-removed-"+what+"-survive", "%s: peer%d: %d pending writes of existing senders have received approvals, %d removed ones had; the stack holds tallies for %d writes", when, pi, wantR, goneR, rm[p.Ski])
			case rm[p.Ski] < wantR:
				fail(true, kind+"/received-approvals-of-"+rel(pi)+"-lost", "%s: peer%d: %d pending writes of existing senders have received some of their %d approvals; the stack holds tallies for %d writes (teardown done: %v, victim peer%d)", when, pi, wantR, k, rm[p.Ski], torn, vPeer)
			case rm[p.Ski] != wantR:
				fail(true, kind+"/received-approvals-of-"+rel(pi)+"-differ", "%s: peer%d: %d pending writes of existing senders have received approvals; the stack holds tallies for %d writes", when, pi, wantR, rm[p.Ski])
			}
		}
	}
	waitCaptured := func(wr *c10CoWrite) bool {
		okW := rig.WaitFor(10*time.Second, func() bool {
			for cb := 0; cb < k; cb++ {
				if msgOf(cb, wr) == nil {
					return false
				}
			}
			return true
		})
		if !okW {
			if rig.WaitQuiet(baseline, 10*time.Second) {
				fail(false, "callback-not-invoked", "%s was not presented to all %d callbacks", who(wr), k)
			} else {
				c.Inconclusive("approval callbacks were not invoked within 10s")
			}
		}
		return okW
	}
	var holder *c10CoWrite // the sender that holds the binding
	bind := func(peer int, ent []uint, phase string) bool {
		p := peers[peer]
		mc := p.Bind(rig.FA(p.Addr, ent, 1), f.Address(), model.FeatureTypeTypeLoadControl)
		c.Events(1)
		if res := rig.Classify(p.Tap.Peek(), mc); res.Success != 1 || res.Errors != 0 {
			fail(false, phase+"/bind-of-free-feature-not-granted", "peer%d binds %s/1 -> the server feature (nobody holds it): %s", peer, c06Key(ent), res)
			return false
		}
		trace = append(trace, fmt.Sprintf("peer%d binds %s/1 -> the server feature (request %d)", peer, c06Key(ent), mc))
		return true
	}
	send := func(wr *c10CoWrite) bool {
		p := peers[wr.peer]
		wr.mc = p.Send(model.CmdClassifierTypeWrite, rig.FA(p.Addr, wr.ent, 1), f.Address(), wr.ack, nil, c12WriteCmd(wr.elem, wr.val))
		wr.rd = p.RD
		trace = append(trace, fmt.Sprintf("peer%d %s/1 writes element %d := %d with counter %d (ack=%v): presented to %d callbacks, pending", wr.peer, c06Key(wr.ent), wr.elem, wr.val, wr.mc, wr.ack, k))
		return waitCaptured(wr)
	}
	preVerdicts := func(wr *c10CoWrite) bool {
		for n := 0; n < wr.preN && len(wr.left) > 0; n++ {
			cb, et, isDeny := next(wr)
			if !call(wr, cb, et) {
				return false
			}
			book(wr, isDeny)
			trace = append(trace, fmt.Sprintf("callback %d answers write %d of peer%d %s: deny=%v (%d of %d approvals)", cb, wr.mc, wr.peer, c06Key(wr.ent), isDeny, wr.nApp, k))
			judge(fmt.Sprintf("at the return of the verdict of callback %d for write %d", cb, wr.mc))
			if hard {
				return false
			}
		}
		return true
	}

	// ---- the writes, the binding handed from sender to sender
	for _, wr := range writes {
		if holder == nil || !same(holder, wr) {
			if holder != nil {
				hp := peers[holder.peer]
				mc := hp.Unbind(rig.FA(hp.Addr, holder.ent, 1), f.Address())
				c.Events(1)
				if res := rig.Classify(hp.Tap.Peek(), mc); res.Success != 1 || res.Errors != 0 {
					fail(false, "setup/unbind-of-own-binding-not-granted", "peer%d gives up its binding %s/1 -> the server feature: %s", holder.peer, c06Key(holder.ent), res)
					return
				}
				trace = append(trace, fmt.Sprintf("peer%d gives up its binding %s/1 -> the server feature (request %d)", holder.peer, c06Key(holder.ent), mc))
			}
			if !bind(wr.peer, wr.ent, "setup") {
				return
			}
		}
		holder = wr
		if !send(wr) {
			return
		}
		if wr.preNow && !preVerdicts(wr) {
			return
		}
	}
	for _, wr := range writes {
		if !wr.preNow && !preVerdicts(wr) {
			return
		}
	}
	judge("before the teardown")
	if hard {
		return // (the reference of the state oracle follows the verdicts the behaviour has just contradicted)
	}
	state("before the teardown")
	if hard {
		return
	}

	// ---- what the teardown takes and what stays (for the evidence)
	nGone, nStay, nStaySamePeer, nStayPartly, nStayPartlySamePeer, nTwin := 0, 0, 0, 0, 0, 0
	ctrs := map[model.MsgCounterType]map[int]bool{}
	for _, wr := range writes {
		if ctrs[wr.mc] == nil {
			ctrs[wr.mc] = map[int]bool{}
		}
		ctrs[wr.mc][wr.peer] = true
		if decided(wr) {
			continue
		}
		switch {
		case hit(wr.peer, wr.ent):
			nGone++
		default:
			nStay++
			partly := k > 1 && wr.nApp > 0
			if partly {
				nStayPartly++
			}
			if wr.peer == vPeer {
				nStaySamePeer++
				if partly {
					nStayPartlySamePeer++
				}
			} else if kind == "disconnect" || remEnts[c06Key(wr.ent)] {
				nTwin++
			}
		}
	}
	collide := 0
	for _, ps := range ctrs {
		if len(ps) > 1 {
			collide++
		}
	}
	holderStays := !hit(holder.peer, holder.ent)

	// ---- verdicts that overlap the teardown: the next verdict of one or two writes whose sender stays
	type ov struct {
		wr     *c10CoWrite
		cb     int
		et     model.ErrorType
		isDeny bool
	}
	var ovs []ov
	if conc {
		for _, i := range r.Perm(len(writes)) {
			wr := writes[i]
			if len(ovs) < 2 && !hit(wr.peer, wr.ent) && !decided(wr) && len(wr.left) > 0 && (len(ovs) == 0 || r.Intn(2) == 0) {
				cb, et, isDeny := next(wr)
				ovs = append(ovs, ov{wr, cb, et, isDeny})
			}
		}
	}
	// the further write of the binding's holder, processed during the teardown if it is on another connection
	var probe *c10CoWrite
	probeDuring := concProbe && holderStays && holder.peer != vPeer
	newProbe := func(peer int, ent []uint) *c10CoWrite {
		return &c10CoWrite{peer: peer, ent: ent, elem: nW + 1, val: int64(7000 + r.Intn(100)), ack: true, denyAt: -1, left: r.Perm(k)}
	}

	// ---- teardown
	var tearData *model.NodeManagementDetailedDiscoveryDataType
	if kind == "remove-entity" {
		switch form {
		case "full":
			var fs []rig.FS
			for _, ft := range tree {
				if !remEnts[c06Key(ft.Ent)] {
					fs = append(fs, ft)
				}
			}
			tearData = X.Discovery(fs, nil, nil)
		default:
			tearData = X.Discovery(nil, nil, remList)
			if form == "partial-nodev" {
				for i := range tearData.EntityInformation {
					tearData.EntityInformation[i].Description.EntityAddress.Device = nil
				}
			}
		}
		var rl []string
		for _, ea := range remList {
			rl = append(rl, c06Key(ea))
		}
		trace = append(trace, fmt.Sprintf("TEARDOWN peer%d announces %s as removed (%s notify); overlapped by %d verdicts (held at the hook: %v), by a further write: %v", vPeer, strings.Join(rl, " and "), form, len(ovs), held, probeDuring))
	} else {
		trace = append(trace, fmt.Sprintf("TEARDOWN the connection of peer%d is removed; overlapped by %d verdicts (held at the hook: %v), by a further write: %v", vPeer, len(ovs), held, probeDuring))
	}
	for _, p := range peers {
		if n := p.PanicCount(); n > 0 {
			fail(false, "setup/panic", "panic while handling a message: %v", p.Panics)
			return
		}
	}
	var hooks *rig.Hooks
	var release func()
	if conc {
		hooks = rig.InstallHooks()
		if held && len(ovs) > 0 {
			release = hooks.Gate("ApproveOrDenyWrite.afterLookup")
		} else {
			hooks.Jitter("ApproveOrDenyWrite.afterLookup", r.Int63(), 300*time.Microsecond)
		}
		hooks.Jitter("RemoveRemoteDevice.beforeCleanup", r.Int63(), time.Millisecond)
	}
	var wg sync.WaitGroup
	ovOK, ovPanic := make([]bool, len(ovs)), make([]string, len(ovs))
	for i, o := range ovs {
		m := msgOf(o.cb, o.wr)
		if m == nil {
			hooks.Uninstall()
			c.Inconclusive("harness: no message captured for callback %d of write %d", o.cb, o.wr.mc)
			return
		}
		wg.Add(1)
		go func(i int) {
			defer wg.Done()
			ovOK[i], ovPanic[i] = rawCall(m, o.et)
		}(i)
	}
	windows := 0
	if release != nil {
		// the verdicts have found their pending writes and wait in front of the tally
		if rig.WaitFor(10*time.Second, func() bool { return hooks.GateWaiting("ApproveOrDenyWrite.afterLookup") >= len(ovs) }) {
			windows = len(ovs)
		}
	}
	if probeDuring {
		probe = newProbe(holder.peer, holder.ent)
		wg.Add(1)
		go func() {
			defer wg.Done()
			p := peers[probe.peer]
			probe.mc = p.Send(model.CmdClassifierTypeWrite, rig.FA(p.Addr, probe.ent, 1), f.Address(), probe.ack, nil, c12WriteCmd(probe.elem, probe.val))
		}()
	}
	var seqReturn int64
	okT, pan := rig.Guard(30*time.Second, func() {
		if kind == "disconnect" {
			w.Local.RemoveRemoteDeviceConnection(X.Ski)
		} else {
			X.NotifyDiscovery(form != "full", tearData)
		}
		seqReturn = rig.Seq()
	})
	if release != nil {
		if hooks.GateExpired("ApproveOrDenyWrite.afterLookup") > 0 {
			windows = 0
		}
		release()
	}
	joined := waitWG(&wg, 40*time.Second)
	if hooks != nil {
		hooks.Uninstall()
	}
	if pan != "" {
		fail(false, kind+"/panic", "%s", pan)
		return
	}
	if !okT || !joined {
		c.Inconclusive("teardown / overlapping calls did not return within the watchdog (teardown=%v others=%v)", okT, joined)
		return
	}
	for _, p := range peers {
		if n := p.PanicCount(); n > 0 {
			fail(false, kind+"/panic", "panic while handling a message: %v", p.Panics)
			return
		}
	}
	torn = true
	for _, wr := range writes {
		if hit(wr.peer, wr.ent) && !decided(wr) {
			wr.gone = true
		}
	}
	for i, o := range ovs {
		if !settle(ovOK[i], ovPanic[i]) {
			return
		}
		book(o.wr, o.isDeny)
		trace = append(trace, fmt.Sprintf("  (during the teardown) callback %d answers write %d of peer%d %s: deny=%v (%d of %d approvals)", o.cb, o.wr.mc, o.wr.peer, c06Key(o.wr.ent), o.isDeny, o.wr.nApp, k))
	}
	if probeDuring {
		probe.rd = peers[probe.peer].RD
		writes = append(writes, probe)
		trace = append(trace, fmt.Sprintf("  (during the teardown) peer%d %s/1, holder of the binding, writes element %d := %d with counter %d", probe.peer, c06Key(probe.ent), probe.elem, probe.val, probe.mc))
		if !waitCaptured(probe) {
			return
		}
	}

	// ---- right after the teardown
	c.Events(int64(1 + len(peers)))
	for pi, p := range peers {
		switch {
		case kind == "disconnect" && pi == vPeer:
			if !rig.IsNil(w.Local.RemoteDeviceForSki(p.Ski)) || !rig.IsNil(w.Local.RemoteDeviceForAddress(model.AddressDeviceType(p.Addr))) {
				fail(false, kind+"/still-resolves", "peer%d still resolves by SKI or address after its connection was removed", pi)
			}
		case w.Local.RemoteDeviceForSki(p.Ski) != p.RD || w.Local.RemoteDeviceForAddress(model.AddressDeviceType(p.Addr)) != p.RD:
			fail(false, kind+"/"+rel(pi)+"-no-longer-resolves", "peer%d does not resolve any more after the teardown of peer%d", pi, vPeer)
		}
	}
	if kind == "remove-entity" {
		for _, ea := range ents {
			got := X.RD.Entity(spine.NewAddressEntityType(ea))
			switch {
			case remEnts[c06Key(ea)] && !rig.IsNil(got):
				fail(false, kind+"/entity-still-present", "entity %s of peer%d still present (announced as removed, %s form)", c06Key(ea), vPeer, form)
			case !remEnts[c06Key(ea)] && rig.IsNil(got):
				fail(false, kind+"/other-entity-of-that-peer-removed", "entity %s of peer%d is gone; it was not announced as removed (%s form)", c06Key(ea), vPeer, form)
			}
		}
	}
	if hard {
		return
	}
	bindings := func(when string) {
		n := 0
		for pi, p := range peers { // (the registry is asked for a removed connection as well: nothing may be left)
			for _, b := range w.Local.BindingManager().Bindings(p.RD) {
				if b.ServerFeature == nil || b.ServerFeature.Address().String() != f.Address().String() {
					continue
				}
				n++
				ca := b.ClientFeature.Address()
				if !holderStays || pi != holder.peer || ca == nil || c06KeyM(ca.Entity) != c06Key(holder.ent) {
					sig := "/unexpected-bind-entry"
					if !holderStays && pi == holder.peer {
						sig = "/bind-entry-survives"
					}
					fail(false, kind+sig, "%s: binding of peer%d %s on the server feature; the binding was held by peer%d %s (still exists: %v)", when, pi, ca, holder.peer, c06Key(holder.ent), holderStays)
				}
			}
		}
		c.Events(1)
		if holderStays && n != 1 {
			fail(false, kind+"/bind-entry-of-"+rel(holder.peer)+"-lost", "%s: peer%d %s holds the binding on the server feature and was not removed; the registry lists %d bindings on it", when, holder.peer, c06Key(holder.ent), n)
		}
	}
	bindings("after the teardown")
	judge("after the teardown")
	if hard {
		return // (the reference of the state oracle follows the verdicts the behaviour has just contradicted)
	}
	state("after the teardown")
	if hard {
		return
	}

	// ---- all remaining verdicts, one call at a time, the writes interleaved
	for {
		var open []*c10CoWrite
		for _, wr := range writes {
			if wr != probe && len(wr.left) > 0 {
				open = append(open, wr)
			}
		}
		if len(open) == 0 {
			break
		}
		wr := open[r.Intn(len(open))]
		cb, et, isDeny := next(wr)
		if !call(wr, cb, et) {
			return
		}
		book(wr, isDeny)
		note := ""
		if wr.gone {
			note = " - its sender is gone, no effect"
		}
		trace = append(trace, fmt.Sprintf("callback %d answers write %d of peer%d %s: deny=%v (%d of %d approvals)%s", cb, wr.mc, wr.peer, c06Key(wr.ent), isDeny, wr.nApp, k, note))
		judge(fmt.Sprintf("at the return of the verdict of callback %d for write %d", cb, wr.mc))
		if hard {
			return
		}
	}

	// ---- continues to be served: a further write over the feature's binding, approved by everybody
	if probe == nil {
		switch {
		case holderStays:
			probe = newProbe(holder.peer, holder.ent)
		default:
			// the binding went with its holder: another entity of that peer, else another peer, is granted it
			var cand [][2]int
			for pi := range peers {
				for ei, ea := range ents {
					if !hit(pi, ea) {
						cand = append(cand, [2]int{pi, ei})
					}
				}
			}
			sort.SliceStable(cand, func(i, j int) bool { return (cand[i][0] == vPeer) && (cand[j][0] != vPeer) })
			pick := cand[0]
			if cand[0][0] != vPeer || r.Intn(3) == 0 {
				pick = cand[r.Intn(len(cand))]
			}
			if !bind(pick[0], ents[pick[1]], "after-"+kind) {
				return
			}
			probe = newProbe(pick[0], ents[pick[1]])
		}
		writes = append(writes, probe)
		if !send(probe) {
			return
		}
	}
	for len(probe.left) > 0 {
		cb, et, isDeny := next(probe)
		if !call(probe, cb, et) {
			return
		}
		book(probe, isDeny)
		trace = append(trace, fmt.Sprintf("callback %d approves the further write %d of peer%d %s (%d of %d approvals)", cb, probe.mc, probe.peer, c06Key(probe.ent), probe.nApp, k))
		judge(fmt.Sprintf("at the return of the verdict of callback %d for the further write %d", cb, probe.mc))
		if hard {
			return
		}
	}
	if !rig.WaitQuiet(baseline, 10*time.Second) {
		c.Inconclusive("goroutines did not finish within the watchdog")
		return
	}
	judge("at the end")
	if hard {
		return // (the reference of the state oracle follows the verdicts the behaviour has just contradicted)
	}
	state("at the end")
	if kind == "disconnect" {
		c.Events(1)
		for _, o := range X.Tap.TakeOut() {
			if o.Seq > seqReturn {
				fail(false, kind+"/datagram-written-to-removed-connection", "written to the connection of peer%d after RemoveRemoteDeviceConnection had returned: %s", vPeer, rig.JS(o.D))
				break
			}
		}
	}
	if hard {
		return
	}

	// ---- evidence
	c.Count("co-pending:teardown:"+kind, 1)
	if form != "" {
		c.Count("co-pending:entity_removals_announced_as:"+form, 1)
	}
	c.Count("co-pending:writes_pending_on_one_feature_at_the_teardown", int64(nGone+nStay))
	c.Count("co-pending:pending_writes_removed", int64(nGone))
	c.Count("co-pending:pending_writes_of_senders_that_stay", int64(nStay))
	c.Count("co-pending:pending_writes_of_other_entities_of_the_victim's_peer", int64(nStaySamePeer))
	c.Count("co-pending:pending_writes_that_stay_and_had_some_but_not_all_approvals", int64(nStayPartly))
	c.Count("co-pending:pending_writes_of_other_entities_of_the_victim's_peer_with_some_but_not_all_approvals", int64(nStayPartlySamePeer))
	c.Count("co-pending:pending_writes_of_the_same_entity_numbers_on_another_peer", int64(nTwin))
	if nGone > 0 && nStayPartlySamePeer > 0 {
		c.Count("co-pending:cases_removing_a_pending_write_next_to_a_partly_approved_one_of_another_entity_of_that_peer", 1)
	}
	if nGone > 0 && nStayPartly > nStayPartlySamePeer {
		c.Count("co-pending:cases_removing_a_pending_write_next_to_a_partly_approved_one_of_another_peer", 1)
	}
	if collide > 0 {
		c.Count("co-pending:cases_with_writes_of_different_peers_under_the_same_counter", 1)
	}
	if conc {
		c.Count("co-pending:teardowns_overlapped_by_verdicts_for_other_senders'_writes", 1)
		c.Count("co-pending:verdicts_given_during_a_teardown", int64(len(ovs)))
		c.Count("co-pending:verdicts_held_between_lookup_and_tally_across_the_teardown", int64(windows))
		if probeDuring {
			c.Count("co-pending:further_writes_of_another_peer_processed_during_the_teardown", 1)
		}
	}
	var rels []string
	for i, wr := range writes[:nW] {
		t := "v" // the victim
		switch {
		case hit(wr.peer, wr.ent):
		case wr.peer == vPeer:
			t = "e" // another entity of the victim's peer
		case kind == "disconnect" || remEnts[c06Key(wr.ent)]:
			t = "t" // the same numbers on another peer
		default:
			t = "o"
		}
		rels = append(rels, fmt.Sprintf("%s%d", t, writes[i].preN))
	}
	c.Shape(fmt.Sprintf("co-pending %s %s n=%d k=%d peers=%d %s sameCtr=%v conc=%v held=%v probeDuring=%v", kind, form, len(remList), k, nP, strings.Join(rels, ","), sameCtr, len(ovs), windows > 0, probeDuring))
	c.NonTrivial(nGone > 0 && nStay > 0)
	c.Sample(map[string]any{"history": trace, "callbacks": k, "teardown": kind, "victim": fmt.Sprintf("peer%d %s", vPeer, c06Key(vEnt)), "pending_removed": nGone, "pending_staying": nStay})
}
