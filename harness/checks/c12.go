package checks

import (
	"encoding/json"
	"fmt"
	"hash/fnv"
	"math"
	"runtime"
	"sort"
	"strings"
	"sync"
	"sync/atomic"
	"time"

	"github.com/enbility/spine-go/api"
	"github.com/enbility/spine-go/model"
	"github.com/enbility/spine-go/spine"
	"github.com/enbility/spine-go/util"

	"verifharness/rig"
)

// C12 — write approval: unanimous, timely, exactly one outcome per write.
//
// One case = one World with 1–2 local LoadControl server features carrying k ∈ {1,2,3} approval
// callbacks each, two identically numbered peers, and a plan of 1–6 writes that are pending together.
// Every write addresses its own existing, changeable list element with a value that is unique in the
// case, so "applied" is read off FeatureLocal.DataCopy (and the core-level data change events) by value;
// results are attributed by tap + msgCounterReference; callback invocations by (feature, callback, SKI,
// msgCounter).
//
// Time is made logical as DESIGN.md (C12) prescribes:
//   long    every callback answers, timeout 1 h: the outcome must be there when the deciding
//           ApproveOrDenyWrite call has returned, and must NOT be there before (step-indexed);
//   short   a callback stays silent or answers late, timeout 30–50 ms: the harness waits (watchdog =>
//           inconclusive) for the error result, then delivers the late verdicts, then asserts that
//           nothing else happened. The expected outcome does not depend on when the timer fired;
//   gateT   the deciding verdicts are parked by a gate at ApproveOrDenyWrite.afterLookup until the
//           timeout's error result is on the tap, then released: exactly the error result may exist;
//   duel    two verdicts (approve/approve, approve/deny, deny/deny) are parked at the same point with
//           the timer far away and released together: exactly one outcome, decided by the verdicts;
//   natural all approve with a real 30 ms timer and verdicts delivered around that time without a
//           hook: either outcome alone is accepted.
//   aimed   many cheap trials per case: timeout 2-4 ms, the deciding verdict is delivered by a spinning goroutine
//           at the deadline +- a drawn jitter, the aim following the observed outcomes (applied => aim later,
//           timed out => aim earlier) so that verdict and timer keep meeting. Exactly one outcome per write.
//   expiry  the deciding verdict of W1 is parked at the hook; the timeout function of a silent helper write
//           W0 (shorter timeout) is parked inside the connection writer while it sends its error result
//           (a slow SHIP writer; the stack holds its callback mutex there); the verdict is released, W1's
//           own timeout passes, the writer is released. This puts a verdict between "W1's timer fired" and
//           "W1's timeout function ran". Exactly one outcome per write.
//   reconnect (x_c10c12_stale.go) k in {2,3}: writes of a connection collect up to k-1 approvals and time out, the connection
//           is removed and set up again with the same SKI, the writes are re-sent with the same message counters (long
//           timeout): judged at the return of every single verdict call - not applied before all k callbacks approved.
//   removals a stream of writes approved at once by k in {1,2} callbacks (from the goroutine the stack runs them on)
//           while unrelated remote entities are announced as removed and added again by another peer, by the writer
//           itself between its writes, and by application goroutines calling DeviceLocal.CleanRemoteEntityCaches:
//           every write is presented once, applied once, acknowledged once; a call that does not return is left to the
//           parent's goroutine dump (hang@<frame>).
//   blocking callbacks that do NOT return at once (a synchronous user dialogue inside the callback function), k in {2,3}:
//           mutual-wait: every callback stays inside its function until each of the others has been presented with the
//           same write, then gives its verdict from there; silent-by-blocking: some callbacks stay inside their function
//           until the end of the case (and give their verdict, if any, then) while the others approve / deny from inside theirs. "Presented once to every
//           callback" must not depend on another callback having returned: it is judged when the process is quiescent
//           except for the callbacks the harness itself keeps parked (no goroutine is left that could still present the
//           write). Outcomes by the long / short rules above.

const (
	c12Fn    = model.FunctionTypeLoadControlLimitListData
	c12Point = "ApproveOrDenyWrite.afterLookup"
	c12Elems = 8
)

const (
	c12A  = iota // approve before the timeout
	c12D         // deny before the timeout
	c12S         // never answer
	c12LA        // approve after the timeout
	c12LD        // deny after the timeout
)

var c12VN = []string{"A", "D", "S", "a", "d"}

func init() {
	pick := func(q, t int) func(rig.Tier) int {
		return func(tier rig.Tier) int {
			if tier == rig.Thorough {
				return t
			}
			return q
		}
	}
	rig.Register(&rig.Check{
		ID:    "C12",
		Floor: 80,
		Rule: "case = (k callbacks, layout {one feature/one writer + an unbound peer, two features/two writers, one feature/two writers by re-binding}, identical or disjoint message counters of the two peers, " +
			"1-6 writes pending together each with ack flag, per-callback verdict vector over approve/deny/silent/late-approve/late-deny and a timing class long|short|natural|gateT|duel, delivery order and 1-3 delivering goroutines). " +
			"Part 'vectors' enumerates all 39 verdict vectors over approve/deny/silent for k<=3 (thorough: x ack x neighbour), part 'interleave' all 24 orders x 16 verdict assignments of four deliveries over two pending writes (thorough: all 768 incl. two writers; quick: a seeded 64), " +
			"parts 'mixed' and 'gate' draw plans from the case PRNG; part 'expiry' parks the timeout function of a helper write inside a blocked connection writer while the deciding verdict of another write is released and that write's own timeout passes; " +
			"part 'aimed' runs 40-60 cheap trials per case (timeout 2-4 ms, deciding verdict delivered by a spinning goroutine at the deadline +- jitter, aim following the outcomes, three cases in four with the feature's callback mutex contended by concurrent AddResponseCallback calls); " +
			"part 'reconnect': k in {2,3}, 1-2 writes collect j<k approvals (mostly k-1) and time out (15|25|40 ms), the connection is removed and set up again with the same SKI, the writes are re-sent with the same counters (timeout 30 min) and decided one verdict call at a time in a drawn order " +
			"(all approve, or one denial after at least one approval), every write judged after every call; part 'removals': 300 (thorough 800) writes approved at once by k in {1,2} callbacks while entity [2] of the other peer / of the writer is announced as removed and added again and 0-2 application goroutines call DeviceLocal.CleanRemoteEntityCaches, " +
			"non-trivial if all writes were handed over and at least one removal/cleanup call ran meanwhile; " +
			"part 'blocking': k in {2,3} callbacks that do not return at once, 1-3 writes of one bound peer, each write in one of three modes: mutual-wait (every callback stays inside its function until each other callback has been presented with the same write, then approves - one in three cases: one of them denies - from inside the callback, timeout 1 h), " +
			"blocked+deny (a drawn non-empty proper subset of the callbacks, two times in three containing the first registered one, stays inside its function until the end of the case; of the others at least one denies, the rest approve, from inside their functions at once or after the blocked ones have been presented; timeout 1 h: the error result is there when the process is quiescent) and " +
			"blocked+timeout (the same with all others approving, timeout 30-50 ms: the write ends with exactly one error result, awaited by observing it); blocked callbacks give a late approval / denial or nothing after the end; " +
			"blocked+verdict-at-end (timeout 1 h, the others approve, the blocked callbacks approve - one in four: deny - when the case ends: the write stays pending with a partial tally while later writes are decided, and is applied / rejected when the last verdict call has returned). " +
			"After every write: every callback must have been presented with it by the time the process is quiescent except for the callbacks the harness keeps parked (goroutine count == idle count + parked callbacks: nothing is left that could present it), then every write is judged by the long / short rules. " +
			"part 'shapes': k in {1,2,3}, 2-5 writes of one bound peer pending together (timeout 1 h), each of a drawn shape: the ordinary partial write of one changeable element, a partial write of an identifier the list does not hold, a partial write of an element that is not changeable, " +
			"and at most one full write (no filter) or delete-selector write, decided last; verdict vectors all-approve (two in three) or with one denial; the verdict calls are made one at a time in a drawn order and after EVERY call the results on the tap, the core-level data change events and the whole list are compared with the state before the call: " +
			"a non-deciding call changes nothing; a denial gives exactly one error result and nothing else; the last approval applies an ordinary write (one element changed, one event, success result iff requested), gives exactly one error result and unchanged data for a write the data layer refuses (unknown identifier, unchangeable element) and " +
			"exactly one consistent outcome (error result + unchanged data + no event, or no error result + one event + success result iff requested) for the full / delete write. " +
			"part 'latecb': k in {1,2} callbacks, 1-2 writes become pending (timeout 120-200 ms) and get a drawn prefix of their verdicts, then the application registers one more approval callback, then 1-2 further writes arrive (timeout 1 h, presented to k+1 callbacks); all remaining verdict calls one at a time in a drawn order. " +
			"The statement does not say whether a callback registered while a write is pending has a say in that write, so for the earlier writes only this is judged: never applied before every callback it WAS presented to has approved, never applied with a denial, exactly one outcome in the end (applied or one error result); the later writes by the long rules with k+1 callbacks. " +
			"part 'repeat' (c12_hist.go): k in {1,2,3}, a history of 2-4 writes of one bound peer, decided one after the other, each partial (one element) or full (the whole list, no filter) and each either changing one element or carrying EXACTLY the data the function holds when it comes in " +
			"(set by the application - one step in three is preceded by a SetData - or left there by an earlier approved write of the history); verdicts all-approve | one denial at a drawn position | one callback silent (timeout 30-50 ms, late approval/denial/nothing afterwards). " +
			"Judged without reading a unique value: presented exactly once to every callback (at quiescence), and results per counter + the whole list compared before / after every verdict call: nothing before any verdict and before the last approval, exactly one error result and unchanged list after a denial / the timeout, list == payload and success result iff requested after the last approval (a full write may instead be refused consistently). " +
			"part 'local-removal' (c12_hist.go): two local entities with one server feature each (k callbacks), one peer bound to both; 1-3 writes become pending (at least one on the feature of the entity to be removed), each gets 0..k-1 approvals, then the application calls DeviceLocal.RemoveEntity for one of the entities while the peer stays connected; " +
			"then per write: a denial (exactly one error result when the call has returned), the remaining approvals (feature of the other entity: applied + success result iff requested; feature of the removed entity: exactly one outcome, applied or one error result), or one callback silent (timeout 150-250 ms: exactly one error result, awaited by observing it; " +
			"if it does not come the stack's own pending table decides between 'lost' and inconclusive). " +
			"Message counters (parts vectors, interleave, mixed, gate, expiry, blocking, shapes, latecb): in three cases of four the writing peers number their writes from a boundary value - the largest uint64 (then 0, 1, ..: wrap-around), 0, or 1 - on both connections alike (same=true) or with different boundary values. " +
			"Parts vectors and mixed, one case in four: the case ends with a write WITHOUT msgCounter under a 30-50 ms approval timeout, its callbacks answering at once, after the timeout or never: at most one outcome, no panic, the process survives the timeout (a crash on a timer goroutine is attributed to the case by the parent), the next write is served. " +
			"Part mixed also draws: class timely (timeout 300-500 ms, no silent callback, all verdict calls made one after the other when 0/30/55/75/90 per cent of the timeout have passed; if the last call has returned before the timeout can have passed since a moment BEFORE the write was handed over, unanimous approval must have been applied), " +
			"concurrent arrival (layouts 0 and 1: after each peer's first write the remaining 2-4 writes are sent by one goroutine per peer WHILE 1-2 goroutines deliver the early verdicts of the first writes) and, in layout 0 (also part vectors), the removal of entity [1] of the OTHER peer (which has nothing pending) announced while the writes - from entity [1] of their own device - are pending. " +
			"Every result for a write is compared: source = the server feature written to, destination = the writing client feature, and for a write that only a denial can have ended (timeout 1 h) error number and description are those handed to ApproveOrDenyWrite by one of its denials (numbers 1..9 and descriptions differ per callback and write). " +
			"A case is non-trivial if every write of the plan was decided (all its callbacks seen, its outcome judged) with nothing inconclusive; distinct = distinct plan shapes (values and counters excluded).",
		Assumptions: []string{
			"message handling up to the spawning of the approval callbacks is synchronous in HandleSpineMesssage; the callbacks themselves run on goroutines of the stack and are awaited by goroutine-count quiescence",
			"a write is identified by the unique value it carries; all writes of a case address different existing changeable elements through a partial filter (a write adding an identifier would be acknowledged without being applied, DESIGN.md D7)",
			"a write whose binding is removed while it is pending stays authorised (it was authorised when it came in); this is how two peers get pending writes on one feature",
			"a write datagram without msgCounter cannot be answered by reference and the statement does not say whether it is a write at all: for it only 'at most one outcome (at most one datagram answering none of the numbered messages, never applied AND an error result), answering the callbacks does not panic or wedge the feature, and the process survives the approval timeout' is asserted",
			"class timely: the only use of the clock in a verdict is the sound direction 'a timer never fires early': the approval timer of a write is armed after the moment taken before the write is handed to the stack, so a verdict call that has returned less than the timeout after that moment came before the timeout; a late return (loaded machine) makes the rule not apply (either outcome accepted)",
			"parts shapes: a partial write of an identifier the list does not hold and a partial write of an element whose isLimitChangeable is false are refused by the data layer (property C04 decides that); which of the two outcomes a full write or a delete-selector write gets is not decided here",
			"SetWriteApprovalTimeout is called only while no message is being handled",
			"part 'blocking': a callback function may take arbitrarily long to return (the statement lets a callback stay silent, and nothing obliges a callback to answer from another goroutine); 'presented to every callback' therefore must not depend on another callback having returned. " +
				"The verdict 'not presented' is taken at goroutine-count quiescence (idle count + callbacks parked by the harness), after a 3 s grace period that only saves work; watchdogs (15-20 s) make a case inconclusive",
			"part 'removals': the removed and re-added entities never sent a write, so no pending approval refers to them; the writes are sequential on one connection, their approvals run on the goroutines the stack starts for the callbacks; 'applied once' is read off the core-level data change events (one per write value)",
		},
		Parts: []rig.Part{
			{Name: "vectors", Cases: pick(39, 39*2*3), Run: c12Vectors, Quiet: 90 * time.Second},
			{Name: "interleave", Cases: pick(64, 768), Run: c12Interleave, Quiet: 90 * time.Second},
			{Name: "mixed", Cases: pick(110, 2000), Run: c12Mixed, Quiet: 90 * time.Second},
			{Name: "gate", Cases: pick(60, 1200), Run: c12Gate, Quiet: 90 * time.Second},
			{Name: "expiry", Cases: pick(40, 300), Run: c12Expiry, Quiet: 90 * time.Second},
			{Name: "aimed", Cases: pick(160, 800), Run: c12Aimed, Quiet: 90 * time.Second, Procs: 4, Workers: 8},
			{Name: "reconnect", Cases: pick(48, 600), Run: c12Reconnect, Quiet: 90 * time.Second},
			{Name: "late-verdict", Cases: pick(48, 600), Run: func(c *rig.Ctx) { xLateVerdict(c, c.Rand, "late-verdict") }, Quiet: 90 * time.Second},
			{Name: "removals", Cases: pick(16, 120), Run: c12Removals, Quiet: 90 * time.Second},
			{Name: "blocking", Cases: pick(96, 1200), Run: c12Blocking, Quiet: 90 * time.Second},
			{Name: "shapes", Cases: pick(80, 1000), Run: c12Shapes, Quiet: 90 * time.Second},
			{Name: "latecb", Cases: pick(48, 600), Run: c12LateCB, Quiet: 90 * time.Second},
			{Name: "repeat", Cases: pick(64, 800), Run: c12Repeat, Quiet: 90 * time.Second},
			{Name: "local-removal", Cases: pick(48, 600), Run: c12LocalRemoval, Quiet: 90 * time.Second},
			{Name: "mixed-race", Race: true, Cases: pick(30, 400), Run: c12Mixed, Quiet: 120 * time.Second},
			{Name: "gate-race", Race: true, Cases: pick(20, 300), Run: c12Gate, Quiet: 120 * time.Second},
			{Name: "expiry-race", Race: true, Cases: pick(10, 60), Run: c12Expiry, Quiet: 120 * time.Second},
			{Name: "aimed-race", Race: true, Cases: pick(12, 60), Run: c12Aimed, Quiet: 120 * time.Second, Procs: 4, Workers: 8},
			{Name: "blocking-race", Race: true, Cases: pick(24, 240), Run: c12Blocking, Quiet: 120 * time.Second},
		},
	})
}

// ---------------------------------------------------------------------------
// plan

type c12Write struct {
	idx, peer, feat, elem int
	val                   int64
	ack                   bool
	v                     []int
	class                 string
	timeout               time.Duration
	racers                []int // callbacks whose verdict goes through the gate (gateT, duel)
	mc                    model.MsgCounterType
	sent                  bool
	sentAt                time.Time                               // workload pacing only, never read by an oracle
	sentBefore            time.Time                               // class timely: taken before the write is handed to the stack: no timer for it is armed before this moment
	lastRet               time.Time                               // class timely: taken after the latest verdict call returned (cw.mu)
	denials               []model.ErrorType                       // the errors handed to ApproveOrDenyWrite for this write (cw.mu)
	mkCmd                 func(elem int, val int64) model.CmdType // part shapes: the write is not the ordinary partial write of one element
	frac                  int                                     // class timely: the verdicts are delivered after about frac per cent of the timeout (pacing)
	returned              []bool                                  // verdict of callback i has been delivered and the call returned (cw.mu)
	errSeenBeforeRelease  bool
}

func (w *c12Write) vec() string {
	s := ""
	for _, x := range w.v {
		s += c12VN[x]
	}
	return s
}

func (w *c12Write) shape() string {
	cl := w.class
	if cl == "timely" {
		cl = fmt.Sprintf("timely@%d%%", w.frac)
	}
	return fmt.Sprintf("p%df%d/%s/%s/ack=%v/r%v", w.peer, w.feat, cl, w.vec(), w.ack, w.racers)
}

func (w *c12Write) unanimous() bool {
	for _, x := range w.v {
		if x != c12A {
			return false
		}
	}
	return true
}

type c12Del struct {
	w  *c12Write
	cb int
}

type c12Plan struct {
	k           int
	layout      int // 0: one feature, writer peer0, peer1 unbound; 1: two features, peer i writes feature i; 2: one feature, peer0 then (re-bound) peer1
	sameMC      bool
	ctr         int         // boundary message counters: 0 none (5000.. / 100001..), 1: max uint64, 0, 1, ..; 2: 0, 1, 2, ..; 3: 1, 2, 3, .. (sameMC: both peers alike, else peer1 uses the next mode)
	writes      []*c12Write // phase 0
	gated       []*c12Write // phase B (gateT / duel)
	order       []c12Del    // explicit sequential order of all early deliveries (enumerated parts); nil = shuffled
	gor         int         // delivering goroutines in phases A and C
	splitA      int         // per mille of the early deliveries that go into phase A (rest of the long writes' verdicts: phase C)
	distractor  bool        // an unbound peer sends a write with the counter of a pending write
	counterless bool        // finish with a write datagram without msgCounter
	slow        bool        // the peers' connection writers can be blocked (part expiry)
	foreignRm   bool        // layout 0: while the writes are pending the OTHER peer (no write of its own) announces the removal of its entity [1] - the same entity number the writes come from
	concSend    bool        // layouts 0 and 1: after the first write of each peer the peers' remaining writes are sent by one goroutine per peer WHILE verdicts of the first writes are delivered
	fixed       bool        // the features carry a ninth element that is NOT changeable (part shapes)
	label       string
}

func (p *c12Plan) shape() string {
	var ws []string
	for _, w := range p.writes {
		ws = append(ws, w.shape())
	}
	for _, w := range p.gated {
		ws = append(ws, "B:"+w.shape())
	}
	ord := ""
	for _, d := range p.order {
		ord += fmt.Sprintf("%d.%d,", d.w.idx, d.cb)
	}
	return fmt.Sprintf("%s k=%d L%d same=%v ctr=%d g=%d split=%d dis=%v nc=%v cs=%v rm=%v [%s] ord=%s", p.label, p.k, p.layout, p.sameMC, p.ctr, p.gor, p.splitA/250, p.distractor, p.counterless, p.concSend, p.foreignRm, strings.Join(ws, " "), ord)
}

func c12Classify(w *c12Write) {
	w.class = "long"
	w.timeout = time.Hour
	for _, x := range w.v {
		if x == c12S || x == c12LA || x == c12LD {
			w.class = "short"
		}
	}
}

// ---------------------------------------------------------------------------
// world + monitor

type c12Key struct {
	feat, cb int
	ski      string
	mc       model.MsgCounterType
}

type c12World struct {
	c        *rig.Ctx
	w        *rig.World
	pl       *c12Plan
	hooks    *rig.Hooks
	feats    []*spine.FeatureLocal
	bound    []int // feature -> peer index currently bound (-1 none)
	baseline int

	mu      sync.Mutex
	inv     map[c12Key][]*api.Message
	noCtrM  []*api.Message
	noCtrF  []int
	strange []string
	trace   []string
	events  int64
	nextEl  []int
	expect  []map[int]int64 // feature -> element -> expected value
	known   []map[model.MsgCounterType]bool
	skip    bool // an inconclusive wait happened: do not judge the rest
	bw      []*xBlockWriter
	noClose bool
	ctrSet  map[int]bool                    // peers whose message counter has been put where the plan wants it
	present func(f, cb int, m *api.Message) // part blocking: what a callback does after its invocation was recorded (it may block)
}

func (cw *c12World) log(format string, a ...any) {
	s := fmt.Sprintf("%d ", rig.Seq()) + fmt.Sprintf(format, a...)
	cw.mu.Lock()
	if len(cw.trace) < 400 {
		cw.trace = append(cw.trace, s)
	}
	cw.mu.Unlock()
}

func c12Settle() int {
	// goroutine count of the idle process: stable over a few polls
	last, same := runtime.NumGoroutine(), 0
	for i := 0; i < 2000 && same < 5; i++ {
		time.Sleep(200 * time.Microsecond)
		n := runtime.NumGoroutine()
		if n == last {
			same++
		} else {
			last, same = n, 0
		}
	}
	return last
}

func newC12World(c *rig.Ctx, pl *c12Plan) *c12World {
	cw := &c12World{c: c, pl: pl, w: rig.NewWorld(c.Tag()), inv: map[c12Key][]*api.Message{}}
	cw.hooks = rig.InstallHooks()
	nf := 1
	if pl.layout == 1 {
		nf = 2
	}
	for f := 0; f < nf; f++ {
		e := cw.w.AddEntity(model.EntityTypeTypeCEM, []uint{uint(f + 1)}, 4*time.Second)
		fl := e.GetOrAddFeature(model.FeatureTypeTypeLoadControl, model.RoleTypeServer).(*spine.FeatureLocal)
		fl.AddFunctionType(c12Fn, true, true)
		var items []model.LoadControlLimitDataType
		exp := map[int]int64{}
		for i := 1; i <= c12Elems; i++ {
			items = append(items, model.LoadControlLimitDataType{LimitId: util.Ptr(model.LoadControlLimitIdType(i)), IsLimitChangeable: util.Ptr(true),
				Value: &model.ScaledNumberType{Number: util.Ptr(model.NumberType(i))}})
			exp[i] = int64(i)
		}
		if pl.fixed {
			items = append(items, model.LoadControlLimitDataType{LimitId: util.Ptr(model.LoadControlLimitIdType(c12Elems + 1)), IsLimitChangeable: util.Ptr(false),
				Value: &model.ScaledNumberType{Number: util.Ptr(model.NumberType(c12Elems + 1))}})
		}
		fl.SetData(c12Fn, &model.LoadControlLimitListDataType{LoadControlLimitData: items})
		for cb := 0; cb < pl.k; cb++ {
			f, cb := f, cb
			_ = fl.AddWriteApprovalCallback(func(m *api.Message) { cw.onCallback(f, cb, m) })
		}
		cw.feats = append(cw.feats, fl)
		cw.bound = append(cw.bound, -1)
		cw.nextEl = append(cw.nextEl, 1)
		cw.expect = append(cw.expect, exp)
	}
	for i := 0; i < 2; i++ {
		var p *rig.Peer
		if pl.slow {
			p = xAddPeer(cw.w, i, func(tap *rig.Tap) xWriter {
				b := newXBlockWriter(tap)
				cw.bw = append(cw.bw, b)
				return b
			})
		} else {
			p = cw.w.AddPeer(i)
		}
		p.Ctr = uint64(100000 * (i + 1))
		p.Announce([]rig.FS{rig.NMFS, {Ent: []uint{1}, Id: 1, Typ: model.FeatureTypeTypeLoadControl, Role: model.RoleTypeClient}})
		cw.known = append(cw.known, map[model.MsgCounterType]bool{})
	}
	for _, p := range cw.w.Peers {
		p.Tap.Take()
	}
	cw.w.Core.Take()
	cw.baseline = c12Settle()
	return cw
}

func (cw *c12World) onCallback(f, cb int, m *api.Message) {
	if cw.record(f, cb, m) && cw.present != nil {
		cw.present(f, cb, m)
	}
}

func (cw *c12World) record(f, cb int, m *api.Message) bool {
	cw.mu.Lock()
	defer cw.mu.Unlock()
	cw.events++
	if m == nil || m.DeviceRemote == nil || m.RequestHeader == nil {
		cw.strange = append(cw.strange, fmt.Sprintf("callback %d of feature %d invoked with an incomplete message %+v", cb, f, m))
		return false
	}
	if m.RequestHeader.MsgCounter == nil {
		cw.noCtrM = append(cw.noCtrM, m)
		cw.noCtrF = append(cw.noCtrF, f)
		return false
	}
	k := c12Key{f, cb, m.DeviceRemote.Ski(), *m.RequestHeader.MsgCounter}
	cw.inv[k] = append(cw.inv[k], m)
	return true
}

// setCtr puts the message counter of a peer where the plan wants its writes to be numbered from: the statement
// speaks of "each authorised incoming write", whatever legal counter value it carries (0, 1, the largest uint64, the
// wrap-around from the largest value to 0, and the same values on both connections).
func (cw *c12World) setCtr(peer int) {
	pl := cw.pl
	m := pl.ctr
	if cw.ctrSet == nil {
		cw.ctrSet = map[int]bool{}
	}
	if cw.ctrSet[peer] {
		return
	}
	cw.ctrSet[peer] = true
	switch {
	case m == 0 && pl.sameMC:
		cw.w.Peers[peer].Ctr = 5000
		return
	case m == 0:
		return
	}
	if !pl.sameMC && peer == 1 {
		m = m%3 + 1
	}
	cw.w.Peers[peer].Ctr = []uint64{0, math.MaxUint64 - 1, math.MaxUint64, 0}[m]
	cw.c.Count(fmt.Sprintf("boundary_counters:mode%d", m), 1)
}

func (cw *c12World) clientAddr(p *rig.Peer) *model.FeatureAddressType {
	return rig.FA(p.Addr, []uint{1}, 1)
}

// bind makes peer pi the (only) bound client of feature f.
func (cw *c12World) bind(f, pi int) bool {
	if cw.bound[f] == pi {
		return true
	}
	srv := cw.feats[f].Address()
	if old := cw.bound[f]; old >= 0 {
		q := cw.w.Peers[old]
		mc := q.Unbind(cw.clientAddr(q), srv)
		cw.known[old][mc] = true
		cw.log("peer%d unbinds feature %d", old, f)
	}
	p := cw.w.Peers[pi]
	mc := p.Bind(cw.clientAddr(p), srv, model.FeatureTypeTypeLoadControl)
	cw.known[pi][mc] = true
	cw.log("peer%d binds feature %d", pi, f)
	rf := p.RD.FeatureByAddress(cw.clientAddr(p))
	if rf == nil || !cw.w.Local.BindingManager().HasLocalFeatureRemoteBinding(srv, rf.Address()) {
		cw.c.Violate("setup/bind-refused", "peer%d could not bind feature %d\n%s", pi, f, strings.Join(cw.trace, "\n"))
		return false
	}
	cw.bound[f] = pi
	return true
}

func c12WriteCmd(elem int, val int64) model.CmdType {
	return model.CmdType{
		Function: util.Ptr(c12Fn),
		Filter:   []model.FilterType{*model.NewFilterTypePartial()},
		LoadControlLimitListData: &model.LoadControlLimitListDataType{LoadControlLimitData: []model.LoadControlLimitDataType{
			{LimitId: util.Ptr(model.LoadControlLimitIdType(elem)), Value: &model.ScaledNumberType{Number: util.Ptr(model.NumberType(val))}}}},
	}
}

// send injects the write (handling is synchronous up to spawning the callbacks) and waits until its
// callbacks have run. Returns false if the case cannot go on.
func (cw *c12World) send(w *c12Write) bool {
	if !cw.bind(w.feat, w.peer) {
		return false
	}
	p := cw.w.Peers[w.peer]
	cw.setCtr(w.peer) // after the bind call: it must not shift the numbering
	w.elem = cw.nextEl[w.feat]
	cw.nextEl[w.feat]++
	w.returned = make([]bool, cw.pl.k)
	cw.feats[w.feat].SetWriteApprovalTimeout(w.timeout)
	cmd := c12WriteCmd(w.elem, w.val)
	if w.mkCmd != nil {
		cmd = w.mkCmd(w.elem, w.val)
	}
	w.sentBefore = time.Now()
	w.mc = p.Send(model.CmdClassifierTypeWrite, cw.clientAddr(p), cw.feats[w.feat].Address(), w.ack, nil, cmd)
	w.sent = true
	w.sentAt = time.Now()
	cw.known[w.peer][w.mc] = true
	cw.log("peer%d writes #%d mc=%d feature=%d elem=%d val=%d ack=%v class=%s timeout=%v verdicts=%s", w.peer, w.idx, w.mc, w.feat, w.elem, w.val, w.ack, w.class, w.timeout, w.vec())
	if n := p.PanicCount(); n > 0 {
		cw.c.Violate("write/panic", "%s\n%s", p.Panics[n-1], strings.Join(cw.trace, "\n"))
		return false
	}
	return cw.awaitCallbacks(w)
}

// awaitCallbacks waits until each of the k callbacks of the write's feature has been invoked. A missing
// invocation is a violation only after the process is quiet again (every spawned goroutine finished).
func (cw *c12World) awaitCallbacks(w *c12Write) bool {
	p := cw.w.Peers[w.peer]
	all := func() bool {
		cw.mu.Lock()
		defer cw.mu.Unlock()
		for cb := 0; cb < cw.pl.k; cb++ {
			if len(cw.inv[c12Key{w.feat, cb, p.Ski, w.mc}]) == 0 {
				return false
			}
		}
		return true
	}
	if rig.WaitFor(8*time.Second, all) {
		return true
	}
	if !rig.WaitQuiet(cw.baseline, 10*time.Second) {
		cw.c.Inconclusive("callbacks of write #%d not seen and process not quiet", w.idx)
		cw.skip = true
		return false
	}
	if all() {
		return true
	}
	cw.mu.Lock()
	var got []string
	for cb := 0; cb < cw.pl.k; cb++ {
		got = append(got, fmt.Sprint(len(cw.inv[c12Key{w.feat, cb, p.Ski, w.mc}])))
	}
	cw.mu.Unlock()
	cw.c.Violate("callback/not-invoked", "write #%d (k=%d): invocations per callback %v after quiescence\n%s", w.idx, cw.pl.k, got, strings.Join(cw.trace, "\n"))
	cw.skip = true
	return false
}

func (cw *c12World) msgFor(w *c12Write, cb int) *api.Message {
	cw.mu.Lock()
	defer cw.mu.Unlock()
	ms := cw.inv[c12Key{w.feat, cb, cw.w.Peers[w.peer].Ski, w.mc}]
	if len(ms) == 0 {
		return nil
	}
	return ms[0]
}

// denial: the error a callback denies a write with: number (1..9) and description differ between callbacks and writes,
// so that the error result can be compared with the denial it comes from.
func (cw *c12World) denial(w *c12Write, cb int) model.ErrorType {
	et := *model.NewErrorType(model.ErrorNumberType(1+(w.idx*3+cb)%9), fmt.Sprintf("denied by callback %d (write #%d)", cb, w.idx))
	cw.mu.Lock()
	w.denials = append(w.denials, et)
	cw.mu.Unlock()
	return et
}

// deliver hands the verdict of callback d.cb for write d.w to the stack.
func (cw *c12World) deliver(d c12Del) {
	m := cw.msgFor(d.w, d.cb)
	if m == nil {
		return
	}
	var et model.ErrorType
	deny := d.w.v[d.cb] == c12D || d.w.v[d.cb] == c12LD
	if deny {
		et = cw.denial(d.w, d.cb)
	}
	cw.log("-> verdict write #%d cb%d deny=%v", d.w.idx, d.cb, deny)
	cw.feats[d.w.feat].ApproveOrDenyWrite(m, et)
	now := time.Now()
	cw.mu.Lock()
	d.w.returned[d.cb] = true
	d.w.lastRet = now
	cw.mu.Unlock()
	cw.log("<- verdict write #%d cb%d returned", d.w.idx, d.cb)
}

type c12Obs struct {
	applied    bool
	succ, errs int
	other      int
}

func (cw *c12World) value(f, elem int) (int64, bool) {
	d, _ := cw.feats[f].DataCopy(c12Fn).(*model.LoadControlLimitListDataType)
	if d == nil {
		return 0, false
	}
	for _, it := range d.LoadControlLimitData {
		if it.LimitId != nil && int(*it.LimitId) == elem && it.Value != nil && it.Value.Number != nil {
			return int64(*it.Value.Number), true
		}
	}
	return 0, false
}

func (cw *c12World) observe(w *c12Write) c12Obs {
	v, _ := cw.value(w.feat, w.elem)
	r := rig.Classify(cw.w.Peers[w.peer].Tap.Peek(), w.mc)
	return c12Obs{applied: v == w.val, succ: r.Success, errs: r.Errors, other: r.Replies + r.OtherRef}
}

func (cw *c12World) fail(w *c12Write, dev, where string, o c12Obs) {
	cw.mu.Lock()
	ret := append([]bool(nil), w.returned...)
	cw.mu.Unlock()
	cw.c.Violate(w.class+"/"+dev, "write #%d (peer%d feature %d mc=%d k=%d verdicts=%s ack=%v class=%s) %s: applied=%v success-results=%d error-results=%d other=%d; verdict calls returned=%v\nplan: %s\ntrace:\n%s",
		w.idx, w.peer, w.feat, w.mc, cw.pl.k, w.vec(), w.ack, w.class, where, o.applied, o.succ, o.errs, o.other, ret, cw.pl.shape(), strings.Join(cw.trace, "\n"))
}

// judge compares what is observable for w right now with what the statement allows, given which verdict
// calls have returned (no call may be in flight for w when this is called with final == false).
func (cw *c12World) judge(w *c12Write, final bool, where string) {
	if !w.sent {
		return
	}
	o := cw.observe(w)
	cw.mu.Lock()
	cw.events += 3
	nRet, denyRet := 0, false
	// class timely ("approves it before the timeout"): a timer never fires early, and the timer of this write was armed
	// after sentBefore was taken; if the last verdict call had returned before the timeout can have passed since then,
	// every callback approved before the timeout. (A late return - a loaded machine - only makes the rule not apply.)
	lastRet := w.lastRet
	for cb, r := range w.returned {
		if r {
			nRet++
			if w.v[cb] == c12D || w.v[cb] == c12LD {
				denyRet = true
			}
		}
	}
	cw.mu.Unlock()
	ackN := 0
	if w.ack {
		ackN = 1
	}
	// invariants of every class at every moment
	switch {
	case o.applied && o.errs > 0:
		cw.fail(w, "error-result-and-applied", where, o)
		return
	case o.errs > 1:
		cw.fail(w, "several-error-results", where, o)
		return
	case o.succ > ackN || (o.succ > 0 && !o.applied):
		cw.fail(w, "unexpected-success-result", where, o)
		return
	case o.other > 0:
		cw.fail(w, "unexpected-response-kind", where, o)
		return
	case o.applied && !w.unanimous():
		cw.fail(w, "applied-without-unanimous-approval", where, o)
		return
	case o.applied && w.ack && o.succ != 1:
		cw.fail(w, "applied-without-requested-success-result", where, o)
		return
	}
	if w.class == "latecb" && o.applied && nRet < len(w.v) {
		cw.fail(w, "applied-before-all-presented-callbacks-approved", where, o)
		return
	}
	timerFar := w.class == "long" || w.class == "duel"
	if timerFar {
		switch {
		case denyRet:
			if o.errs != 1 {
				cw.fail(w, "denied-without-error-result", where, o)
			}
		case nRet == len(w.v): // all approved, all calls returned
			if !o.applied {
				cw.fail(w, "unanimous-approval-not-applied", where, o)
			}
		default: // still waiting for verdicts, the timer is an hour away
			if o.applied {
				cw.fail(w, "applied-before-all-approved", where, o)
			} else if o.errs > 0 {
				cw.fail(w, "error-result-without-denial-or-timeout", where, o)
			}
		}
		return
	}
	if !final {
		return
	}
	switch w.class {
	case "short", "gateT":
		// a silent/late callback, or (gateT) the error result was on the tap before the parked verdicts were released
		if w.class == "gateT" && w.unanimous() && !w.errSeenBeforeRelease {
			if (o.applied && o.errs == 0) || (!o.applied && o.errs == 1) {
				return
			}
			cw.fail(w, "not-exactly-one-outcome", where, o)
			return
		}
		if o.errs != 1 || o.applied {
			cw.fail(w, "not-exactly-one-error-result", where, o)
		}
	case "timely":
		inTime := nRet == len(w.v) && lastRet.Sub(w.sentBefore) < w.timeout
		switch {
		case !w.unanimous():
			if o.errs != 1 || o.applied {
				cw.fail(w, "not-exactly-one-error-result", where, o)
			}
		case inTime:
			cw.c.Count("timely:all-approvals-returned-before-the-timeout-can-have-passed", 1)
			if !o.applied || o.errs != 0 {
				cw.fail(w, "approved-before-the-timeout-but-not-applied", fmt.Sprintf("%s (timeout %v; the last approval call had returned %v after a moment BEFORE the write was handed to the stack)", where, w.timeout, lastRet.Sub(w.sentBefore)), o)
			}
		default:
			cw.c.Count("timely:approvals-too-late-for-the-rule(either outcome)", 1)
			if !((o.applied && o.errs == 0) || (!o.applied && o.errs == 1)) {
				cw.fail(w, "not-exactly-one-outcome", where, o)
			}
		}
	case "latecb":
		if !w.unanimous() {
			if o.errs != 1 || o.applied {
				cw.fail(w, "not-exactly-one-error-result", where, o)
			}
		} else if !((o.applied && o.errs == 0) || (!o.applied && o.errs == 1)) {
			cw.fail(w, "not-exactly-one-outcome", where, o)
		}
	case "natural", "expiry", "aimed":
		// verdicts and a real 30 ms timer race without a hook: a denial always ends in exactly one error result,
		// unanimous approval in exactly one of the two outcomes
		if !w.unanimous() {
			if o.errs != 1 || o.applied {
				cw.fail(w, "not-exactly-one-error-result", where, o)
			}
		} else if !((o.applied && o.errs == 0) || (!o.applied && o.errs == 1)) {
			cw.fail(w, "not-exactly-one-outcome", where, o)
		}
	}
}

// run delivers ds from g goroutines (round-robin split keeps the drawn order within a goroutine).
// With one goroutine every long write is judged after every single step.
func (cw *c12World) run(ds []c12Del, g int, where string) bool {
	if len(ds) == 0 {
		return true
	}
	if g <= 1 {
		for _, d := range ds {
			ok, pan := rig.Guard(30*time.Second, func() { cw.deliver(d) })
			if pan != "" {
				cw.c.Violate("verdict/panic", "ApproveOrDenyWrite panicked: %s\n%s", pan, strings.Join(cw.trace, "\n"))
				cw.noClose = true
				return false
			}
			if !ok {
				cw.c.Inconclusive("ApproveOrDenyWrite did not return within 30s (%s)", where)
				cw.skip, cw.noClose = true, true
				return false
			}
			for _, w := range cw.all() {
				cw.judge(w, false, where+" after verdict of write #"+fmt.Sprint(d.w.idx))
			}
		}
		return true
	}
	var wg sync.WaitGroup
	var bad atomic.Int32
	for i := 0; i < g; i++ {
		var mine []c12Del
		for j := i; j < len(ds); j += g {
			mine = append(mine, ds[j])
		}
		wg.Add(1)
		go func() {
			defer wg.Done()
			ok, pan := rig.Guard(30*time.Second, func() {
				for _, d := range mine {
					cw.deliver(d)
				}
			})
			if pan != "" {
				cw.c.Violate("verdict/panic", "ApproveOrDenyWrite panicked: %s", pan)
				bad.Store(1)
			} else if !ok {
				cw.c.Inconclusive("ApproveOrDenyWrite did not return within 30s (%s)", where)
				bad.Store(1)
			}
		}()
	}
	wg.Wait()
	if bad.Load() != 0 {
		cw.skip, cw.noClose = true, true
		return false
	}
	for _, w := range cw.all() {
		cw.judge(w, false, where+" after joining the delivering goroutines")
	}
	return true
}

func (cw *c12World) all() []*c12Write {
	return append(append([]*c12Write(nil), cw.pl.writes...), cw.pl.gated...)
}

func (cw *c12World) errOnTap(w *c12Write) bool {
	return rig.Classify(cw.w.Peers[w.peer].Tap.Peek(), w.mc).Errors > 0
}

// ---------------------------------------------------------------------------
// one case

func c12Run(c *rig.Ctx, pl *c12Plan) {
	cw := newC12World(c, pl)
	defer func() {
		cw.hooks.ReleaseAll()
		if cw.noClose {
			spine.SetVerifHook(nil) // a verdict call is stuck or panicked inside the stack: Close could block on its mutex
			return
		}
		cw.w.Close()
	}()
	r := c.Rand
	c.Shape(pl.shape())
	decided := false
	defer func() {
		cw.mu.Lock()
		ev := cw.events
		tr := append([]string(nil), cw.trace...)
		cw.mu.Unlock()
		c.Events(ev)
		c.NonTrivial(decided && !cw.skip)
		if len(tr) > 60 {
			tr = tr[:60]
		}
		c.Sample(map[string]any{"plan": pl.shape(), "trace": tr})
		if c.Failed() {
			c.Witness(map[string]any{"plan": pl.shape(), "trace": cw.trace})
		}
	}()

	// ---- phase 0: all ordinary writes become pending (for layout 2: peer0's first, then the re-binding)
	ws := append([]*c12Write(nil), pl.writes...)
	sort.SliceStable(ws, func(i, j int) bool { return pl.layout == 2 && ws[i].peer < ws[j].peer })
	if pl.concSend && pl.layout != 2 {
		if !c12ConcurrentArrival(cw, ws) {
			return
		}
		ws = nil
	}
	for _, w := range ws {
		if !cw.send(w) { // (puts the peer's message counter where the plan wants it before the peer's first write)
			return
		}
	}
	ws = append([]*c12Write(nil), pl.writes...)
	if pl.distractor && pl.layout == 0 && len(ws) > 0 {
		// an unbound peer writes with the message counter of a pending write: refused at once, must not touch anything
		w0 := ws[0]
		q := cw.w.Peers[1-w0.peer]
		if cw.bound[w0.feat] != 1-w0.peer {
			q.Ctr = uint64(w0.mc) - 1
			mc := q.Send(model.CmdClassifierTypeWrite, cw.clientAddr(q), cw.feats[w0.feat].Address(), true, nil, c12WriteCmd(c12Elems, 999999))
			cw.known[1-w0.peer][mc] = true
			cw.log("unbound peer%d writes mc=%d to feature %d", 1-w0.peer, mc, w0.feat)
			res := rig.Classify(q.Tap.Peek(), mc)
			if res.Errors != 1 || res.Success != 0 {
				c.Violate("distractor/unbound-write-not-refused-once", "unbound write mc=%d: %s\n%s", mc, res, strings.Join(cw.trace, "\n"))
			}
		}
	}
	if pl.foreignRm && pl.layout == 0 && len(ws) > 0 && cw.bound[0] == 0 {
		// "independently of any other ... peer": the other peer, which has nothing pending, removes its entity [1]; the
		// pending writes come from entity [1] of THEIR device and are none of its business
		q := cw.w.Peers[1]
		mc := q.NotifyDiscovery(true, q.Discovery(nil, nil, [][]uint{{1}}))
		cw.known[1][mc] = true
		cw.log("peer1 (nothing pending) announces the removal of its entity [1] (notify mc=%d)", mc)
		if n := q.PanicCount(); n > 0 {
			c.Violate("write/panic", "%s\n%s", q.Panics[n-1], strings.Join(cw.trace, "\n"))
			return
		}
		c.Count("removal_of_the_other_peers_entity_while_writes_were_pending", 1)
	}
	for _, w := range cw.all() {
		cw.judge(w, false, "after sending")
	}

	// ---- early and late deliveries
	var early, late []c12Del
	if pl.order != nil {
		early = pl.order
	} else {
		for _, w := range pl.writes {
			for cb, x := range w.v {
				cw.mu.Lock()
				done := w.returned[cb] // (delivered while other writes were arriving, pl.concSend)
				cw.mu.Unlock()
				if done {
					continue
				}
				switch x {
				case c12A, c12D:
					early = append(early, c12Del{w, cb})
				case c12LA, c12LD:
					late = append(late, c12Del{w, cb})
				}
			}
		}
		r.Shuffle(len(early), func(i, j int) { early[i], early[j] = early[j], early[i] })
		r.Shuffle(len(late), func(i, j int) { late[i], late[j] = late[j], late[i] })
	}
	// verdicts of long writes may be held back until after the short timers fired (phase C)
	var phaseA, phaseC []c12Del
	timely := map[*c12Write][]c12Del{}
	for _, d := range early {
		if d.w.class == "timely" {
			timely[d.w] = append(timely[d.w], d)
		} else if d.w.class == "long" && pl.order == nil && r.Intn(1000) >= pl.splitA {
			phaseC = append(phaseC, d)
		} else {
			phaseA = append(phaseA, d)
		}
	}
	natural := false
	for _, w := range pl.writes {
		if w.class == "natural" {
			natural = true
		}
	}
	if natural {
		time.Sleep(time.Duration(r.Intn(36)) * time.Millisecond) // workload timing only; the oracle accepts either outcome
	}
	if !cw.run(phaseA, pl.gor, "phase A") {
		return
	}

	// ---- phase T: the verdicts of a timely write are delivered when a drawn share of its timeout has passed (pacing);
	// whether that was "before the timeout" is decided in judge from the monotonic clock around the write's life
	for _, w := range pl.writes {
		if w.class != "timely" {
			continue
		}
		if d := time.Until(w.sentBefore.Add(w.timeout * time.Duration(w.frac) / 100)); d > 0 {
			time.Sleep(d)
		}
		if !cw.run(timely[w], 1, "phase T") {
			return
		}
	}

	// ---- phase B: verdicts parked inside ApproveOrDenyWrite
	if len(pl.gated) > 0 {
		if !c12PhaseB(cw) {
			return
		}
	}

	// ---- wait for the timers of all writes that cannot be decided by verdicts
	for _, w := range pl.writes {
		if w.class != "short" {
			continue
		}
		if !rig.WaitFor(20*time.Second, func() bool { return cw.errOnTap(w) }) {
			// no error result: legitimate only if ... never: a short write always ends with an error result. But "never" needs a clock,
			// so the expiry of this generous watchdog (400x the timeout) is reported as inconclusive unless the process is idle.
			if rig.WaitQuiet(cw.baseline, 5*time.Second) {
				pend, _ := cw.feats[w.feat].VerifApprovalState()
				if pend[cw.w.Peers[w.peer].Ski] == 0 {
					// no timer is armed any more and nothing is running: the outcome can no longer appear
					cw.judge(w, true, "no timer armed, process idle, 20s after a "+w.timeout.String()+" timeout")
					continue
				}
			}
			c.Inconclusive("error result of short write #%d not seen within 20s", w.idx)
			cw.skip = true
			return
		}
		cw.log("timeout/error result of write #%d is on the tap", w.idx)
	}
	for _, w := range pl.writes {
		if w.class == "natural" || w.class == "timely" {
			rig.WaitFor(20*time.Second, func() bool { o := cw.observe(w); return o.applied || o.errs > 0 })
		}
	}

	// ---- phase C: held back verdicts of long writes and late verdicts
	rest := append(phaseC, late...)
	r.Shuffle(len(rest), func(i, j int) { rest[i], rest[j] = rest[j], rest[i] })
	if !cw.run(rest, pl.gor, "phase C") {
		return
	}

	// ---- final: nothing further happens. A timer that should have been stopped by a verdict would fire now:
	// give it four times its period (pacing of the workload only; too short a wait can only hide a defect)
	for _, w := range pl.writes {
		if w.class == "natural" {
			if d := time.Until(w.sentAt.Add(4 * w.timeout)); d > 0 {
				time.Sleep(d)
			}
		}
		if w.class == "timely" {
			if d := time.Until(w.sentAt.Add(w.timeout + 25*time.Millisecond)); d > 0 {
				time.Sleep(d)
			}
		}
	}
	if !rig.WaitQuiet(cw.baseline, 20*time.Second) {
		c.Inconclusive("process did not become quiet")
		cw.skip = true
		return
	}
	cw.finalAudit()
	decided = len(cw.all()) > 0

	if pl.counterless && !c.Failed() {
		c12Counterless(cw)
	}
}

// c12ConcurrentArrival: "independently of any other write pending at the same time": writes ARRIVE while verdicts for
// other pending writes are being given (and while short timers of those fire). The first write of each peer is sent
// as usual; then one goroutine per peer sends that peer's remaining writes while 1-2 other goroutines deliver the
// early verdicts (approve / deny) of the first writes. Judged after all of them have been joined.
func c12ConcurrentArrival(cw *c12World, ws []*c12Write) bool {
	var seeds []*c12Write
	rest := map[int][]*c12Write{}
	seen := map[int]bool{}
	for _, w := range ws {
		if !seen[w.peer] {
			seen[w.peer] = true
			seeds = append(seeds, w)
			if !cw.send(w) {
				return false
			}
		} else {
			rest[w.peer] = append(rest[w.peer], w)
		}
	}
	var ds []c12Del
	for _, w := range seeds {
		for cb, x := range w.v {
			if x == c12A || x == c12D {
				ds = append(ds, c12Del{w, cb})
			}
		}
	}
	cw.c.Rand.Shuffle(len(ds), func(i, j int) { ds[i], ds[j] = ds[j], ds[i] })
	var wg sync.WaitGroup
	var bad atomic.Int32
	nArr := 0
	for _, list := range rest {
		list := list
		nArr += len(list)
		wg.Add(1)
		go func() {
			defer wg.Done()
			ok, pan := rig.Guard(60*time.Second, func() {
				for _, w := range list {
					if !cw.send(w) {
						bad.Store(1)
						return
					}
				}
			})
			if pan != "" {
				cw.c.Violate("write/panic", "handling a write while verdicts were being delivered panicked: %s", pan)
				bad.Store(1)
			} else if !ok {
				cw.c.Inconclusive("handling a write did not return within 60s while verdicts were being delivered")
				bad.Store(2)
			}
		}()
	}
	g := 1 + cw.c.Rand.Intn(2)
	for i := 0; i < g; i++ {
		var mine []c12Del
		for j := i; j < len(ds); j += g {
			mine = append(mine, ds[j])
		}
		wg.Add(1)
		go func() {
			defer wg.Done()
			ok, pan := rig.Guard(60*time.Second, func() {
				for _, d := range mine {
					cw.deliver(d)
					runtime.Gosched()
				}
			})
			if pan != "" {
				cw.c.Violate("verdict/panic", "ApproveOrDenyWrite panicked while other writes were arriving: %s", pan)
				bad.Store(1)
			} else if !ok {
				cw.c.Inconclusive("ApproveOrDenyWrite did not return within 60s while other writes were arriving")
				bad.Store(2)
			}
		}()
	}
	wg.Wait()
	switch bad.Load() {
	case 1:
		cw.skip = true
		return false
	case 2:
		cw.skip, cw.noClose = true, true
		return false
	}
	cw.c.Count("concurrent_arrival:writes_arriving_while_verdicts_were_delivered", int64(nArr))
	cw.c.Count("concurrent_arrival:verdicts_delivered_meanwhile", int64(len(ds)))
	for _, w := range cw.all() {
		cw.judge(w, false, "after joining the sending and the delivering goroutines")
	}
	return true
}

// finalAudit: per write the final outcome; per callback exactly one invocation; per tap only attributable results;
// per feature the data is the initial data plus exactly the applied writes; one data change event per applied write.
func (cw *c12World) finalAudit() {
	c := cw.c
	for _, w := range cw.all() {
		cw.judge(w, true, "at the end")
		o := cw.observe(w)
		if o.applied {
			cw.expect[w.feat][w.elem] = w.val
			c.Count("outcome:applied", 1)
		} else if o.errs == 1 {
			c.Count("outcome:error-result", 1)
		}
		c.Count("writes:"+w.class, 1)
		c.Seen("verdict_vectors", fmt.Sprintf("k%d:%s:%s", cw.pl.k, w.class, w.vec()))
	}
	// invocations
	cw.mu.Lock()
	want := map[c12Key]bool{}
	for _, w := range cw.all() {
		if !w.sent {
			continue
		}
		for cb := 0; cb < cw.pl.k; cb++ {
			want[c12Key{w.feat, cb, cw.w.Peers[w.peer].Ski, w.mc}] = true
		}
	}
	var devs []string
	for k := range want {
		if n := len(cw.inv[k]); n != 1 {
			devs = append(devs, fmt.Sprintf("feature %d callback %d write mc=%d of %s: invoked %d times", k.feat, k.cb, k.mc, k.ski, n))
		}
	}
	var extra []string
	for k, ms := range cw.inv {
		if !want[k] && !cw.known[0][k.mc] && !cw.known[1][k.mc] {
			extra = append(extra, fmt.Sprintf("feature %d callback %d invoked %d times for an unknown write mc=%d of %s", k.feat, k.cb, len(ms), k.mc, k.ski))
		} else if !want[k] {
			// known counter, but wrong feature/peer combination (e.g. a callback of the other feature)
			isWrite := false
			for _, w := range cw.all() {
				if w.mc == k.mc && cw.w.Peers[w.peer].Ski == k.ski {
					isWrite = true
				}
			}
			if isWrite {
				extra = append(extra, fmt.Sprintf("feature %d callback %d invoked for write mc=%d of %s, which addressed another feature", k.feat, k.cb, k.mc, k.ski))
			}
		}
		// the message handed over is the write itself
		for _, m := range ms {
			if m.CmdClassifier != model.CmdClassifierTypeWrite || m.Cmd.LoadControlLimitListData == nil {
				extra = append(extra, fmt.Sprintf("callback %d got a message that is not the write: classifier=%s", k.cb, m.CmdClassifier))
			}
		}
	}
	strange := append([]string(nil), cw.strange...)
	cw.mu.Unlock()
	sort.Strings(devs)
	sort.Strings(extra)
	if len(devs) > 0 {
		sig := "callback/invoked-more-than-once"
		if strings.Contains(strings.Join(devs, " "), "invoked 0 times") {
			sig = "callback/not-invoked"
		}
		c.Violate(sig, "%s\nplan: %s\n%s", strings.Join(devs, "\n"), cw.pl.shape(), strings.Join(cw.trace, "\n"))
	}
	if len(extra) > 0 {
		c.Violate("callback/foreign-invocation", "%s\nplan: %s\n%s", strings.Join(extra, "\n"), cw.pl.shape(), strings.Join(cw.trace, "\n"))
	}
	if len(strange) > 0 {
		c.Violate("callback/incomplete-message", "%s", strings.Join(strange, "\n"))
	}
	// results compared, not only counted: they come from the server feature the write addressed, go to the client feature
	// that wrote, and - where only a denial can have ended the write (timeout 1 h) - carry the error of one of its denials
	for _, w := range cw.all() {
		if !w.sent {
			continue
		}
		for _, d := range rig.Classify(cw.w.Peers[w.peer].Tap.Peek(), w.mc).All {
			c12CheckResultAddresses(cw, w.peer, w.feat, d)
			if len(d.Payload.Cmd) != 1 || d.Payload.Cmd[0].ResultData == nil || d.Payload.Cmd[0].ResultData.ErrorNumber == nil || *d.Payload.Cmd[0].ResultData.ErrorNumber == 0 {
				continue
			}
			cw.mu.Lock()
			dens := append([]model.ErrorType(nil), w.denials...)
			cw.mu.Unlock()
			if (w.class == "long" || w.class == "duel") && len(dens) > 0 {
				res, match := d.Payload.Cmd[0].ResultData, false
				for _, e := range dens {
					if e.ErrorNumber == *res.ErrorNumber && res.Description != nil && e.Description != nil && *res.Description == *e.Description {
						match = true
					}
				}
				if !match {
					c.Violate("result/error-is-not-the-one-of-a-denial", "write #%d (timeout 1 h) was denied with %s; its error result carries number %d, description %v: %s", w.idx, rig.JS(dens), *res.ErrorNumber, rig.JS(res.Description), rig.JS(d))
				}
			}
		}
	}
	// taps
	for pi, p := range cw.w.Peers {
		for _, d := range p.Tap.Peek() {
			cw.mu.Lock()
			cw.events++
			cw.mu.Unlock()
			ref := d.Header.MsgCounterReference
			if ref == nil || !cw.known[pi][*ref] || d.Header.CmdClassifier == nil || *d.Header.CmdClassifier != model.CmdClassifierTypeResult {
				c.Violate("tap/unattributable-datagram", "peer%d received a datagram that answers none of its messages: %s\n%s", pi, rig.JS(d), strings.Join(cw.trace, "\n"))
			} else if d.Header.AddressDestination == nil || d.Header.AddressDestination.Device == nil || string(*d.Header.AddressDestination.Device) != p.Addr {
				c.Violate("tap/result-for-other-device", "peer%d received %s", pi, rig.JS(d))
			}
		}
		if len(p.Tap.Broken) > 0 {
			c.Violate("tap/undecodable", "%v", p.Tap.Broken)
		}
	}
	// data = initial + applied writes
	for f := range cw.feats {
		for el := 1; el <= c12Elems; el++ {
			v, ok := cw.value(f, el)
			if !ok || v != cw.expect[f][el] {
				c.Violate("data/element-differs-from-outcomes", "feature %d element %d holds %d (present=%v), the outcomes observed imply %d\nplan: %s\n%s", f, el, v, ok, cw.expect[f][el], cw.pl.shape(), strings.Join(cw.trace, "\n"))
			}
		}
	}
	// exactly one data change event per applied write, none for the others
	evs := map[string]int{}
	for _, e := range cw.w.Core.Take() {
		if e.P.EventType != api.EventTypeDataChange || e.P.CmdClassifier == nil || *e.P.CmdClassifier != model.CmdClassifierTypeWrite || e.P.LocalFeature == nil {
			continue
		}
		d, _ := e.P.Data.(*model.LoadControlLimitListDataType)
		if d == nil || len(d.LoadControlLimitData) != 1 || d.LoadControlLimitData[0].Value == nil || d.LoadControlLimitData[0].Value.Number == nil {
			continue
		}
		evs[fmt.Sprintf("%s|%d", e.P.LocalFeature.Address().String(), *d.LoadControlLimitData[0].Value.Number)]++
	}
	for _, w := range cw.all() {
		if !w.sent {
			continue
		}
		o := cw.observe(w)
		n := evs[fmt.Sprintf("%s|%d", cw.feats[w.feat].Address().String(), w.val)]
		wantN := 0
		if o.applied {
			wantN = 1
		}
		if n != wantN {
			cw.fail(w, fmt.Sprintf("write-executed-%d-times", n), "at the end (data change events of this write)", o)
		}
	}
	h := fnv.New32a()
	for _, s := range cw.hooks.Trace() {
		h.Write([]byte(s))
	}
	c.Seen("hook_traces", fmt.Sprintf("%d/%08x", len(cw.hooks.Trace()), h.Sum32()))
}

// c12PhaseB: the gated writes are sent now; their non-racing verdicts are delivered at once; the racing
// verdicts are launched concurrently and park at ApproveOrDenyWrite.afterLookup.
func c12PhaseB(cw *c12World) bool {
	c, pl := cw.c, cw.pl
	for _, w := range pl.gated {
		if !cw.send(w) {
			return false
		}
	}
	var racers []c12Del
	for _, w := range pl.gated {
		isRacer := map[int]bool{}
		for _, cb := range w.racers {
			isRacer[cb] = true
			racers = append(racers, c12Del{w, cb})
		}
		var first []c12Del
		for cb := range w.v {
			if !isRacer[cb] {
				first = append(first, c12Del{w, cb})
			}
		}
		if !cw.run(first, 1, "phase B (verdicts before the gate)") {
			return false
		}
	}
	release := cw.hooks.Gate(c12Point)
	base := cw.hooks.GateWaiting(c12Point)
	var returned atomic.Int32
	var wg sync.WaitGroup
	var bad atomic.Int32
	for _, d := range racers {
		d := d
		wg.Add(1)
		go func() {
			defer wg.Done()
			ok, pan := rig.Guard(40*time.Second, func() { cw.deliver(d) })
			returned.Add(1)
			if pan != "" {
				c.Violate("verdict/panic", "ApproveOrDenyWrite panicked: %s", pan)
				bad.Store(1)
			} else if !ok {
				c.Inconclusive("gated ApproveOrDenyWrite did not return within 40s")
				bad.Store(1)
			}
		}()
	}
	// every racer is parked inside the window or has returned (no timer found any more)
	rig.WaitFor(8*time.Second, func() bool { return cw.hooks.GateWaiting(c12Point)-base+int(returned.Load()) >= len(racers) })
	parked := cw.hooks.GateWaiting(c12Point) - base
	cw.log("gate: %d of %d racing verdicts are parked after the timer lookup", parked, len(racers))
	c.Count("gate:racers", int64(len(racers)))
	c.Count("gate:parked-in-window", int64(parked))
	waitedOK := true
	for _, w := range pl.gated {
		if w.class != "gateT" {
			continue
		}
		if rig.WaitFor(20*time.Second, func() bool { return cw.errOnTap(w) }) {
			w.errSeenBeforeRelease = true
			cw.log("gate: error result of write #%d is on the tap, verdicts still parked", w.idx)
			if parked > 0 {
				c.Count("gate:timeout-inside-window", 1)
			}
		} else {
			waitedOK = false
		}
	}
	expiredBefore := cw.hooks.GateExpired(c12Point)
	release()
	cw.log("gate released")
	wg.Wait()
	if bad.Load() != 0 {
		cw.skip, cw.noClose = true, true
		return false
	}
	if expiredBefore > 0 {
		// a parked verdict ran into the hook's own watchdog: it was not held until the error result was seen
		c.Inconclusive("the gate expired before it was released")
		cw.skip = true
		return false
	}
	if !waitedOK {
		c.Inconclusive("error result of a gated write not seen within 20s")
		cw.skip = true
		return false
	}
	for _, w := range cw.all() {
		cw.judge(w, false, "after releasing the gate")
	}
	return true
}

// c12Counterless: a write datagram without msgCounter. It cannot be answered by reference, and the statement does
// not say whether it counts as a write at all, so only this is judged: it gets at most one outcome (at most one
// datagram that answers none of the peer's numbered messages; not "applied" together with an error result), answering
// the callbacks neither panics nor wedges the feature for the next write, and the process survives the approval
// timeout that was in force when it came in (a timer armed for it fires on a goroutine of its own: a panic there kills
// the worker process and is attributed to this case by the parent as crash@<frame>). The verdicts of the callbacks
// are delivered before that timeout, after it, or not at all.
func c12Counterless(cw *c12World) {
	c := cw.c
	f := 0
	pi := cw.bound[f]
	if pi < 0 {
		return
	}
	p := cw.w.Peers[pi]
	cl := model.CmdClassifierTypeWrite
	dg := model.Datagram{Datagram: model.DatagramType{
		Header: model.HeaderType{SpecificationVersion: util.Ptr(model.SpecificationVersionType("1.3.0")), AddressSource: cw.clientAddr(p), AddressDestination: cw.feats[f].Address(),
			CmdClassifier: &cl, AckRequest: util.Ptr(true)},
		Payload: model.PayloadType{Cmd: []model.CmdType{c12WriteCmd(c12Elems-1, 888888)}}}}
	b, _ := json.Marshal(dg)
	T := c12ShortTimeout(c)
	when := c.Rand.Intn(3) // verdicts: 0 before the timeout, 1 after it, 2 never
	cw.feats[f].SetWriteApprovalTimeout(T)
	before := len(p.Tap.Peek())
	cw.log("peer%d sends a write without msgCounter (approval timeout %v, verdicts %s)", pi, T, []string{"at once", "after the timeout", "never"}[when])
	sentAt := time.Now()
	p.Raw(b)
	if n := p.PanicCount(); n > 0 {
		c.Violate("counterless-write/panic", "%s\n%s", p.Panics[n-1], strings.Join(cw.trace, "\n"))
		return
	}
	rig.WaitQuiet(cw.baseline, 5*time.Second)
	cw.mu.Lock()
	ms := append([]*api.Message(nil), cw.noCtrM...)
	cw.mu.Unlock()
	c.Count("counterless:callback-invocations", int64(len(ms)))
	verdicts := func() bool {
		for _, m := range ms {
			ok, pan := rig.Guard(20*time.Second, func() { cw.feats[f].ApproveOrDenyWrite(m, model.ErrorType{}) })
			if pan != "" {
				c.Violate("counterless-write/verdict-panics", "ApproveOrDenyWrite for a write without msgCounter panicked: %s\n%s", pan, strings.Join(cw.trace, "\n"))
				cw.noClose = true
				return false
			}
			if !ok {
				c.Inconclusive("ApproveOrDenyWrite for a counterless write did not return")
				cw.noClose = true
				return false
			}
		}
		return true
	}
	if when == 0 && !verdicts() {
		return
	}
	// the approval timeout passes (pacing only: the process either survives it or the parent sees the crash)
	if d := time.Until(sentAt.Add(3*T + 20*time.Millisecond)); d > 0 {
		time.Sleep(d)
	}
	if when == 1 && !verdicts() {
		return
	}
	rig.WaitQuiet(cw.baseline, 5*time.Second)
	c.Count("counterless:survived-the-approval-timeout", 1)
	var answers, errAnswers int
	for _, d := range p.Tap.Peek()[before:] {
		if ref := d.Header.MsgCounterReference; ref != nil && cw.known[pi][*ref] {
			continue
		}
		answers++
		if len(d.Payload.Cmd) == 1 && d.Payload.Cmd[0].ResultData != nil && d.Payload.Cmd[0].ResultData.ErrorNumber != nil && *d.Payload.Cmd[0].ResultData.ErrorNumber != 0 {
			errAnswers++
		}
	}
	v, _ := cw.value(f, c12Elems-1)
	c.Count(fmt.Sprintf("counterless:answers=%d,applied=%v", answers, v == 888888), 1)
	if answers > 1 || (v == 888888 && errAnswers > 0) {
		c.Violate("counterless-write/more-than-one-outcome", "a write without msgCounter got %d datagrams that answer none of the numbered messages (%d error results), applied=%v\n%s", answers, errAnswers, v == 888888, strings.Join(cw.trace, "\n"))
		return
	}
	if v == 888888 {
		cw.expect[f][c12Elems-1] = 888888
	}
	cw.feats[f].SetWriteApprovalTimeout(time.Hour)
	// the feature still serves the next write
	w := &c12Write{idx: 99, peer: pi, feat: f, val: 777777, ack: true, v: make([]int, cw.pl.k), class: "long", timeout: time.Hour}
	sent := false
	ok, pan := rig.Guard(20*time.Second, func() { sent = cw.send(w) })
	if pan != "" || !ok {
		if pan != "" {
			c.Violate("counterless-write/next-write-panics", "%s", pan)
		} else {
			c.Inconclusive("write after a counterless write did not return")
		}
		cw.noClose = true
		return
	}
	if !sent {
		return
	}
	var ds []c12Del
	for cb := range w.v {
		ds = append(ds, c12Del{w, cb})
	}
	cw.pl.gated = append(cw.pl.gated, w) // judged by run()
	cw.run(ds, 1, "after a counterless write")
	if o := cw.observe(w); !o.applied && !c.Failed() {
		cw.fail(w, "after-counterless-write-not-applied", "after a write without msgCounter", o)
	}
}

// ---------------------------------------------------------------------------
// plan generators

func c12NewWrite(pl *c12Plan, peer, feat int, v []int, ack bool, val int64) *c12Write {
	w := &c12Write{idx: len(pl.writes) + len(pl.gated), peer: peer, feat: feat, v: v, ack: ack, val: val}
	c12Classify(w)
	return w
}

func c12Val(c *rig.Ctx, i int) int64 { return int64(1000*(i+1) + c.Rand.Intn(1000)) }

func c12PeerFeat(layout, i int) (peer, feat int) {
	switch layout {
	case 1:
		return i % 2, i % 2
	case 2:
		return i % 2, 0
	}
	return 0, 0
}

func c12ShortTimeout(c *rig.Ctx) time.Duration {
	return time.Duration(30+c.Rand.Intn(21)) * time.Millisecond
}

// part "vectors": every verdict vector over {approve, deny, silent} for k = 1..3
func c12Vectors(c *rig.Ctx) {
	var vecs [][]int
	for k := 1; k <= 3; k++ {
		n := 1
		for i := 0; i < k; i++ {
			n *= 3
		}
		for x := 0; x < n; x++ {
			v := make([]int, k)
			y := x
			for i := range v {
				v[i] = y % 3
				y /= 3
			}
			vecs = append(vecs, v)
		}
	}
	vi := c.Index % len(vecs)
	variant := c.Index / len(vecs) // thorough: 0..5 = ack x neighbour
	r := c.Rand
	ack, neighbour := r.Intn(2) == 0, r.Intn(3)
	if c.Thorough() {
		ack, neighbour = variant%2 == 0, (variant/2)%3
	}
	v := append([]int(nil), vecs[vi]...)
	// a silent vector: the non-silent verdicts arrive early or (every other case) after the timeout
	silent := false
	for _, x := range v {
		if x == c12S {
			silent = true
		}
	}
	if silent && r.Intn(2) == 0 {
		for i, x := range v {
			if x == c12A {
				v[i] = c12LA
			} else if x == c12D {
				v[i] = c12LD
			}
		}
	}
	pl := &c12Plan{k: len(v), gor: 1 + r.Intn(2), splitA: 1000, label: "vectors", sameMC: r.Intn(2) == 0, ctr: r.Intn(4), counterless: r.Intn(4) == 0}
	switch neighbour {
	case 0: // alone (plus an unbound peer using the same counter)
		pl.layout, pl.distractor = 0, true
	case 1: // a second write of the same peer, unanimously approved, pending at the same time
		pl.layout = 0
		pl.foreignRm = r.Intn(2) == 0
	case 2: // a second write of the other peer on the same feature
		pl.layout = 2
	}
	w := c12NewWrite(pl, 0, 0, v, ack, c12Val(c, 0))
	if w.class == "short" {
		w.timeout = c12ShortTimeout(c)
	}
	pl.writes = append(pl.writes, w)
	if neighbour > 0 {
		peer, feat := c12PeerFeat(pl.layout, 1)
		n := c12NewWrite(pl, peer, feat, make([]int, pl.k), r.Intn(2) == 0, c12Val(c, 1))
		pl.writes = append(pl.writes, n)
		pl.splitA = 500
	}
	c12Run(c, pl)
}

var c12Perms = func() [][]int {
	var out [][]int
	var rec func(cur []int, used int)
	rec = func(cur []int, used int) {
		if len(cur) == 4 {
			out = append(out, append([]int(nil), cur...))
			return
		}
		for i := 0; i < 4; i++ {
			if used&(1<<i) == 0 {
				rec(append(cur, i), used|1<<i)
			}
		}
	}
	rec(nil, 0)
	return out
}()

// part "interleave": two pending writes, k = 2, every order of the four deliveries x every approve/deny assignment
func c12Interleave(c *rig.Ctx) {
	total := 24 * 16 * 2
	i := c.Index
	if !c.Thorough() {
		i = int((int64(c.Index)*131 + c.Seed*17) % int64(total))
	}
	perm, bits, two := c12Perms[i%24], (i/24)%16, i/(24*16) == 1
	pl := &c12Plan{k: 2, gor: 1, splitA: 1000, label: "interleave", sameMC: true, ctr: c.Index % 4}
	if two {
		pl.layout = 2
	}
	for wi := 0; wi < 2; wi++ {
		v := []int{(bits >> (2 * wi)) & 1, (bits >> (2*wi + 1)) & 1}
		peer, feat := c12PeerFeat(pl.layout, wi)
		pl.writes = append(pl.writes, c12NewWrite(pl, peer, feat, v, c.Rand.Intn(2) == 0, c12Val(c, wi)))
	}
	for _, x := range perm {
		pl.order = append(pl.order, c12Del{pl.writes[x/2], x % 2})
	}
	c12Run(c, pl)
}

func c12DrawVector(c *rig.Ctx, k int) []int {
	v := make([]int, k)
	for i := range v {
		switch x := c.Rand.Intn(100); {
		case x < 58:
			v[i] = c12A
		case x < 72:
			v[i] = c12D
		case x < 82:
			v[i] = c12S
		case x < 92:
			v[i] = c12LA
		default:
			v[i] = c12LD
		}
	}
	return v
}

// part "mixed": random plans without hooks
func c12Mixed(c *rig.Ctx) {
	r := c.Rand
	pl := &c12Plan{k: 1 + r.Intn(3), layout: r.Intn(3), sameMC: r.Intn(2) == 0, gor: 1 + r.Intn(3), splitA: 250 * (1 + r.Intn(4)), label: "mixed",
		distractor: r.Intn(3) == 0, counterless: r.Intn(4) == 0, ctr: r.Intn(4)}
	pl.concSend = pl.layout != 2 && r.Intn(2) == 0
	pl.foreignRm = pl.layout == 0 && r.Intn(2) == 0
	n := 1 + r.Intn(4)
	if pl.concSend {
		n = 3 + r.Intn(3)
	}
	timelyDrawn := false
	for i := 0; i < n; i++ {
		peer, feat := c12PeerFeat(pl.layout, i)
		if pl.layout != 0 && r.Intn(3) == 0 {
			peer, feat = c12PeerFeat(pl.layout, 0) // several writes of one peer also in the two-peer layouts
		}
		w := c12NewWrite(pl, peer, feat, c12DrawVector(c, pl.k), r.Intn(2) == 0, c12Val(c, i))
		if w.class == "short" {
			w.timeout = c12ShortTimeout(c)
		} else if r.Intn(6) == 0 {
			w.class, w.timeout = "natural", 30*time.Millisecond
		} else if !timelyDrawn && r.Intn(4) == 0 {
			// "before the timeout": all verdicts in (no silent/late one: class long) when 0-90% of a 300-500 ms timeout have passed
			timelyDrawn = true
			w.class, w.timeout, w.frac = "timely", time.Duration(300+r.Intn(201))*time.Millisecond, []int{0, 30, 55, 75, 90}[r.Intn(5)]
		}
		pl.writes = append(pl.writes, w)
	}
	// natural writes last so that their timer starts close to the deliveries
	sort.SliceStable(pl.writes, func(i, j int) bool { return pl.writes[i].class != "natural" && pl.writes[j].class == "natural" })
	for i, w := range pl.writes {
		w.idx = i
	}
	c12Run(c, pl)
}

// part "gate": 0-2 background writes + 1-2 writes whose deciding verdicts are parked in the window
func c12Gate(c *rig.Ctx) {
	r := c.Rand
	pl := &c12Plan{k: 1 + r.Intn(3), layout: r.Intn(3), sameMC: r.Intn(2) == 0, gor: 1 + r.Intn(2), splitA: 500, label: "gate", ctr: r.Intn(4)}
	nb := r.Intn(3)
	for i := 0; i < nb; i++ {
		peer, feat := c12PeerFeat(pl.layout, i)
		v := make([]int, pl.k)
		for j := range v {
			if r.Intn(5) == 0 {
				v[j] = c12D
			}
		}
		pl.writes = append(pl.writes, c12NewWrite(pl, peer, feat, v, r.Intn(2) == 0, c12Val(c, i)))
	}
	// the gated writes come from the peer that is bound last
	gp, gf := 0, 0
	if nb > 0 {
		last := pl.writes[len(pl.writes)-1]
		gp, gf = last.peer, last.feat
		if pl.layout == 2 {
			for _, w := range pl.writes {
				if w.peer == 1 {
					gp = 1
				}
			}
		}
	}
	ng := 1 + r.Intn(2)
	for i := 0; i < ng; i++ {
		v := make([]int, pl.k)
		w := c12NewWrite(pl, gp, gf, v, r.Intn(2) == 0, c12Val(c, nb+i))
		nr := 1
		if pl.k >= 2 && r.Intn(3) > 0 {
			nr = 2
		}
		cbs := r.Perm(pl.k)[:nr]
		sort.Ints(cbs)
		w.racers = cbs
		// racing verdicts: approve/approve, approve/deny, deny/deny; the verdicts before the gate mostly approve
		for _, cb := range cbs {
			if r.Intn(3) == 0 {
				v[cb] = c12D
			}
		}
		for cb := range v {
			if !c12In(cbs, cb) && r.Intn(6) == 0 {
				v[cb] = c12D
			}
		}
		if r.Intn(2) == 0 {
			w.class, w.timeout = "gateT", time.Duration(60+r.Intn(61))*time.Millisecond
		} else {
			w.class, w.timeout = "duel", time.Hour
		}
		pl.gated = append(pl.gated, w)
	}
	c12Run(c, pl)
}

func c12In(xs []int, x int) bool {
	for _, y := range xs {
		if y == x {
			return true
		}
	}
	return false
}

// part "expiry": see the header. Layout 0 (one feature, writer peer0 with a blockable connection writer).
func c12Expiry(c *rig.Ctx) {
	r := c.Rand
	k := 1 + r.Intn(3)
	pl := &c12Plan{k: k, layout: 0, gor: 1, splitA: 1000, label: "expiry", slow: true, sameMC: r.Intn(2) == 0, ctr: r.Intn(4)}
	// W1: the target. Its last verdict (approve, or deny one time in three) is the parked one.
	v1 := make([]int, k)
	if r.Intn(3) == 0 {
		v1[k-1] = c12D
	}
	w1 := c12NewWrite(pl, 0, 0, v1, r.Intn(2) == 0, c12Val(c, 0))
	w1.class, w1.timeout, w1.racers = "expiry", time.Duration(110+r.Intn(50))*time.Millisecond, []int{k - 1}
	pl.gated = append(pl.gated, w1)
	// W0: silent helper with the shorter timeout; its timeout function will be parked in the writer
	v0 := make([]int, k)
	v0[r.Intn(k)] = c12S
	w0 := c12NewWrite(pl, 0, 0, v0, r.Intn(2) == 0, c12Val(c, 1))
	w0.timeout = time.Duration(25+r.Intn(15)) * time.Millisecond
	pl.gated = append(pl.gated, w0)
	// sometimes a third write that is simply approved while all this happens
	var w2 *c12Write
	if r.Intn(2) == 0 {
		w2 = c12NewWrite(pl, 0, 0, make([]int, k), r.Intn(2) == 0, c12Val(c, 2))
		pl.writes = append(pl.writes, w2)
	}

	cw := newC12World(c, pl)
	defer func() {
		cw.hooks.ReleaseAll()
		for _, b := range cw.bw {
			b.Release()
		}
		if cw.noClose {
			spine.SetVerifHook(nil)
			return
		}
		cw.w.Close()
	}()
	c.Shape(pl.shape())
	decided := false
	defer func() {
		cw.mu.Lock()
		ev := cw.events
		tr := append([]string(nil), cw.trace...)
		cw.mu.Unlock()
		c.Events(ev)
		c.NonTrivial(decided && !cw.skip)
		if len(tr) > 60 {
			tr = tr[:60]
		}
		c.Sample(map[string]any{"plan": pl.shape(), "trace": tr})
		if c.Failed() {
			c.Witness(map[string]any{"plan": pl.shape(), "trace": cw.trace})
		}
	}()
	if pl.sameMC || pl.ctr != 0 {
		if !cw.bind(0, 0) {
			return
		}
		cw.setCtr(0)
	}
	if w2 != nil && !cw.send(w2) {
		return
	}
	if !cw.send(w1) || !cw.send(w0) {
		return
	}
	// W1's other verdicts right away
	var first []c12Del
	for cb := 0; cb < k-1; cb++ {
		first = append(first, c12Del{w1, cb})
	}
	if !cw.run(first, 1, "expiry (verdicts before the gate)") {
		return
	}
	release := cw.hooks.Gate(c12Point)
	base := cw.hooks.GateWaiting(c12Point)
	blocked := cw.bw[0].Arm()
	var returned atomic.Int32
	var wg sync.WaitGroup
	var bad atomic.Int32
	wg.Add(1)
	go func() {
		defer wg.Done()
		ok, pan := rig.Guard(60*time.Second, func() { cw.deliver(c12Del{w1, k - 1}) })
		returned.Add(1)
		if pan != "" {
			c.Violate("verdict/panic", "ApproveOrDenyWrite panicked: %s", pan)
			bad.Store(1)
		} else if !ok {
			c.Inconclusive("parked ApproveOrDenyWrite did not return within 60s")
			bad.Store(1)
		}
	}()
	rig.WaitFor(8*time.Second, func() bool { return cw.hooks.GateWaiting(c12Point)-base+int(returned.Load()) >= 1 })
	parked := cw.hooks.GateWaiting(c12Point)-base > 0
	// the helper's timeout function parks in the writer (holding the feature's callback mutex)
	writerParked := false
	select {
	case <-blocked:
		writerParked = true
	case <-time.After(8 * time.Second):
	}
	cw.log("expiry: deciding verdict of write #%d parked after the lookup: %v; a result datagram is parked in the connection writer: %v", w1.idx, parked, writerParked)
	release()
	cw.log("gate released while the writer is blocked")
	// W1's own timer passes while its timeout function cannot run (pacing of the workload only)
	if d := time.Until(w1.sentAt.Add(w1.timeout + 30*time.Millisecond)); d > 0 {
		time.Sleep(d)
	}
	if w2 != nil && r.Intn(2) == 0 {
		// verdicts of the bystander while the callback mutex is held: they queue up behind it
		var ds []c12Del
		for cb := range w2.v {
			ds = append(ds, c12Del{w2, cb})
		}
		wg.Add(1)
		go func() {
			defer wg.Done()
			for _, d := range ds {
				cw.deliver(d)
			}
		}()
		time.Sleep(2 * time.Millisecond)
	}
	cw.bw[0].Release()
	cw.log("writer released")
	done := make(chan struct{})
	go func() { wg.Wait(); close(done) }()
	select {
	case <-done:
	case <-time.After(60 * time.Second):
		c.Inconclusive("verdict calls did not return within 60s after releasing the writer")
		cw.skip, cw.noClose = true, true
		return
	}
	if bad.Load() != 0 || cw.bw[0].Expired.Load() {
		if cw.bw[0].Expired.Load() {
			c.Inconclusive("the blocked writer ran into its watchdog")
		}
		cw.skip, cw.noClose = true, bad.Load() != 0
		return
	}
	if parked && writerParked {
		c.Count("expiry:window-forced", 1)
	} else {
		c.Count("expiry:window-not-forced", 1)
	}
	if w2 != nil {
		var ds []c12Del
		cw.mu.Lock()
		for cb := range w2.v {
			if !w2.returned[cb] {
				ds = append(ds, c12Del{w2, cb})
			}
		}
		cw.mu.Unlock()
		if !cw.run(ds, 1, "expiry (bystander)") {
			return
		}
	}
	// both short timers must have produced their effect by now or never will: wait for W0's error result
	if !rig.WaitFor(20*time.Second, func() bool { return cw.errOnTap(w0) }) {
		c.Inconclusive("error result of the helper write not seen within 20s")
		cw.skip = true
		return
	}
	for _, w := range []*c12Write{w1} {
		rig.WaitFor(20*time.Second, func() bool { o := cw.observe(w); return o.applied || o.errs > 0 })
		if d := time.Until(w.sentAt.Add(2 * w.timeout)); d > 0 {
			time.Sleep(d)
		}
	}
	if !rig.WaitQuiet(cw.baseline, 20*time.Second) {
		c.Inconclusive("process did not become quiet")
		cw.skip = true
		return
	}
	cw.finalAudit()
	decided = true
}

// part "aimed": see the header. Sequential trials on one feature; every trial is its own write (own value,
// elements reused round-robin, never two pending on one element).
func c12Aimed(c *rig.Ctx) {
	r := c.Rand
	k := 1 + r.Intn(2)
	pl := &c12Plan{k: k, layout: 0, gor: 1, splitA: 1000, label: "aimed"}
	cw := newC12World(c, pl)
	defer func() {
		if cw.noClose {
			spine.SetVerifHook(nil)
			return
		}
		cw.w.Close()
	}()
	trials := c.Pick(40, 60)
	if c.Race {
		trials = 25
	}
	T := time.Duration(2+r.Intn(3)) * time.Millisecond
	c.Shape(fmt.Sprintf("aimed k=%d T=%v deny-every=%d contention=%v", k, T, 3+c.Index%3, c.Index%4 != 3))
	decided := false
	defer func() {
		cw.mu.Lock()
		ev := cw.events
		tr := append([]string(nil), cw.trace...)
		cw.mu.Unlock()
		c.Events(ev)
		c.NonTrivial(decided && !cw.skip)
		if len(tr) > 40 {
			tr = tr[:40]
		}
		c.Sample(map[string]any{"plan": fmt.Sprintf("aimed k=%d timeout=%v trials=%d", k, T, trials), "trace": tr})
		if c.Failed() {
			c.Witness(map[string]any{"plan": pl.shape(), "trace": cw.trace})
		}
	}()
	if !cw.bind(0, 0) {
		return
	}
	p := cw.w.Peers[0]
	// Contention on the feature's callback mutex by ordinary concurrent API use (registering the same response
	// callback again and again: refused after the first time, nothing grows). With the mutex contended, the steps
	// of ApproveOrDenyWrite and of the timeout function interleave at lock granularity instead of running to
	// completion, which is what lets a verdict fall between "timer fired" and "timeout function done".
	hammer := c.Index%4 != 3
	var stop atomic.Bool
	var hwg sync.WaitGroup
	if hammer {
		fn := func(api.ResponseMessage) {}
		for g := 0; g < 3; g++ {
			hwg.Add(1)
			go func() {
				defer hwg.Done()
				for i := 0; !stop.Load(); i++ {
					_ = cw.feats[0].AddResponseCallback(424242, fn)
					if i%64 == 0 {
						runtime.Gosched()
					}
				}
			}()
		}
	}
	defer func() { stop.Store(true); hwg.Wait() }()
	aim := time.Duration(0) // follows the outcomes; pacing only
	var nApplied, nTimeout int64
	for t := 0; t < trials && !c.Failed(); t++ {
		v := make([]int, k)
		if t%(3+c.Index%3) == 2 {
			v[k-1] = c12D
		}
		w := c12NewWrite(pl, 0, 0, v, r.Intn(2) == 0, int64(1000*(t+1)+r.Intn(1000)))
		w.class, w.timeout = "aimed", T
		w.elem = 1 + t%6
		w.returned = make([]bool, k)
		pl.writes = append(pl.writes, w)
		jitter := time.Duration(r.Intn(50)-25) * time.Microsecond
		cw.feats[0].SetWriteApprovalTimeout(T)
		w.mc = p.Send(model.CmdClassifierTypeWrite, cw.clientAddr(p), cw.feats[0].Address(), w.ack, nil, c12WriteCmd(w.elem, w.val))
		w.sentAt = time.Now()
		w.sent = true
		cw.known[0][w.mc] = true
		// the callbacks hand over the message; spin, a sleeping poll would be coarser than the timeout
		var msgs []*api.Message
		for spin := time.Now(); time.Since(spin) < 200*time.Millisecond; {
			msgs = msgs[:0]
			for cb := 0; cb < k; cb++ {
				if m := cw.msgFor(w, cb); m != nil {
					msgs = append(msgs, m)
				}
			}
			if len(msgs) == k {
				break
			}
			runtime.Gosched()
		}
		if len(msgs) != k {
			continue // judged at the end (callback/not-invoked after quiescence)
		}
		for cb := 0; cb < k-1; cb++ {
			cw.feats[0].ApproveOrDenyWrite(msgs[cb], model.ErrorType{})
			cw.mu.Lock()
			w.returned[cb] = true
			cw.mu.Unlock()
		}
		var et model.ErrorType
		if v[k-1] == c12D {
			et = *model.NewErrorTypeFromString("denied by the application")
		}
		target := w.sentAt.Add(T + aim + jitter)
		for time.Now().Before(target) {
		}
		ok, pan := rig.Guard(30*time.Second, func() { cw.feats[0].ApproveOrDenyWrite(msgs[k-1], et) })
		if pan != "" {
			c.Violate("verdict/panic", "ApproveOrDenyWrite panicked: %s", pan)
			cw.noClose = true
			return
		}
		if !ok {
			c.Inconclusive("ApproveOrDenyWrite did not return within 30s")
			cw.skip, cw.noClose = true, true
			return
		}
		cw.mu.Lock()
		w.returned[k-1] = true
		cw.mu.Unlock()
		// wait for the outcome of this trial before the next one (the element is reused later)
		if !rig.WaitFor(20*time.Second, func() bool { o := cw.observe(w); return o.applied || o.errs > 0 }) {
			c.Inconclusive("no outcome of an aimed write within 20s")
			cw.skip = true
			return
		}
		o := cw.observe(w)
		timedOut := false
		if o.errs > 0 {
			// an error result: from the timer or from the denial; the description tells (evidence and aiming only)
			for _, d := range rig.Classify(p.Tap.Peek(), w.mc).All {
				if len(d.Payload.Cmd) == 1 && d.Payload.Cmd[0].ResultData != nil && d.Payload.Cmd[0].ResultData.Description != nil && strings.Contains(string(*d.Payload.Cmd[0].ResultData.Description), "in time") {
					timedOut = true
				}
			}
		}
		if timedOut {
			nTimeout++
			aim -= 15 * time.Microsecond
		} else {
			nApplied++
			aim += 15 * time.Microsecond
		}
		if t < 12 {
			cw.log("trial %d: write mc=%d verdicts=%s aimed at deadline%+v -> applied=%v errors=%d timed-out=%v", t, w.mc, w.vec(), aim+jitter, o.applied, o.errs, timedOut)
		}
		// an element is reused six trials later: judge this write for good before that. Give a timer that should
		// have been stopped the chance to fire (pacing only).
		if d := time.Until(w.sentAt.Add(2 * T)); d > 0 {
			time.Sleep(d)
		}
		cw.judge(w, true, fmt.Sprintf("trial %d", t))
		if o2 := cw.observe(w); o2.applied {
			cw.expect[0][w.elem] = w.val
		}
	}
	c.Count("aimed:verdict-won", nApplied)
	c.Count("aimed:timer-won", nTimeout)
	stop.Store(true)
	hwg.Wait()
	time.Sleep(3 * T)
	if !rig.WaitQuiet(cw.baseline, 20*time.Second) {
		c.Inconclusive("process did not become quiet")
		cw.skip = true
		return
	}
	// results and invocations of all trials; the data is compared with the outcomes in trial order
	cw.aimedAudit()
	decided = true
}

// aimedAudit is finalAudit for sequentially reused elements: outcomes were judged per trial; here the counts per
// write (results on the tap, callback invocations, data change events) are re-checked after quiescence.
func (cw *c12World) aimedAudit() {
	for _, w := range cw.pl.writes {
		if !w.sent {
			continue
		}
		r := rig.Classify(cw.w.Peers[0].Tap.Peek(), w.mc)
		cw.mu.Lock()
		cw.events += 2
		cw.mu.Unlock()
		ackN := 0
		if w.ack {
			ackN = 1
		}
		o := c12Obs{succ: r.Success, errs: r.Errors, other: r.Replies + r.OtherRef}
		switch {
		case r.Errors > 1:
			cw.fail(w, "several-error-results", "after all trials", o)
		case r.Errors == 1 && r.Success > 0:
			cw.fail(w, "error-result-and-applied", "after all trials (success and error result)", o)
		case r.Errors == 0 && r.Success != ackN:
			cw.fail(w, "applied-without-requested-success-result", "after all trials", o)
		}
		if r.Errors == 1 {
			cw.c.Count("outcome:error-result", 1)
		} else {
			cw.c.Count("outcome:applied", 1)
		}
		cw.c.Count("writes:aimed", 1)
	}
	// invocations: exactly once per callback and write
	cw.mu.Lock()
	var devs []string
	for _, w := range cw.pl.writes {
		for cb := 0; cb < cw.pl.k && w.sent; cb++ {
			if n := len(cw.inv[c12Key{0, cb, cw.w.Peers[0].Ski, w.mc}]); n != 1 {
				devs = append(devs, fmt.Sprintf("callback %d write mc=%d: invoked %d times", cb, w.mc, n))
			}
		}
	}
	cw.mu.Unlock()
	if len(devs) > 0 {
		sig := "callback/invoked-more-than-once"
		if strings.Contains(strings.Join(devs, " "), "invoked 0 times") {
			sig = "callback/not-invoked"
		}
		cw.c.Violate(sig, "%s", strings.Join(devs, "\n"))
	}
	// one data change event per write that ended without an error result, none for the others
	evs := map[int64]int{}
	for _, e := range cw.w.Core.Take() {
		if e.P.EventType != api.EventTypeDataChange || e.P.CmdClassifier == nil || *e.P.CmdClassifier != model.CmdClassifierTypeWrite {
			continue
		}
		if d, _ := e.P.Data.(*model.LoadControlLimitListDataType); d != nil && len(d.LoadControlLimitData) == 1 && d.LoadControlLimitData[0].Value != nil && d.LoadControlLimitData[0].Value.Number != nil {
			evs[int64(*d.LoadControlLimitData[0].Value.Number)]++
		}
	}
	for _, w := range cw.pl.writes {
		if !w.sent {
			continue
		}
		r := rig.Classify(cw.w.Peers[0].Tap.Peek(), w.mc)
		want := 1
		if r.Errors > 0 {
			want = 0
		}
		if evs[w.val] != want {
			cw.fail(w, fmt.Sprintf("write-executed-%d-times", evs[w.val]), "after all trials (data change events of this write)", c12Obs{succ: r.Success, errs: r.Errors})
		}
	}
	for el := 1; el <= c12Elems; el++ {
		if v, ok := cw.value(0, el); !ok || v != cw.expect[0][el] {
			cw.c.Violate("data/element-differs-from-outcomes", "element %d holds %d (present=%v), the outcomes observed imply %d", el, v, ok, cw.expect[0][el])
		}
	}
}

// part "reconnect": approvals counted for a write that timed out on a connection that was removed since must not
// count for the write with the same message counter on the next connection of the same SKI (x_c10c12_stale.go):
// "applied if and only if every callback approves it", judged at the return of every single verdict call.
func c12Reconnect(c *rig.Ctx) { xStaleApprovals(c, c.Rand, "reconnect", false) }

// part "removals": "every write gets exactly one of these outcomes ... regardless" of what else the stack is doing.
// A bound peer sends a stream of writes to a server feature whose k in {1,2} approval callbacks approve at once
// (they call ApproveOrDenyWrite from the goroutine the stack runs them on, timeout 1 h), while entities that have
// nothing to do with those writes are announced as removed and added again: by another peer on its own connection,
// by the writing peer itself between its writes, and/or by application goroutines calling
// DeviceLocal.CleanRemoteEntityCaches (which is what a removal runs on every local feature). Every write must be
// presented once to each callback, be applied exactly once (one data change event carrying its value) and be
// acknowledged exactly once. A call that does not return keeps the case waiting for the parent's goroutine dump
// (hang@<frame> if goroutines are parked on the stack's own locks).
func c12Removals(c *rig.Ctx) {
	r := c.Rand
	k := 1 + r.Intn(2)
	n := c.Pick(300, 800)
	other, same, direct := r.Intn(3) != 0, r.Intn(2) == 0, r.Intn(3) != 0
	if !other && !direct {
		direct = true
	}
	nDirect := 0
	if direct {
		nDirect = 1 + r.Intn(2)
	}
	w := rig.NewWorld(c.Tag())
	closeOK := true
	defer func() {
		if closeOK {
			w.Close()
		}
	}()
	e := w.AddEntity(model.EntityTypeTypeCEM, []uint{1}, 4*time.Second)
	fl := e.GetOrAddFeature(model.FeatureTypeTypeLoadControl, model.RoleTypeServer).(*spine.FeatureLocal)
	fl.AddFunctionType(c12Fn, true, true)
	var items []model.LoadControlLimitDataType
	for i := 1; i <= c12Elems; i++ {
		items = append(items, model.LoadControlLimitDataType{LimitId: util.Ptr(model.LoadControlLimitIdType(i)), IsLimitChangeable: util.Ptr(true),
			Value: &model.ScaledNumberType{Number: util.Ptr(model.NumberType(i))}})
	}
	fl.SetData(c12Fn, &model.LoadControlLimitListDataType{LoadControlLimitData: items})
	fl.SetWriteApprovalTimeout(time.Hour)
	var mu sync.Mutex
	inv := map[model.MsgCounterType][]int{} // write -> invocations per callback
	mkCB := func(cb int) api.WriteApprovalCallbackFunc {
		return func(m *api.Message) {
			if m == nil || m.RequestHeader == nil || m.RequestHeader.MsgCounter == nil {
				return
			}
			mu.Lock()
			if inv[*m.RequestHeader.MsgCounter] == nil {
				inv[*m.RequestHeader.MsgCounter] = make([]int, k)
			}
			inv[*m.RequestHeader.MsgCounter][cb]++
			mu.Unlock()
			fl.ApproveOrDenyWrite(m, model.ErrorType{})
		}
	}
	// (two separate literals: a stack that compares callbacks by code pointer must not see them as one)
	_ = fl.AddWriteApprovalCallback(mkCB(0))
	if k == 2 {
		cb1 := mkCB(1)
		_ = fl.AddWriteApprovalCallback(func(m *api.Message) { cb1(m) })
	}
	tree := []rig.FS{rig.NMFS, {Ent: []uint{1}, Id: 1, Typ: model.FeatureTypeTypeLoadControl, Role: model.RoleTypeClient},
		{Ent: []uint{2}, Id: 1, Typ: model.FeatureTypeTypeMeasurement, Role: model.RoleTypeServer}}
	ent2 := tree[2:]
	var peers []*rig.Peer
	for i := 0; i < 2; i++ {
		p := w.AddPeer(i)
		p.Ctr = uint64(100000 * (i + 1))
		p.Announce(tree)
		mc := p.Subscribe(rig.FA(p.Addr, []uint{1}, 1), fl.Address(), model.FeatureTypeTypeLoadControl)
		if res := rig.Classify(p.Tap.Take(), mc); res.Success != 1 {
			c.Inconclusive("setup: subscription of peer%d not granted (%s)", i, res)
			return
		}
		peers = append(peers, p)
	}
	P, Q := peers[0], peers[1]
	P.Bind(rig.FA(P.Addr, []uint{1}, 1), fl.Address(), model.FeatureTypeTypeLoadControl)
	if !w.Local.BindingManager().HasLocalFeatureRemoteBinding(fl.Address(), rig.FA(P.Addr, []uint{1}, 1)) {
		c.Inconclusive("setup: binding of the writer not granted")
		return
	}
	P.Tap.Take()
	w.Core.Take()
	baseline := c12Settle()
	desc := fmt.Sprintf("k=%d callbacks approving at once, %d writes; removals+additions of entity [2]: by the other peer=%v, by the writer between its writes=%v, DeviceLocal.CleanRemoteEntityCaches on %d application goroutines", k, n, other, same, nDirect)
	c.Shape(fmt.Sprintf("removals k=%d other=%v same=%v direct=%d", k, other, same, nDirect))

	removeAdd := func(p *rig.Peer, i int) {
		if i%2 == 0 {
			p.NotifyDiscovery(true, p.Discovery(nil, nil, [][]uint{{2}}))
		} else {
			p.NotifyDiscovery(true, p.Discovery(ent2, map[string]model.NetworkManagementStateChangeType{fmt.Sprint([]uint{2}): model.NetworkManagementStateChangeTypeAdded}, nil))
		}
	}
	var stop atomic.Bool
	var nRemovals atomic.Int64
	var wg sync.WaitGroup
	stuck := func(what string) {
		closeOK = false
		c17Stuck(c, what+" ("+desc+")")
	}
	side := func(name string, step func(i int)) {
		wg.Add(1)
		go func() {
			defer wg.Done()
			for i := 0; !stop.Load(); i++ {
				i := i
				if ok, pan := rig.Guard(60*time.Second, func() { step(i) }); pan != "" {
					c.Violate("removals/panic", "%s panicked: %s", name, pan)
					return
				} else if !ok {
					stuck(name)
				}
				nRemovals.Add(1)
			}
		}()
	}
	if other {
		side("removal/addition notify of the other peer", func(i int) { removeAdd(Q, i) })
	}
	for g := 0; g < nDirect; g++ {
		addr := rig.EA([]string{Q.Addr, P.Addr}[g%2], []uint{2})
		side("DeviceLocal.CleanRemoteEntityCaches", func(i int) {
			w.Local.CleanRemoteEntityCaches(addr)
			if i%16 == 0 {
				runtime.Gosched()
			}
		})
	}
	type sent struct {
		mc   model.MsgCounterType
		elem int
		val  int64
	}
	var writes []sent
	for i := 0; i < n; i++ {
		wr := sent{elem: 1 + i%c12Elems, val: int64(1000 + i)}
		if ok, pan := rig.Guard(60*time.Second, func() {
			wr.mc = P.Send(model.CmdClassifierTypeWrite, rig.FA(P.Addr, []uint{1}, 1), fl.Address(), true, nil, c12WriteCmd(wr.elem, wr.val))
			if same && i%2 == 1 {
				removeAdd(P, i/2)
			}
		}); pan != "" {
			c.Violate("removals/panic", "handling write %d panicked: %s", i, pan)
			break
		} else if !ok {
			stuck(fmt.Sprintf("handling of write %d of the bound peer", i))
		}
		writes = append(writes, wr)
		if i%64 == 63 {
			c.Progress()
		}
	}
	stop.Store(true)
	if !waitWG(&wg, 90*time.Second) {
		stuck("a goroutine announcing removals")
	}
	if np := P.PanicCount() + Q.PanicCount(); np > 0 {
		c.Violate("removals/panic", "panic while handling a message: %v %v", P.Panics, Q.Panics)
		return
	}
	if !rig.WaitQuiet(baseline, 30*time.Second) {
		// approvals still running 30 s after the last write was handed over: let the parent look at the goroutines
		stuck("approval callbacks (goroutines of the stack) after the last write")
	}
	// ---- one outcome per write
	evs := map[int64]int{}
	for _, ev := range w.Core.Take() {
		if ev.P.EventType != api.EventTypeDataChange || ev.P.CmdClassifier == nil || *ev.P.CmdClassifier != model.CmdClassifierTypeWrite {
			continue
		}
		if d, _ := ev.P.Data.(*model.LoadControlLimitListDataType); d != nil && len(d.LoadControlLimitData) == 1 && d.LoadControlLimitData[0].Value != nil && d.LoadControlLimitData[0].Value.Number != nil {
			evs[int64(*d.LoadControlLimitData[0].Value.Number)]++
		}
	}
	outs := P.Tap.Take()
	byRef := map[model.MsgCounterType][2]int{}
	for _, d := range outs {
		if d.Header.MsgCounterReference == nil || d.Header.CmdClassifier == nil || *d.Header.CmdClassifier != model.CmdClassifierTypeResult || len(d.Payload.Cmd) != 1 || d.Payload.Cmd[0].ResultData == nil {
			continue
		}
		x := byRef[*d.Header.MsgCounterReference]
		if en := d.Payload.Cmd[0].ResultData.ErrorNumber; en != nil && *en != 0 {
			x[1]++
		} else {
			x[0]++
		}
		byRef[*d.Header.MsgCounterReference] = x
	}
	bad := 0
	mu.Lock()
	for i, wr := range writes {
		c.Events(3)
		res := byRef[wr.mc]
		var calls []int
		calls = append(calls, inv[wr.mc]...)
		okCalls := len(calls) == k
		for _, x := range calls {
			if x != 1 {
				okCalls = false
			}
		}
		switch {
		case bad >= 3:
		case !okCalls:
			bad++
			c.Violate("removals/callback-not-invoked-exactly-once", "write %d (counter %d): invocations per callback %v, expected once each of %d; %s", i, wr.mc, calls, k, desc)
		case res[0] != 1 || res[1] != 0 || evs[wr.val] != 1:
			bad++
			c.Violate("removals/approved-write-without-exactly-one-outcome", "write %d (counter %d, element %d := %d) was approved at once by all %d callbacks (timeout 1 h): %d success results, %d error results, applied %d times (data change events); %s",
				i, wr.mc, wr.elem, wr.val, k, res[0], res[1], evs[wr.val], desc)
		}
	}
	mu.Unlock()
	d, _ := fl.DataCopy(c12Fn).(*model.LoadControlLimitListDataType)
	for el := 1; el <= c12Elems && d != nil; el++ {
		okV := false
		var got int64 = -1
		for _, it := range d.LoadControlLimitData {
			if it.LimitId != nil && int(*it.LimitId) == el && it.Value != nil && it.Value.Number != nil {
				got = int64(*it.Value.Number)
			}
		}
		for _, wr := range writes {
			if wr.elem == el && wr.val == got {
				okV = true
			}
		}
		if !okV && len(writes) >= c12Elems && bad == 0 {
			c.Violate("removals/element-holds-a-value-nobody-wrote", "element %d holds %d after %d applied writes; %s", el, got, len(writes), desc)
		}
	}
	c.Count("removals:writes", int64(len(writes)))
	c.Count("removals:removal_or_cleanup_calls_during_the_writes", nRemovals.Load())
	c.NonTrivial(len(writes) == n && nRemovals.Load() > 0)
	c.Sample(map[string]any{"case": desc, "writes": len(writes), "removal_or_cleanup_calls_during_the_writes": nRemovals.Load()})
}

// ---------------------------------------------------------------------------
// part "blocking": callbacks that do not return at once

const (
	c12BMutual  = "mutual-wait"
	c12BDeny    = "blocked+deny"
	c12BTimeout = "blocked+timeout"
	c12BEnd     = "blocked+verdict-at-end"
)

type c12BWrite struct {
	mode string
	dep  bool  // active callbacks give their verdict only after every blocked callback has been presented
	bl   []int // the callbacks that stay inside their function until the end of the case
}

// c12Blk is the behaviour of the callbacks of part blocking. Every callback runs on the goroutine the stack
// invokes it on; "parked" counts the callbacks that are inside their function waiting for something.
type c12Blk struct {
	cw      *c12World
	info    map[*c12Write]*c12BWrite
	release chan struct{} // closed at the logical end of the case
	once    sync.Once

	mu     sync.Mutex
	parked int
}

func (b *c12Blk) end() { b.once.Do(func() { close(b.release) }) }

func (b *c12Blk) released() bool {
	select {
	case <-b.release:
		return true
	default:
		return false
	}
}

func (b *c12Blk) parkedNow() int { b.mu.Lock(); defer b.mu.Unlock(); return b.parked }

// park keeps the calling callback inside its function until cond holds (true) or the case has ended (false).
func (b *c12Blk) park(cond func() bool) bool {
	b.mu.Lock()
	b.parked++
	b.mu.Unlock()
	defer func() { b.mu.Lock(); b.parked--; b.mu.Unlock() }()
	for {
		if cond != nil && cond() {
			return true
		}
		select {
		case <-b.release:
			return false
		default:
		}
		time.Sleep(100 * time.Microsecond)
	}
}

// quiet: the goroutine count is back at the idle count plus the callbacks parked by the harness.
func (b *c12Blk) quiet(max time.Duration) bool {
	deadline := time.Now().Add(max)
	stable := 0
	for time.Now().Before(deadline) {
		if runtime.NumGoroutine() <= b.cw.baseline+b.parkedNow() {
			stable++
			if stable >= 4 {
				return true
			}
		} else {
			stable = 0
		}
		runtime.Gosched()
		time.Sleep(200 * time.Microsecond)
	}
	return false
}

// wedged looks at the goroutines of the process (two dumps 300 ms apart that must agree): every goroutine is
// either one of the idle count, or a callback the harness keeps parked, or blocked INSIDE the stack in a wait that
// has no timeout (channel operation, mutex, wait group, condition) - and there is at least one of the last kind.
// In that state nothing can move until a parked callback returns. Returns the innermost spine-go frames of the
// blocked goroutines.
func (b *c12Blk) wedged() (frames string, ok bool) {
	snap := func() (ids, frs []string, ok bool) {
		buf := make([]byte, 4<<20)
		buf = buf[:runtime.Stack(buf, true)]
		total, parked := 0, 0
		for _, g := range strings.Split("\n\n"+string(buf), "\n\ngoroutine ") {
			head := g
			if i := strings.Index(g, "\n"); i >= 0 {
				head = g[:i]
			}
			lb, rb := strings.Index(head, "["), strings.Index(head, "]")
			if lb < 0 || rb < lb {
				continue
			}
			total++
			state := strings.TrimSpace(strings.SplitN(head[lb+1:rb], ",", 2)[0])
			body := g
			if i := strings.Index(body, "\ncreated by "); i >= 0 {
				body = body[:i]
			}
			if strings.Contains(body, "(*c12Blk).park") {
				parked++
				continue
			}
			untimed := false
			for _, st := range []string{"chan send", "chan receive", "semacquire", "sync.Mutex.Lock", "sync.RWMutex.Lock", "sync.RWMutex.RLock", "sync.WaitGroup.Wait", "sync.Cond.Wait", "select (no cases)"} {
				if state == st || strings.HasPrefix(state, st+" (") {
					untimed = true
				}
			}
			if fr := rig.InnermostSpineFrame(body); untimed && fr != "" && !strings.Contains(fr, "verifPoint") {
				ids = append(ids, strings.TrimSpace(head[:lb]))
				frs = append(frs, fr)
			}
		}
		sort.Strings(ids)
		return ids, frs, len(ids) > 0 && total-parked-len(ids) <= b.cw.baseline
	}
	ids1, _, ok1 := snap()
	if !ok1 {
		return "", false
	}
	time.Sleep(300 * time.Millisecond)
	ids2, frs, ok2 := snap()
	if !ok2 || strings.Join(ids1, ",") != strings.Join(ids2, ",") {
		return "", false
	}
	sort.Strings(frs)
	return strings.Join(frs, ", "), true
}

func c12ValueOf(m *api.Message) (int64, bool) {
	if m == nil {
		return 0, false
	}
	d := m.Cmd.LoadControlLimitListData
	if d == nil || len(d.LoadControlLimitData) != 1 || d.LoadControlLimitData[0].Value == nil || d.LoadControlLimitData[0].Value.Number == nil {
		return 0, false
	}
	return int64(*d.LoadControlLimitData[0].Value.Number), true
}

func (b *c12Blk) writeOf(m *api.Message) *c12Write {
	val, ok := c12ValueOf(m)
	if !ok {
		return nil
	}
	for _, w := range b.cw.pl.writes { // the plan is complete before the first write is sent
		if w.val == val {
			return w
		}
	}
	return nil
}

// presentedTo: the invocation log is keyed by the message counter, which the sender learns only when Send returns,
// so the write is looked for by the unique value it carries.
func (b *c12Blk) presentedTo(w *c12Write, cb int) bool {
	cw := b.cw
	cw.mu.Lock()
	defer cw.mu.Unlock()
	for k, ms := range cw.inv {
		if k.cb != cb || k.feat != w.feat {
			continue
		}
		for _, m := range ms {
			if v, ok := c12ValueOf(m); ok && v == w.val {
				return true
			}
		}
	}
	return false
}

func (b *c12Blk) blocked(w *c12Write, cb int) bool { return c12In(b.info[w].bl, cb) }

// verdict delivers the verdict of callback cb from inside the callback function.
func (b *c12Blk) verdict(w *c12Write, cb int, m *api.Message) {
	var et model.ErrorType
	deny := w.v[cb] == c12D || w.v[cb] == c12LD
	if deny {
		et = b.cw.denial(w, cb)
	}
	b.cw.log("-> verdict write #%d cb%d deny=%v (from inside the callback)", w.idx, cb, deny)
	b.cw.feats[w.feat].ApproveOrDenyWrite(m, et)
	b.cw.mu.Lock()
	w.returned[cb] = true
	b.cw.mu.Unlock()
	b.cw.log("<- verdict write #%d cb%d returned", w.idx, cb)
}

func (b *c12Blk) onPresent(f, cb int, m *api.Message) {
	w := b.writeOf(m)
	if w == nil || cb >= len(w.v) {
		return
	}
	if b.released() {
		b.cw.log("cb%d is presented with write #%d only after the end of the case", cb, w.idx)
		return
	}
	b.cw.log("cb%d is presented with write #%d", cb, w.idx)
	in := b.info[w]
	switch {
	case in.mode == c12BMutual:
		ok := b.park(func() bool {
			for o := range w.v {
				if o != cb && !b.presentedTo(w, o) {
					return false
				}
			}
			return true
		})
		if ok {
			b.verdict(w, cb, m)
		}
	case b.blocked(w, cb):
		b.park(nil)
		if w.v[cb] != c12S {
			// blocked+deny / blocked+timeout: the write has had its outcome, the late verdict must not change anything;
			// blocked+verdict-at-end: the timer is an hour away, this verdict decides the write
			b.verdict(w, cb, m)
		}
	default:
		if in.dep {
			ok := b.park(func() bool {
				for o := range w.v {
					if b.blocked(w, o) && !b.presentedTo(w, o) {
						return false
					}
				}
				return true
			})
			if !ok {
				return
			}
		}
		b.verdict(w, cb, m)
	}
}

func c12Blocking(c *rig.Ctx) {
	r := c.Rand
	k := 2 + r.Intn(2)
	pl := &c12Plan{k: k, layout: 0, gor: 1, splitA: 1000, label: "blocking", sameMC: r.Intn(2) == 0, ctr: r.Intn(4)}
	info := map[*c12Write]*c12BWrite{}
	var shapes []string
	n := 1 + r.Intn(3)
	for i := 0; i < n; i++ {
		v := make([]int, k)
		in := &c12BWrite{mode: []string{c12BMutual, c12BDeny, c12BTimeout, c12BEnd}[r.Intn(4)], dep: r.Intn(2) == 0}
		if in.mode == c12BMutual {
			if r.Intn(3) == 0 {
				v[r.Intn(k)] = c12D
			}
		} else {
			// the blocked callbacks: a non-empty proper subset, two times in three with the first registered one
			nb := 1
			if k == 3 && r.Intn(3) == 0 {
				nb = 2
			}
			var bl []int
			if r.Intn(3) > 0 {
				bl = append(bl, 0)
			}
			for _, x := range r.Perm(k) {
				if len(bl) < nb && !c12In(bl, x) {
					bl = append(bl, x)
				}
			}
			in.bl = bl
			for _, x := range bl {
				if in.mode == c12BEnd {
					v[x] = []int{c12A, c12A, c12A, c12D}[r.Intn(4)]
				} else {
					v[x] = []int{c12S, c12S, c12LA, c12LD}[r.Intn(4)]
				}
			}
			if in.mode == c12BDeny {
				var act []int
				for x := range v {
					if !c12In(bl, x) {
						act = append(act, x)
					}
				}
				v[act[r.Intn(len(act))]] = c12D
				for _, x := range act {
					if v[x] == c12A && r.Intn(4) == 0 {
						v[x] = c12D
					}
				}
			}
		}
		w := c12NewWrite(pl, 0, 0, v, r.Intn(2) == 0, c12Val(c, i))
		if in.mode == c12BTimeout {
			w.class, w.timeout = "short", c12ShortTimeout(c)
		} else {
			w.class, w.timeout = "long", time.Hour
		}
		info[w] = in
		pl.writes = append(pl.writes, w)
		shapes = append(shapes, fmt.Sprintf("%s/dep=%v/bl=%v", in.mode, in.dep && in.mode != c12BMutual, in.bl))
	}
	pl.label = "blocking[" + strings.Join(shapes, ",") + "]"

	cw := newC12World(c, pl)
	blk := &c12Blk{cw: cw, info: info, release: make(chan struct{})}
	cw.present = blk.onPresent // no write has been sent yet
	defer func() {
		blk.end()
		cw.hooks.ReleaseAll()
		if !rig.WaitQuiet(cw.baseline, 20*time.Second) {
			cw.noClose = true
		}
		if cw.noClose {
			spine.SetVerifHook(nil)
			return
		}
		cw.w.Close()
	}()
	c.Shape(pl.shape())
	decided := false
	defer func() {
		cw.mu.Lock()
		ev := cw.events
		tr := append([]string(nil), cw.trace...)
		cw.mu.Unlock()
		c.Events(ev)
		c.NonTrivial(decided && !cw.skip)
		if len(tr) > 60 {
			tr = tr[:60]
		}
		c.Sample(map[string]any{"plan": pl.shape(), "trace": tr})
		if c.Failed() {
			c.Witness(map[string]any{"plan": pl.shape(), "trace": tr})
		}
	}()
	if !cw.bind(0, 0) {
		return
	}
	cw.setCtr(0)
	p := cw.w.Peers[0]
	for _, w := range pl.writes {
		in := info[w]
		w.elem = cw.nextEl[w.feat]
		cw.nextEl[w.feat]++
		cw.mu.Lock()
		w.returned = make([]bool, k)
		cw.mu.Unlock()
		cw.feats[w.feat].SetWriteApprovalTimeout(w.timeout)
		cw.log("peer0 sends write #%d feature=%d elem=%d val=%d ack=%v mode=%s timeout=%v verdicts=%s; callbacks that stay inside their function until the end of the case (and give their verdict, if any, then): %v", w.idx, w.feat, w.elem, w.val, w.ack, in.mode, w.timeout, w.vec(), in.bl)
		mc := p.Send(model.CmdClassifierTypeWrite, cw.clientAddr(p), cw.feats[w.feat].Address(), w.ack, nil, c12WriteCmd(w.elem, w.val))
		cw.mu.Lock()
		w.mc, w.sent, w.sentAt = mc, true, time.Now()
		cw.mu.Unlock()
		cw.known[w.peer][w.mc] = true
		if np := p.PanicCount(); np > 0 {
			c.Violate("write/panic", "%s\n%s", p.Panics[np-1], strings.Join(cw.trace, "\n"))
			return
		}
		// ---- presented to every callback, whatever the other callbacks are doing
		all := func() bool {
			for cb := 0; cb < k; cb++ {
				if !blk.presentedTo(w, cb) {
					return false
				}
			}
			return true
		}
		if !rig.WaitFor(3*time.Second, all) {
			// not by the clock: the verdict needs a state in which nothing can present the write any more
			why := ""
			for deadline := time.Now().Add(15 * time.Second); why == "" && !all(); {
				if blk.quiet(500 * time.Millisecond) {
					why = fmt.Sprintf("the process has no other goroutine left (count %d, idle %d)", runtime.NumGoroutine(), cw.baseline)
				} else if fr, wedged := blk.wedged(); wedged {
					why = "every other goroutine of the process is blocked inside the stack in a wait without timeout (" + fr + ")"
				} else if time.Now().After(deadline) {
					c.Inconclusive("write #%d: not every callback was presented and the process is neither quiescent nor blocked inside the stack", w.idx)
					cw.skip = true
					return
				}
			}
			if !all() {
				var got []string
				for cb := 0; cb < k; cb++ {
					got = append(got, fmt.Sprintf("cb%d:%v", cb, blk.presentedTo(w, cb)))
				}
				o := cw.observe(w)
				cw.mu.Lock()
				tr := strings.Join(cw.trace, "\n")
				cw.mu.Unlock()
				c.Violate("blocking/"+in.mode+"/write-not-presented-to-every-callback",
					"write #%d (k=%d, mode %s, verdicts=%s): presented %v; %d callbacks are parked inside their functions by the harness and %s, "+
						"so nothing can present the write to the missing callbacks until a parked callback returns; the write so far: applied=%v success-results=%d error-results=%d\nplan: %s\ntrace:\n%s",
					w.idx, k, in.mode, w.vec(), got, blk.parkedNow(), why, o.applied, o.succ, o.errs, pl.shape(), tr)
				cw.skip = true
				return
			}
		}
		c.Count("blocking:writes_presented_to_every_callback_while_callbacks_were_parked", 1)
		// ---- every verdict that can be given has been given
		if !blk.quiet(20 * time.Second) {
			c.Inconclusive("write #%d: the callbacks that are not parked did not finish within 20s", w.idx)
			cw.skip = true
			return
		}
		for _, x := range cw.all() {
			cw.judge(x, false, fmt.Sprintf("at quiescence after write #%d (mode %s)", w.idx, in.mode))
		}
		c.Count("blocking:"+in.mode, 1)
		if c.Failed() {
			return
		}
	}
	// ---- the short writes end by their timer
	for _, w := range pl.writes {
		if w.class != "short" {
			continue
		}
		if !rig.WaitFor(20*time.Second, func() bool { return cw.errOnTap(w) }) {
			c.Inconclusive("error result of short write #%d not seen within 20s", w.idx)
			cw.skip = true
			return
		}
		cw.log("timeout/error result of write #%d is on the tap, %d callbacks still parked", w.idx, blk.parkedNow())
	}
	for _, x := range cw.all() {
		cw.judge(x, false, "before the end of the case")
	}
	// ---- the logical end of the case: the parked callbacks return (some with a late verdict)
	blk.end()
	cw.log("end of the case: parked callbacks released")
	if !rig.WaitQuiet(cw.baseline, 20*time.Second) {
		c.Inconclusive("process did not become quiet")
		cw.skip = true
		return
	}
	cw.finalAudit()
	decided = true
}

// ---------------------------------------------------------------------------
// part "shapes": approved writes the data layer refuses, full and delete-selector writes

const (
	c12ShNormal  = "partial-existing-changeable"
	c12ShUnknown = "partial-unknown-identifier"
	c12ShFixed   = "partial-unchangeable-element"
	c12ShFull    = "full-write"
	c12ShDelete  = "delete-selector"
)

// snapshot renders the whole list of a feature: identifier -> value/changeable
func (cw *c12World) snapshot(f int) map[int]string {
	out := map[int]string{}
	d, _ := cw.feats[f].DataCopy(c12Fn).(*model.LoadControlLimitListDataType)
	if d == nil {
		return out
	}
	for i, it := range d.LoadControlLimitData {
		id := -1 - i
		if it.LimitId != nil {
			id = int(*it.LimitId)
		}
		v, ch := "nil", "nil"
		if it.Value != nil && it.Value.Number != nil {
			v = fmt.Sprint(*it.Value.Number)
		}
		if it.IsLimitChangeable != nil {
			ch = fmt.Sprint(*it.IsLimitChangeable)
		}
		out[id] += v + "/" + ch + ";"
	}
	return out
}

func c12SnapEq(a, b map[int]string) bool {
	if len(a) != len(b) {
		return false
	}
	for k, v := range a {
		if b[k] != v {
			return false
		}
	}
	return true
}

func c12Shapes(c *rig.Ctx) {
	r := c.Rand
	k := 1 + r.Intn(3)
	pl := &c12Plan{k: k, layout: 0, gor: 1, splitA: 1000, label: "shapes", fixed: true, ctr: r.Intn(4)}
	n := 2 + r.Intn(3)
	shapeOf := map[*c12Write]string{}
	var last *c12Write
	for i := 0; i < n; i++ {
		v := make([]int, k)
		if r.Intn(3) == 0 {
			v[r.Intn(k)] = c12D
		}
		w := c12NewWrite(pl, 0, 0, v, r.Intn(2) == 0, c12Val(c, i))
		sh := []string{c12ShNormal, c12ShNormal, c12ShUnknown, c12ShUnknown, c12ShFixed, c12ShFixed, c12ShFull, c12ShDelete}[r.Intn(8)]
		if (sh == c12ShFull || sh == c12ShDelete) && last != nil {
			sh = c12ShUnknown
		}
		shapeOf[w] = sh
		idx := i
		switch sh {
		case c12ShUnknown:
			w.mkCmd = func(elem int, val int64) model.CmdType { return c12WriteCmd(50+idx, val) }
		case c12ShFixed:
			w.mkCmd = func(elem int, val int64) model.CmdType { return c12WriteCmd(c12Elems+1, val) }
		case c12ShFull:
			last = w
			w.mkCmd = func(elem int, val int64) model.CmdType {
				var items []model.LoadControlLimitDataType
				for id := 1; id <= c12Elems+1; id++ {
					x := int64(id)
					if id == elem {
						x = val
					}
					items = append(items, model.LoadControlLimitDataType{LimitId: util.Ptr(model.LoadControlLimitIdType(id)), Value: &model.ScaledNumberType{Number: util.Ptr(model.NumberType(x))}})
				}
				return model.CmdType{LoadControlLimitListData: &model.LoadControlLimitListDataType{LoadControlLimitData: items}}
			}
		case c12ShDelete:
			last = w
			w.mkCmd = func(elem int, val int64) model.CmdType {
				return model.CmdType{Function: util.Ptr(c12Fn),
					Filter: []model.FilterType{{CmdControl: &model.CmdControlType{Delete: &model.ElementTagType{}},
						LoadControlLimitListDataSelectors: &model.LoadControlLimitListDataSelectorsType{LimitId: util.Ptr(model.LoadControlLimitIdType(elem))}}},
					LoadControlLimitListData: &model.LoadControlLimitListDataType{}}
			}
		}
		pl.writes = append(pl.writes, w)
	}
	var names []string
	for _, w := range pl.writes {
		names = append(names, shapeOf[w])
	}
	pl.label = "shapes[" + strings.Join(names, ",") + "]"

	cw := newC12World(c, pl)
	defer func() {
		cw.hooks.ReleaseAll()
		if cw.noClose {
			spine.SetVerifHook(nil)
			return
		}
		cw.w.Close()
	}()
	c.Shape(pl.shape())
	decidedAll := false
	defer func() {
		cw.mu.Lock()
		ev := cw.events
		tr := append([]string(nil), cw.trace...)
		cw.mu.Unlock()
		c.Events(ev)
		c.NonTrivial(decidedAll && !cw.skip)
		if len(tr) > 60 {
			tr = tr[:60]
		}
		c.Sample(map[string]any{"plan": pl.shape(), "trace": tr})
		if c.Failed() {
			c.Witness(map[string]any{"plan": pl.shape(), "trace": cw.trace})
		}
	}()
	for _, w := range pl.writes {
		if !cw.send(w) {
			return
		}
		cw.log("  (write #%d has the shape %s)", w.idx, shapeOf[w])
	}
	// nothing may have happened yet
	nEvents := 0
	countEvents := func() int {
		for _, e := range cw.w.Core.Take() {
			if e.P.EventType == api.EventTypeDataChange && e.P.CmdClassifier != nil && *e.P.CmdClassifier == model.CmdClassifierTypeWrite {
				nEvents++
			}
		}
		return nEvents
	}
	type state struct {
		snap   map[int]string
		res    [][2]int // per write: success results, error results
		events int
		stray  int
	}
	p := cw.w.Peers[0]
	take := func() state {
		st := state{snap: cw.snapshot(0), events: countEvents()}
		outs := p.Tap.Peek()
		for _, w := range pl.writes {
			x := rig.Classify(outs, w.mc)
			st.res = append(st.res, [2]int{x.Success, x.Errors})
		}
		for _, d := range outs { // everything the writer receives is a result for one of its numbered messages
			if ref := d.Header.MsgCounterReference; ref == nil || !cw.known[0][*ref] || d.Header.CmdClassifier == nil || *d.Header.CmdClassifier != model.CmdClassifierTypeResult {
				st.stray++
			}
		}
		return st
	}
	var ds, tail []c12Del
	for _, w := range pl.writes {
		for cb := range w.v {
			if w == last {
				tail = append(tail, c12Del{w, cb})
			} else {
				ds = append(ds, c12Del{w, cb})
			}
		}
	}
	r.Shuffle(len(ds), func(i, j int) { ds[i], ds[j] = ds[j], ds[i] })
	r.Shuffle(len(tail), func(i, j int) { tail[i], tail[j] = tail[j], tail[i] })
	ds = append(ds, tail...)
	approvals := map[*c12Write]int{}
	decided := map[*c12Write]bool{}
	before := take()
	if before.stray > 0 || before.events > 0 {
		c.Violate("shapes/outcome-before-any-verdict", "results or data change events before any verdict was given: %+v\n%s", before, strings.Join(cw.trace, "\n"))
		return
	}
	for _, d := range ds {
		w, sh := d.w, shapeOf[d.w]
		ok, pan := rig.Guard(30*time.Second, func() { cw.deliver(d) })
		if pan != "" {
			c.Violate("verdict/panic", "ApproveOrDenyWrite panicked: %s\n%s", pan, strings.Join(cw.trace, "\n"))
			cw.noClose = true
			return
		}
		if !ok {
			c.Inconclusive("ApproveOrDenyWrite did not return within 30s (shapes)")
			cw.skip, cw.noClose = true, true
			return
		}
		after := take()
		cw.mu.Lock()
		cw.events += 3
		cw.mu.Unlock()
		bad := func(dev, format string, a ...any) {
			c.Violate("shapes/"+sh+"/"+dev, "write #%d (%s, mc=%d k=%d verdicts=%s ack=%v), verdict of callback %d: %s\nbefore the call: results per write (success, error) %v, %d data change events, list %v\nafter the call:  results per write %v, %d data change events, list %v\nplan: %s\ntrace:\n%s",
				w.idx, sh, w.mc, k, w.vec(), w.ack, d.cb, fmt.Sprintf(format, a...), before.res, before.events, before.snap, after.res, after.events, after.snap, pl.shape(), strings.Join(cw.trace, "\n"))
		}
		othersSame := true
		for i, x := range pl.writes {
			if x != w && after.res[i] != before.res[i] {
				othersSame = false
			}
		}
		dSucc, dErr := after.res[w.idx][0]-before.res[w.idx][0], after.res[w.idx][1]-before.res[w.idx][1]
		dEv := after.events - before.events
		same := c12SnapEq(before.snap, after.snap)
		ackN := 0
		if w.ack {
			ackN = 1
		}
		deny := w.v[d.cb] == c12D
		switch {
		case after.stray > 0:
			bad("unattributable-datagram", "the writer received a datagram that is not a result for one of its writes")
		case !othersSame:
			bad("results-of-another-write-changed", "the results of another pending write changed")
		case decided[w]:
			if dSucc != 0 || dErr != 0 || dEv != 0 || !same {
				bad("changes-after-the-outcome", "the write had its outcome already, this verdict must not change anything")
			}
		case deny:
			decided[w] = true
			c.Count("shapes:denied:"+sh, 1)
			if dErr != 1 || dSucc != 0 || dEv != 0 || !same {
				bad("denial-without-exactly-one-error-result-and-unchanged-data", "a denial: expected exactly one error result, unchanged data, no data change event")
			}
		default:
			approvals[w]++
			if approvals[w] < k {
				if dSucc != 0 || dErr != 0 || dEv != 0 || !same {
					bad("outcome-before-all-approved", "%d of %d callbacks have approved (timeout 1 h): nothing may happen yet", approvals[w], k)
				}
				break
			}
			decided[w] = true
			c.Count("shapes:approved:"+sh, 1)
			switch sh {
			case c12ShNormal:
				want := map[int]string{}
				for id, v := range before.snap {
					want[id] = v
				}
				want[w.elem] = fmt.Sprintf("%d/true;", w.val)
				if dErr != 0 || dSucc != ackN || dEv != 1 || !c12SnapEq(want, after.snap) {
					bad("unanimous-approval-not-applied", "all callbacks approved: expected element %d := %d, one data change event, %d success result(s), no error result", w.elem, w.val, ackN)
				}
			case c12ShUnknown, c12ShFixed:
				if dErr != 1 || dSucc != 0 {
					bad("refused-write-without-exactly-one-error-result", "all callbacks approved a write the data layer refuses: expected exactly one error result and no success result")
				} else if !same || dEv != 0 {
					bad("refused-write-changed-data", "all callbacks approved a write the data layer refuses (it got its error result): expected unchanged data and no data change event")
				}
			default: // full / delete: which of the two outcomes is C04's business; exactly one of them, consistently
				refused := dErr == 1 && dSucc == 0 && dEv == 0 && same
				applied := dErr == 0 && dSucc == ackN && dEv == 1
				if refused {
					c.Count("shapes:"+sh+":refused", 1)
				} else if applied {
					c.Count("shapes:"+sh+":applied", 1)
				} else {
					bad("not-exactly-one-outcome", "all callbacks approved: expected either (one error result, unchanged data, no event) or (no error result, one data change event, %d success result(s))", ackN)
				}
			}
		}
		if c.Failed() {
			return
		}
		before = after
	}
	if !rig.WaitQuiet(cw.baseline, 20*time.Second) {
		c.Inconclusive("process did not become quiet")
		cw.skip = true
		return
	}
	end := take()
	if end.events != before.events || !c12SnapEq(end.snap, before.snap) || fmt.Sprint(end.res) != fmt.Sprint(before.res) || end.stray > 0 {
		c.Violate("shapes/changes-after-the-last-verdict", "after the last verdict call: %+v, at quiescence: %+v\n%s", before, end, strings.Join(cw.trace, "\n"))
	}
	// invocations: once per callback and write
	cw.mu.Lock()
	for _, w := range pl.writes {
		for cb := 0; cb < k; cb++ {
			if n := len(cw.inv[c12Key{0, cb, p.Ski, w.mc}]); n != 1 {
				c.Violate("callback/invoked-more-than-once", "write #%d callback %d: invoked %d times", w.idx, cb, n)
			}
		}
	}
	cw.mu.Unlock()
	for _, d := range p.Tap.Peek() {
		for _, w := range pl.writes {
			if ref := d.Header.MsgCounterReference; ref != nil && *ref == w.mc {
				c12CheckResultAddresses(cw, 0, 0, d)
			}
		}
	}
	decidedAll = len(decided) == len(pl.writes)
	for _, w := range pl.writes {
		if !decided[w] {
			// not every callback approved and none denied cannot happen here (vectors are approve/deny only)
			decidedAll = false
		}
	}
}

// c12CheckResultAddresses (gap "results are counted, not compared"): a result for a write comes from the server feature
// the write addressed and goes to the client feature that wrote.
func c12CheckResultAddresses(cw *c12World, pi, f int, d model.DatagramType) {
	p := cw.w.Peers[pi]
	if d.Header.CmdClassifier == nil || *d.Header.CmdClassifier != model.CmdClassifierTypeResult {
		return
	}
	cw.mu.Lock()
	cw.events++
	cw.mu.Unlock()
	if got, want := rig.JS(d.Header.AddressSource), rig.JS(cw.feats[f].Address()); got != want {
		cw.c.Violate("result/source-is-not-the-server-feature", "peer%d received a result with source %s, the write addressed %s: %s", pi, got, want, rig.JS(d))
	}
	if got, want := rig.JS(d.Header.AddressDestination), rig.JS(cw.clientAddr(p)); got != want {
		cw.c.Violate("result/destination-is-not-the-writing-client-feature", "peer%d received a result with destination %s, the write came from %s: %s", pi, got, want, rig.JS(d))
	}
}

// ---------------------------------------------------------------------------
// part "latecb": AddWriteApprovalCallback while writes are pending

func c12LateCB(c *rig.Ctx) {
	r := c.Rand
	k := 1 + r.Intn(2)
	pl := &c12Plan{k: k, layout: 0, gor: 1, splitA: 1000, label: "latecb", ctr: r.Intn(4)}
	draw := func(n int, pDeny int) []int {
		v := make([]int, n)
		if r.Intn(100) < pDeny {
			v[r.Intn(n)] = c12D
		}
		return v
	}
	n1, n2 := 1+r.Intn(2), 1+r.Intn(2)
	var early, later []*c12Write
	for i := 0; i < n1; i++ {
		w := c12NewWrite(pl, 0, 0, draw(k, 25), r.Intn(2) == 0, c12Val(c, i))
		w.class, w.timeout = "latecb", time.Duration(120+r.Intn(81))*time.Millisecond
		pl.writes = append(pl.writes, w)
		early = append(early, w)
	}
	for i := 0; i < n2; i++ {
		w := c12NewWrite(pl, 0, 0, draw(k+1, 40), r.Intn(2) == 0, c12Val(c, n1+i))
		pl.writes = append(pl.writes, w)
		later = append(later, w)
	}
	prefix := r.Intn(k*n1 + 1) // verdict calls for the earlier writes made before the registration
	pl.label = fmt.Sprintf("latecb[%d earlier, %d verdicts before the registration, %d later]", n1, prefix, n2)
	cw := newC12World(c, pl)
	defer func() {
		cw.hooks.ReleaseAll()
		if cw.noClose {
			spine.SetVerifHook(nil)
			return
		}
		cw.w.Close()
	}()
	c.Shape(pl.shape())
	decided := false
	defer func() {
		cw.mu.Lock()
		ev := cw.events
		tr := append([]string(nil), cw.trace...)
		cw.mu.Unlock()
		c.Events(ev)
		c.NonTrivial(decided && !cw.skip)
		if len(tr) > 60 {
			tr = tr[:60]
		}
		c.Sample(map[string]any{"plan": pl.shape(), "trace": tr})
		if c.Failed() {
			c.Witness(map[string]any{"plan": pl.shape(), "trace": cw.trace})
		}
	}()
	for _, w := range early {
		if !cw.send(w) {
			return
		}
	}
	var ds []c12Del
	for _, w := range early {
		for cb := range w.v {
			ds = append(ds, c12Del{w, cb})
		}
	}
	r.Shuffle(len(ds), func(i, j int) { ds[i], ds[j] = ds[j], ds[i] })
	if !cw.run(ds[:prefix], 1, "before the registration of another callback") {
		return
	}
	ds = ds[prefix:]
	if err := cw.feats[0].AddWriteApprovalCallback(func(m *api.Message) { cw.onCallback(0, k, m) }); err != nil {
		c.Violate("latecb/registration-refused", "AddWriteApprovalCallback while writes are pending: %v", err)
		return
	}
	cw.log("the application registers approval callback %d while %d writes are pending", k, n1)
	pl.k = k + 1 // the later writes are presented to k+1 callbacks
	for _, w := range later {
		if !cw.send(w) {
			return
		}
	}
	for _, w := range cw.all() {
		cw.judge(w, false, "after the later writes were sent")
	}
	for _, w := range later {
		for cb := range w.v {
			ds = append(ds, c12Del{w, cb})
		}
	}
	r.Shuffle(len(ds), func(i, j int) { ds[i], ds[j] = ds[j], ds[i] })
	if !cw.run(ds, 1, "after the registration of another callback") {
		return
	}
	// the earlier writes end by an approval or by their timer
	p := cw.w.Peers[0]
	for _, w := range early {
		if rig.WaitFor(20*time.Second, func() bool { o := cw.observe(w); return o.applied || o.errs > 0 }) {
			continue
		}
		if rig.WaitQuiet(cw.baseline, 5*time.Second) {
			if pend, _ := cw.feats[0].VerifApprovalState(); pend[p.Ski] == 0 {
				cw.judge(w, true, "no timer armed, process idle, 20s after a "+w.timeout.String()+" timeout")
				return
			}
		}
		c.Inconclusive("no outcome of write #%d (pending when a callback was registered) within 20s", w.idx)
		cw.skip = true
		return
	}
	for _, w := range early {
		if d := time.Until(w.sentAt.Add(w.timeout + 25*time.Millisecond)); d > 0 {
			time.Sleep(d)
		}
	}
	if !rig.WaitQuiet(cw.baseline, 20*time.Second) {
		c.Inconclusive("process did not become quiet")
		cw.skip = true
		return
	}
	for _, w := range cw.all() {
		cw.judge(w, true, "at the end")
		o := cw.observe(w)
		if o.applied {
			cw.expect[0][w.elem] = w.val
			c.Count("latecb:"+w.class+":applied", 1)
		} else {
			c.Count("latecb:"+w.class+":error-result", 1)
		}
	}
	cw.mu.Lock()
	for _, w := range cw.all() {
		for cb := 0; cb <= k; cb++ {
			n := len(cw.inv[c12Key{0, cb, p.Ski, w.mc}])
			switch {
			case cb < len(w.v) && n != 1:
				c.Violate("callback/not-invoked-exactly-once", "write #%d: callback %d (registered when the write came in) was invoked %d times", w.idx, cb, n)
			case cb >= len(w.v) && n > 1:
				c.Violate("callback/invoked-more-than-once", "write #%d: callback %d (registered while the write was pending) was invoked %d times", w.idx, cb, n)
			}
		}
	}
	cw.mu.Unlock()
	for el := 1; el <= c12Elems; el++ {
		if v, ok := cw.value(0, el); !ok || v != cw.expect[0][el] {
			c.Violate("data/element-differs-from-outcomes", "element %d holds %d (present=%v), the outcomes observed imply %d\n%s", el, v, ok, cw.expect[0][el], strings.Join(cw.trace, "\n"))
		}
	}
	for _, d := range p.Tap.Peek() {
		if ref := d.Header.MsgCounterReference; ref == nil || !cw.known[0][*ref] {
			c.Violate("tap/unattributable-datagram", "peer0 received a datagram that answers none of its messages: %s", rig.JS(d))
		} else {
			for _, w := range cw.all() {
				if *ref == w.mc {
					c12CheckResultAddresses(cw, 0, 0, d)
				}
			}
		}
	}
	decided = true
}
