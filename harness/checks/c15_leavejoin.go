package checks

import (
	"fmt"
	"sync/atomic"
	"time"

	"github.com/enbility/spine-go/model"

	"verifharness/rig"
)

// C15, part "leave-join": a connection is set up WHILE the removal of the last other connection is in progress.
//
// The local device is itself a core-level handler of the event bus ("the stack's internal handlers"): it reacts to the
// DeviceChange/add event of a peer's discovery reply by writing the NodeManagement subscription call and the use-case read
// to that peer. It subscribes when a connection is set up and unsubscribes when the last one was removed. The statement's
// "the stack's internal handlers have finished before publication returns and before any application handler of that event
// runs" presupposes that the internal handler of a device with a live connection IS subscribed; the sequential life-cycle
// histories of part "integrated" assert that for leave-then-join. Here the join overlaps the leave: the removal of the only
// connection A is parked (hook point RemoveRemoteDevice.afterDelete: A is out of the device map, the decision "no
// connection left" has been taken) while SetupRemoteDevice(B) runs to completion, then released; afterwards B's discovery
// reply is processed. Verdict on logged order only: the stack's own reaction must be on B's tap when the processing of B's
// discovery reply returns. A second variant runs the two calls without the gate (jitter only) for schedule diversity.
//
// Found by this part on the tree before the repair: D70 (known_findings.txt).
func c15LeaveJoin(c *rig.Ctx) {
	r := c.Rand
	w := rig.NewWorld(c.Tag())
	defer w.Close()
	ent := w.AddEntity(model.EntityTypeTypeCEM, []uint{1}, 4*time.Second)
	ent.GetOrAddFeature(model.FeatureTypeTypeMeasurement, model.RoleTypeClient)
	feats := []rig.FS{rig.NMFS, {Ent: []uint{1}, Id: 1, Typ: model.FeatureTypeTypeMeasurement, Role: model.RoleTypeServer}}

	gated := c.Index%4 != 3                    // three of four cases force a window
	joinParked := c.Index%4 == 1               // ... one of them the symmetric one: the SETUP is parked between registration and core subscription while the removal runs to completion
	sameSki := r.Intn(3) == 0 && !joinParked   // B is the same device reconnecting
	aAnnounced := r.Intn(4) != 0               // A completed its discovery before leaving
	bystanders := []int{0, 0, 0, 1}[r.Intn(4)] // with another connection present nothing is unsubscribed: control cases
	c.Shape(fmt.Sprintf("leave-join gated=%v join-parked=%v same-ski=%v a-announced=%v bystanders=%d", gated, joinParked, sameSki, aAnnounced, bystanders))

	a := w.AddPeer(0)
	if aAnnounced {
		a.Announce(feats)
	}
	for i := 0; i < bystanders; i++ {
		x := w.AddPeer(10 + i)
		x.Announce(feats)
	}
	baseline := eStableGoroutines()

	h := rig.InstallHooks()
	defer h.Uninstall()
	h.SetMaxWait(20 * time.Second)
	var release func()
	gatePoint := "RemoveRemoteDevice.afterDelete"
	if joinParked {
		gatePoint = "SetupRemoteDevice.afterAdd"
	}
	if gated {
		release = h.Gate(gatePoint)
	} else {
		h.Jitter("RemoveRemoteDevice.afterDelete", r.Int63(), 200*time.Microsecond)
		h.Jitter("RemoveRemoteDevice.beforeCleanup", r.Int63(), 200*time.Microsecond)
		h.Jitter("SetupRemoteDevice.afterAdd", r.Int63(), 200*time.Microsecond)
	}

	var leaveRet atomic.Int64
	var setupCall, setupRet int64
	forced := false
	b := &rig.Peer{Ski: fmt.Sprintf("%s-ski%d", c.Tag(), 1), Addr: "dev1", Tap: &rig.Tap{}, W: w, Ctr: 200000}
	if sameSki {
		b.Ski, b.Addr = a.Ski, a.Addr
	}
	if joinParked {
		// B's setup is parked after its registration; A's removal runs to completion meanwhile
		setupDone := make(chan string, 1)
		setupCall = rig.Seq()
		go func() {
			h.Role("join")
			pan := eGuard(c, "SetupRemoteDevice", func() { w.Local.SetupRemoteDevice(b.Ski, b.Tap) })
			setupRet = rig.Seq()
			setupDone <- pan
		}()
		forced = rig.WaitFor(10*time.Second, func() bool { return h.GateWaiting(gatePoint) >= 1 })
		if forced {
			c.Count("leave-join:setup-window-forced", 1)
		} else {
			c.Count("leave-join:setup-window-not-forced", 1)
		}
		okL, panL := rig.Guard(30*time.Second, func() { w.Local.RemoveRemoteDeviceConnection(a.Ski) })
		leaveRet.Store(rig.Seq())
		if release != nil {
			release()
		}
		if panL != "" {
			c.Violate("leave-join/disconnect-panics", "%s", panL)
			return
		}
		if !okL {
			c.Inconclusive("RemoveRemoteDeviceConnection did not return within 30s while a setup was parked after its registration; parking for the hang monitor")
			for {
				time.Sleep(time.Hour)
			}
		}
		select {
		case pan := <-setupDone:
			if pan != "" {
				c.Violate("leave-join/setup-panics", "%s", pan)
				return
			}
		case <-time.After(40 * time.Second):
			c.Inconclusive("SetupRemoteDevice did not return within 40s; parking for the hang monitor")
			for {
				time.Sleep(time.Hour)
			}
		}
		b.RD = w.Local.RemoteDeviceForSki(b.Ski)
		w.Peers = append(w.Peers, b)
	} else {
		leaveDone := make(chan string, 1)
		go func() {
			h.Role("leave")
			leaveDone <- eGuard(c, "RemoveRemoteDeviceConnection", func() { w.Local.RemoveRemoteDeviceConnection(a.Ski) })
			leaveRet.Store(rig.Seq())
		}()
		if gated {
			forced = rig.WaitFor(10*time.Second, func() bool { return h.GateWaiting(gatePoint) >= 1 })
			if !forced {
				c.Count("leave-join:window-not-forced", 1)
			} else {
				c.Count("leave-join:window-forced", 1)
			}
		}

		setupCall = rig.Seq()
		ok, pan := rig.Guard(30*time.Second, func() {
			w.Local.SetupRemoteDevice(b.Ski, b.Tap)
			b.RD = w.Local.RemoteDeviceForSki(b.Ski)
		})
		setupRet = rig.Seq()
		if pan != "" {
			c.Violate("leave-join/setup-panics", "%s", pan)
			return
		}
		if !ok {
			if release != nil {
				release()
			}
			c.Inconclusive("SetupRemoteDevice did not return within 30s while a removal was parked after its map update; parking for the hang monitor")
			for {
				time.Sleep(time.Hour)
			}
		}
		if !sameSki {
			w.Peers = append(w.Peers, b)
		} else {
			w.Peers[0] = b
		}
		if release != nil {
			release()
		}
		select {
		case pan := <-leaveDone:
			if pan != "" {
				c.Violate("leave-join/disconnect-panics", "%s", pan)
				return
			}
		case <-time.After(40 * time.Second):
			c.Inconclusive("RemoveRemoteDeviceConnection did not return within 40s; parking for the hang monitor")
			for {
				time.Sleep(time.Hour)
			}
		}
	}
	overlapped := leaveRet.Load() > setupCall // the removal had not returned when the setup was called
	if sameSki && w.Local.RemoteDeviceForSki(b.Ski) == nil {
		// same SKI and the removal's map delete ran after the setup's insert (only possible without the gate): the new
		// connection was removed by the call that was meant for the old one; nothing to judge for B
		c.Count("leave-join:same-ski-removed-the-new-connection", 1)
		c.NonTrivial(false)
		return
	}
	if b.RD == nil {
		b.RD = w.Local.RemoteDeviceForSki(b.Ski)
	}
	if b.RD == nil {
		c.Violate("leave-join/connection-not-registered", "SetupRemoteDevice(%s) returned, RemoteDeviceForSki finds nothing", b.Ski)
		return
	}
	b.Tap.Take() // the discovery read
	b.Announce(feats)
	annRet := rig.Seq()
	if n := b.PanicCount(); n > 0 {
		c.Violate("leave-join/announce-panics", "%s", b.Panics[n-1])
		return
	}
	var sub, uc int
	for _, d := range b.Tap.Take() {
		switch c15WriteKind(d) {
		case "subscription-call":
			sub++
		case "use-case-read":
			uc++
		}
	}
	c.Events(2)
	hist := fmt.Sprintf("A=%s connected (announced=%v), bystanders=%d; RemoveRemoteDeviceConnection(A) called, parked after its device-map update=%v; SetupRemoteDevice(B=%s) called@%d returned@%d; removal returned@%d; B's discovery reply processed, returned@%d",
		a.Ski, aAnnounced, bystanders, forced, b.Ski, setupCall, setupRet, leaveRet.Load(), annRet)
	if sub != 1 {
		c.Violate("leave-join/subscription-call-not-written-for-peer-that-joined-during-a-removal", "%s: NodeManagement subscription calls on B's tap: %d (want 1)", hist, sub)
	}
	if uc != 1 {
		c.Violate("leave-join/use-case-read-not-written-for-peer-that-joined-during-a-removal", "%s: use-case reads on B's tap: %d (want 1)", hist, uc)
	}
	if c.Failed() {
		c.Witness(map[string]any{"history": hist, "hook_trace": h.Trace()})
	}
	c.NonTrivial(overlapped && bystanders == 0)
	if overlapped {
		c.Count("leave-join:setup-called-before-removal-returned", 1)
	}
	if !rig.WaitQuiet(baseline, 20*time.Second) {
		c.Count("leave-join:goroutines-above-baseline-at-end", 1)
	}
}
