package checks

import (
	"fmt"
	"reflect"

	"github.com/enbility/spine-go/model"
	"github.com/enbility/spine-go/util"

	"verifharness/rig"
)

// C01, part "odd-filter": requests whose cmd carries a filter element in one of the forms the schema allows but the
// stack's own builders never produce — a filter holding only a filterId (cmdControl is optional in the XSD), an empty
// filter element, an empty cmdControl, and such an element next to a regular partial filter. The statement's table does
// not depend on the filter: a read of a server feature gets its one reply, a write by a feature without binding its one
// error result, a message for a destination that does not exist its one error result, an acknowledged notify that is
// processed its one success result — "no more and no fewer". What a filter without cmdControl MEANS for the data is
// not C01's subject (it selects nothing), so only the count, the kind and the addressing of the responses are judged.
//
// Found by this part on the tree before the repair: D71 (zero responses: the filter scan dereferenced the missing
// cmdControl, the panic was recovered at the connection's entry point and the request was dropped).
func c01OddFilter(c *rig.Ctx) {
	types := c01Types()
	T := types[c.Index%len(types)]
	cw := newC01World(c, T)
	defer cw.w.Close()
	r := c.Rand
	sender := r.Intn(3)
	p := cw.w.Peers[sender]
	forms := []struct {
		name string
		f    []model.FilterType
	}{
		{"filterId-only", []model.FilterType{{FilterId: util.Ptr(model.FilterIdType(1))}}},
		{"empty-filter-element", []model.FilterType{{}}},
		{"empty-cmdControl", []model.FilterType{{CmdControl: &model.CmdControlType{}}}},
		{"partial+filterId-only", []model.FilterType{*model.NewFilterTypePartial(), {FilterId: util.Ptr(model.FilterIdType(2))}}},
		{"filterId-only+partial", []model.FilterType{{FilterId: util.Ptr(model.FilterIdType(2))}, *model.NewFilterTypePartial()}},
	}
	c.Shape(fmt.Sprintf("odd-filter T=%s sender=%d", T, sender))
	src := rig.FA(p.Addr, []uint{1}, 1) // the peer's client feature
	srv := rig.FA(rig.LocalAddr, []uint{1}, 1)
	unknown := rig.FA(rig.LocalAddr, []uint{1}, 9)
	seen := map[string]bool{}
	for _, fn := range cw.fns {
		for _, form := range forms {
			type probe struct {
				name string
				cl   model.CmdClassifierType
				dst  *model.FeatureAddressType
				ack  bool
				want string // reply | error | success-or-error
			}
			probes := []probe{
				{"read-server", model.CmdClassifierTypeRead, srv, false, "reply"},
				{"write-unbound", model.CmdClassifierTypeWrite, srv, r.Intn(2) == 0, "error"},
				{"read-unknown", model.CmdClassifierTypeRead, unknown, false, "error"},
				{"notify-unknown-ack", model.CmdClassifierTypeNotify, unknown, true, "error"},
			}
			for _, pr := range probes {
				cmd := rig.CmdFor(fn.Fn, reflect.New(fn.T).Interface())
				// the optional function element: the payload's name, empty (as senders write it next to a partial
				// filter), or absent
				switch r.Intn(3) {
				case 0:
					cmd.Function = util.Ptr(fn.Fn)
				case 1:
					cmd.Function = util.Ptr(model.FunctionType(""))
				}
				cmd.Filter = form.f
				for _, q := range cw.w.Peers {
					q.Tap.Take()
				}
				hdr := c01PickHeaderDress(r)
				c.Count("header:"+c01HeaderDresses[hdr], 1)
				mc := c01SendDressed(cw.w, p, hdr, pr.cl, src, pr.dst, pr.ack, nil, cmd)
				outs := p.Tap.Take()
				res := rig.Classify(outs, mc)
				got := fmt.Sprintf("reply=%d,ok=%d,err=%d", res.Replies, res.Success, res.Errors)
				id := fmt.Sprintf("%s %s filter=%s (%s) header[%s] from peer %d", pr.name, fn.Fn, form.name, rig.JS(form.f), c01HeaderDresses[hdr], sender)
				c.Events(1)
				okv := false
				switch pr.want {
				case "reply":
					okv = res.Replies == 1 && res.Success == 0 && res.Errors == 0
				case "error":
					okv = res.Replies == 0 && res.Success == 0 && res.Errors == 1
				}
				if !okv {
					c.Violate("odd-filter/"+pr.name+"/got:"+got, "%s\n want exactly one %s; responses referencing the request: %s", id, pr.want, rig.JS(res.All))
				}
				seen[pr.want+":"+got] = true
				for _, d := range res.All {
					if rig.JS(d.Header.AddressDestination) != rig.JS(src) {
						c.Violate("odd-filter/response-destination", "%s\n response destination %s != request source %s", id, rig.JS(d.Header.AddressDestination), rig.JS(src))
					}
				}
				for qi, q := range cw.w.Peers {
					if qi == sender {
						continue
					}
					for _, d := range q.Tap.Take() {
						if d.Header.MsgCounterReference != nil && *d.Header.MsgCounterReference == mc {
							c.Violate("odd-filter/response-on-another-connection", "%s\n peer %d received %s", id, qi, rig.JS(d))
						}
					}
				}
				c.Count("odd-filter:"+form.name+":"+pr.name, 1)
			}
		}
	}
	c.Seen("odd-filter-outcomes", fmt.Sprint(len(seen)))
	c.NonTrivial(seen["reply:reply=1,ok=0,err=0"] && seen["error:reply=0,ok=0,err=1"])
	if c.Failed() {
		c.Witness(map[string]any{"type": string(T), "sender": sender})
	}
}
