package checks

import (
	"encoding/json"
	"fmt"
	"hash/fnv"
	"reflect"
	"runtime"
	"sort"
	"strings"
	"sync"
	"time"

	"github.com/enbility/spine-go/api"
	"github.com/enbility/spine-go/model"
	"github.com/enbility/spine-go/spine"
	"github.com/enbility/spine-go/util"

	"verifharness/rig"
)

// C07 — the local device tree is announced faithfully and addressed uniquely.
//
// sequential: one case = one local device whose tree is built and changed through the API (entities
// with 1-5 features of ~10 feature types x roles x 0-4 functions with random read/write flags and
// descriptions; AddEntity, RemoveEntity, re-adding a removed entity, GetOrAddFeature, AddFunctionType,
// SetDescriptionString, NextFeatureId) interleaved with detailed discovery reads from a peer subscribed
// to NodeManagement, a peer subscribed only to another local feature, and a peer that toggles its
// NodeManagement subscription; in every second case a "mute" peer (x_mute.go) is the first NodeManagement
// subscriber. Oracles (a)-(d) of DESIGN.md, C07.
//
// conc / conc-race: 8 goroutines call GetOrAddFeature for 2-3 (type, role) pairs and NextFeatureId on
// one entity while a rendezvous at GetOrAddFeature.afterMiss holds the first k of them between the
// lookup miss and the creation.
//
// notify-window / notify-window-race: the connection writer of a subscribed peer is slow (TCP back-pressure): it
// parks the AddEntity / RemoveEntity call inside the write of the "added" / "removed" notification until the
// peer's own connection-reader goroutine has sent a detailed discovery read and a read addressed to a feature
// of the announced entity and has got the answers. Causal oracle: what the peer reads AFTER it has seen the
// notification must agree with the notification.

var c07Types = []model.FeatureTypeType{model.FeatureTypeTypeLoadControl, model.FeatureTypeTypeMeasurement, model.FeatureTypeTypeSetpoint,
	model.FeatureTypeTypeElectricalConnection, model.FeatureTypeTypeDeviceConfiguration, model.FeatureTypeTypeTimeSeries, model.FeatureTypeTypeDeviceDiagnosis,
	model.FeatureTypeTypeIncentiveTable, model.FeatureTypeTypeIdentification, model.FeatureTypeTypeHvac, model.FeatureTypeTypeSmartEnergyManagementPs}

var c07EntDom = [][]uint{{1}, {2}, {3}, {1, 1}, {2, 1}, {1, 2}}
var c07EntTypes = []model.EntityTypeType{model.EntityTypeTypeCEM, model.EntityTypeTypeEVSE, model.EntityTypeTypeEV, model.EntityTypeTypeHeatPumpAppliance, model.EntityTypeTypeInverter}

func init() {
	rig.Register(&rig.Check{
		ID:    "C07",
		Floor: 200,
		Rule: "sequential: case = seeded history of 12-20 operations (new entity with 1-5 features x 0-4 functions, AddEntity, RemoveEntity, re-add, GetOrAddFeature new/existing, AddFunctionType, SetDescriptionString, NextFeatureId, " +
			"toggle of a NodeManagement subscription, discovery read from one of three peers) on one local device; in every second case a fourth peer whose connection has no write handler (every send to it fails) " +
			"subscribed to NodeManagement before the others; non-trivial if at least two discovery replies, one AddEntity and one RemoveEntity notification were judged; distinct = distinct operation-kind sequences. " +
			"Addressing across removals (second per-case PRNG): every entity object carries as first feature a DeviceClassification server feature whose readable manufacturer data names the object; half of the re-additions add - and one removal in four is followed at once by the addition of - a NEW entity object with the address, " +
			"(type, role) pairs and feature numbers of the removed one but other descriptions and data; after every AddEntity / RemoveEntity / re-addition (and, API only, after every discovery read and before three removals in four) every feature address the case ever announced " +
			"is resolved through DeviceLocal.FeatureByAddress with and without the device part (must be the feature object of the entity that is part of the device now, nil if there is none) and the probe feature of every entity address is read by a peer with an addressDestination " +
			"with and without device part (one reply carrying the data of the current entity object; exactly one error result and no reply if no entity with that address is part of the device). " +
			"conc: case = (k of the rendezvous, number of (type, role) pairs, how many of them exist beforehand), 8 goroutines; non-trivial if the rendezvous at GetOrAddFeature.afterMiss completed with all k goroutines inside the window and two of them asked for the same (type, role); " +
			"distinct = distinct (configuration, arrival order of the goroutines at the hook). " +
			"read-conc: case = local device with 4-6 entities; one goroutine sends 40 discovery reads as a peer while another removes and re-adds entities that are not the last of the list (seeded order); every reply must equal one of the " +
			"entity sets that were current between the call and the return of that read (logical stamps); non-trivial if at least one read overlapped a RemoveEntity/AddEntity call; distinct = distinct (entity count, operation order, number of overlapped reads). " +
			"notify-window: case = local device with 0-2 entities, 1-3 peers subscribed to NodeManagement (seeded subset of them, at least one, with a connection writer that blocks inside the write of an entity notification until the peer's " +
			"reader goroutine has issued a discovery read, FeatureByAddress for every announced address and a read to a seeded feature of the announced entity; bounded wait, an expired wait is counted and makes the case inconclusive) and a seeded history of 5-8 AddEntity / RemoveEntity / re-AddEntity calls; " +
			"a read issued after the 'added [x]' notification was handed to the writer must list x with its features and a read to an announced feature must be answered as the same read is answered after the call returned; a read issued after 'removed [x]' must not list x; " +
			"non-trivial if at least one 'added' and one 'removed' window were forced and judged; distinct = distinct (subscriber count, which of them are reactive, operation kinds with feature counts).",
		Assumptions: []string{
			"message handling and AddEntity/RemoveEntity notifications are synchronous, so the taps are complete when the call returns",
			"not demanded: the entity description in the announcement, the partial sub-flags of operations, the content of the feature list of a 'removed' notification, datagrams other than detailed discovery data (use case notifications accompany RemoveEntity)",
			"AddFunctionType is only called once per function and only on server features (it is documented to ignore client features); the heartbeat function is not added (C16)",
			"'every announced feature address resolves back to that feature' is read for both legal forms of a feature address (the device part of a destination address is optional and defaults to the recipient) and at every moment: an address whose entity has been removed is not announced any more, " +
				"so it resolves to nothing (FeatureByAddress nil; a read addressed to it is rejected with one error result), and after an entity with the same address has been added again it resolves to the feature of THAT entity object",
			"the reference for the stack-built entity [0] is read through Features()/Operations(); for all other entities it is what the harness passed to the API",
			"'each peer subscribed to node management' includes the peers whose entry follows that of a peer with a broken connection: the mute peer (SetupRemoteDevice with a nil writer) is not observed itself, only its effect on the others",
			"notify-window: 'at every moment' is read causally: a peer that has been handed the notification about entity x on its connection and then sends a read gets an answer that is consistent with that notification (x listed with its features after 'added', not listed after 'removed'); " +
				"whether a message to a feature of a REMOVED entity is still served is not judged; the read to an announced feature is judged differentially (same class and error number as the same read after the call returned), not against C01's rules",
		},
		Parts: []rig.Part{
			{Name: "sequential", Cases: func(t rig.Tier) int { return map[rig.Tier]int{rig.Quick: 300, rig.Thorough: 5000}[t] }, Run: c07Seq, Procs: 2},
			{Name: "conc", Cases: func(t rig.Tier) int { return map[rig.Tier]int{rig.Quick: 200, rig.Thorough: 4000}[t] }, Run: c07Conc, Procs: 8, Workers: 8, Quiet: 90 * time.Second},
			{Name: "conc-race", Race: true, Cases: func(t rig.Tier) int { return map[rig.Tier]int{rig.Quick: 60, rig.Thorough: 800}[t] }, Run: c07Conc, Procs: 8, Workers: 8, Quiet: 120 * time.Second},
			{Name: "read-conc", Cases: func(t rig.Tier) int { return map[rig.Tier]int{rig.Quick: 160, rig.Thorough: 3000}[t] }, Run: c07ReadConc, Procs: 4, Workers: 8, Quiet: 90 * time.Second},
			{Name: "read-conc-race", Race: true, Cases: func(t rig.Tier) int { return map[rig.Tier]int{rig.Quick: 40, rig.Thorough: 500}[t] }, Run: c07ReadConc, Procs: 4, Workers: 16, Chunk: 3, Quiet: 120 * time.Second},
			{Name: "notify-window", Cases: func(t rig.Tier) int { return map[rig.Tier]int{rig.Quick: 160, rig.Thorough: 3000}[t] }, Run: c07Window, Procs: 4, Workers: 8, Quiet: 90 * time.Second},
			{Name: "notify-window-race", Race: true, Cases: func(t rig.Tier) int { return map[rig.Tier]int{rig.Quick: 32, rig.Thorough: 480}[t] }, Run: c07Window, Procs: 2, Workers: 16, Chunk: 2, Quiet: 120 * time.Second},
		},
	})
}

// ---- reference

type c07RF struct {
	obj  api.FeatureLocalInterface
	id   uint
	typ  model.FeatureTypeType
	role model.RoleType
	desc *string
	ops  map[model.FunctionType][2]bool
}

type c07RE struct {
	obj     *spine.EntityLocal
	addr    []uint
	typ     model.EntityTypeType
	feats   []*c07RF
	present bool
	handed  map[uint]bool // every feature number this entity ever handed out
	tag     string        // unique per entity OBJECT ("incarnation"): the device name its probe feature serves
	probe   *c07RF        // DeviceClassification server feature with readable manufacturer data (first feature of every entity object)
}

const c07ProbeFn = model.FunctionTypeDeviceClassificationManufacturerData

func c07Line(addr string, typ model.FeatureTypeType, role model.RoleType, desc *string, ops map[model.FunctionType][2]bool) string {
	var os []string
	for fn, o := range ops {
		os = append(os, c06OpStr(fn, o[0], o[1]))
	}
	sort.Strings(os)
	return fmt.Sprintf("F %s type=%s role=%s desc=%s ops={%s}", addr, typ, role, c06P(desc), strings.Join(os, ","))
}

func (f *c07RF) line(e *c07RE) string {
	return c07Line(rig.FA(rig.LocalAddr, e.addr, f.id).String(), f.typ, f.role, f.desc, f.ops)
}

// c07InfoLine renders one announced feature description; ok=false if it is structurally incomplete.
func c07InfoLine(d *model.NetworkManagementFeatureDescriptionDataType) (string, bool) {
	if d == nil || d.FeatureAddress == nil || d.FeatureAddress.Feature == nil || d.FeatureType == nil || d.Role == nil {
		return rig.JS(d), false
	}
	ops := map[model.FunctionType][2]bool{}
	for _, sf := range d.SupportedFunction {
		if sf.Function == nil {
			return rig.JS(d), false
		}
		if _, dup := ops[*sf.Function]; dup {
			return "function listed twice: " + rig.JS(d), false
		}
		ops[*sf.Function] = [2]bool{sf.PossibleOperations != nil && sf.PossibleOperations.Read != nil, sf.PossibleOperations != nil && sf.PossibleOperations.Write != nil}
	}
	var desc *string
	if d.Description != nil {
		desc = util.Ptr(string(*d.Description))
	}
	return c07Line(d.FeatureAddress.String(), *d.FeatureType, *d.Role, desc, ops), true
}

// c07ApiLine renders a feature as the API reports it (used for the stack-built entity [0]).
func c07ApiLine(f api.FeatureLocalInterface) string {
	ops := map[model.FunctionType][2]bool{}
	for fn, o := range f.Operations() {
		ops[fn] = [2]bool{o.Read(), o.Write()}
	}
	var desc *string
	if f.Description() != nil {
		desc = util.Ptr(string(*f.Description()))
	}
	return c07Line(f.Address().String(), f.Type(), f.Role(), desc, ops)
}

func c07DiffSig(want, got []string) string {
	w, g := map[string]int{}, map[string]int{}
	for _, x := range want {
		w[x]++
	}
	for _, x := range got {
		g[x]++
	}
	head := func(s string) string {
		if i := strings.Index(s, " type="); i > 0 {
			return s[:i]
		}
		return s
	}
	miss, surp := map[string]string{}, map[string]string{}
	for x, n := range w {
		if g[x] < n {
			miss[head(x)] = x
		}
	}
	for x, n := range g {
		if w[x] < n {
			surp[head(x)] = x
		}
	}
	cls := map[string]bool{}
	for h, x := range miss {
		if y, ok := surp[h]; ok {
			switch {
			case c06Field(x, " ops=") != c06Field(y, " ops="):
				cls["operations"] = true
			case c06Field(x, " desc=") != c06Field(y, " desc="):
				cls["description"] = true
			default:
				cls["type-or-role"] = true
			}
		} else {
			cls["feature-missing"] = true
		}
	}
	for h := range surp {
		if _, ok := miss[h]; !ok {
			cls["feature-surplus"] = true
		}
	}
	for _, k := range []string{"feature-missing", "feature-surplus", "type-or-role", "operations", "description"} {
		if cls[k] {
			return k
		}
	}
	return "other"
}

// ---- sequential part

func c07Seq(c *rig.Ctx) {
	r := c.Rand
	w := rig.NewWorld(c.Tag())
	defer w.Close()
	local := w.Local

	var trace, kinds []string
	fail := func(sig, format string, a ...any) {
		c.Violate(sig, "%s\n history so far (last is the failing step):\n   %s", fmt.Sprintf(format, a...), strings.Join(trace, "\n   "))
		c.Witness(map[string]any{"history": trace})
	}

	// peers: 0 subscribed to NodeManagement, 1 subscribed to another local feature only, 2 toggles
	clientDC := rig.FS{Ent: []uint{1}, Id: 1, Typ: model.FeatureTypeTypeDeviceClassification, Role: model.RoleTypeClient}
	var peers []*rig.Peer
	for i := 0; i < 3; i++ {
		p := w.AddPeer(i)
		p.Ctr = uint64(i+1) * 100000
		p.Announce([]rig.FS{rig.NMFS, clientDC})
		peers = append(peers, p)
	}
	// in every second case a "mute" peer (connection without write handler: every send to it fails) subscribed to
	// NodeManagement BEFORE everybody else; a send fault on its connection must not cost the others their notification
	mute := c.Index%2 == 1
	if mute {
		mp := addMutePeer(w, 0)
		defer w.Local.RemoveRemoteDeviceConnection(mp.Ski)
		if why := muteSubscribeFirst(w, mp, []rig.FS{rig.NMFS, clientDC}, []muteSub{{mp.NM(), rig.LNM, model.FeatureTypeTypeNodeManagement}}); why != "" {
			c.Inconclusive("setup of the mute peer: %s", why)
			return
		}
		w.Core.Take()
		trace = append(trace, "peer 'mute0' (its connection has no write handler) subscribed to NodeManagement before peer0")
		c.Count("cases_with_a_mute_first_subscriber", 1)
	}
	subscribedNM := []bool{true, false, false}
	mc := peers[0].Subscribe(peers[0].NM(), rig.LNM, model.FeatureTypeTypeNodeManagement)
	if res := rig.Classify(peers[0].Tap.Take(), mc); res.Success != 1 {
		c.Inconclusive("setup: NodeManagement subscription of peer0 was not acknowledged (%s)", res)
		return
	}
	mc = peers[1].Subscribe(rig.FA(peers[1].Addr, []uint{1}, 1), rig.FA(rig.LocalAddr, []uint{0}, 1), model.FeatureTypeTypeDeviceClassification)
	if res := rig.Classify(peers[1].Tap.Take(), mc); res.Success != 1 {
		c.Inconclusive("setup: DeviceClassification subscription of peer1 was not acknowledged (%s)", res)
		return
	}
	for _, p := range peers {
		p.Tap.Take()
	}

	var ents []*c07RE // every entity object ever created
	present := func() []*c07RE {
		var ps []*c07RE
		for _, e := range ents {
			if e.present {
				ps = append(ps, e)
			}
		}
		return ps
	}
	absent := func() []*c07RE {
		var ps []*c07RE
		for _, e := range ents {
			if !e.present {
				ps = append(ps, e)
			}
		}
		return ps
	}
	addrInUse := func(a []uint) bool {
		for _, e := range ents {
			if e.present && c06Key(e.addr) == c06Key(a) {
				return true
			}
		}
		return false
	}
	usedPair := func(e *c07RE, t model.FeatureTypeType, ro model.RoleType) *c07RF {
		for _, f := range e.feats {
			if f.typ == t && f.role == ro {
				return f
			}
		}
		return nil
	}

	// (d) bookkeeping of handed out feature numbers
	hand := func(e *c07RE, id uint, how string) {
		if e.handed[id] {
			fail("numbering/"+how+"/feature-number-reused", "entity %s: feature number %d was handed out before (%s)", c06Key(e.addr), id, how)
		}
		e.handed[id] = true
	}
	checkFeatures := func(e *c07RE) {
		ids, pairs := map[uint]bool{}, map[string]bool{}
		fs := e.obj.Features()
		for _, f := range fs {
			id := uint(*f.Address().Feature)
			if ids[id] {
				fail("numbering/two-features-share-a-number", "entity %s: two features share number %d", c06Key(e.addr), id)
			}
			ids[id] = true
			k := string(f.Type()) + "/" + string(f.Role())
			if pairs[k] {
				fail("features/two-of-one-type-and-role", "entity %s: Features() holds two features %s", c06Key(e.addr), k)
			}
			pairs[k] = true
		}
		if len(fs) != len(e.feats) {
			fail("features/count", "entity %s: Features() holds %d features, %d were created through the API", c06Key(e.addr), len(fs), len(e.feats))
		}
	}

	addFunctions := func(e *c07RE, f *c07RF, max int) string {
		if f.role != model.RoleTypeServer {
			return ""
		}
		fns := c06FnsOf(f.typ)
		var added []string
		for _, i := range r.Perm(len(fns)) {
			if len(added) >= max {
				break
			}
			fn := fns[i].Fn
			if _, ok := f.ops[fn]; ok || fn == model.FunctionTypeDeviceDiagnosisHeartbeatData {
				continue
			}
			rd, wr := r.Intn(3) > 0, r.Intn(2) == 0
			f.obj.AddFunctionType(fn, rd, wr)
			f.ops[fn] = [2]bool{rd, wr}
			added = append(added, c06OpStr(fn, rd, wr))
		}
		return strings.Join(added, ",")
	}

	newFeature := func(e *c07RE, t model.FeatureTypeType, ro model.RoleType) *c07RF {
		f := &c07RF{typ: t, role: ro, ops: map[model.FunctionType][2]bool{}}
		how := ""
		if r.Intn(4) == 0 {
			// the explicit path: NextFeatureId + NewFeatureLocal + AddFeature (no default description)
			id := e.obj.NextFeatureId()
			fl := spine.NewFeatureLocal(id, e.obj, t, ro)
			e.obj.AddFeature(fl)
			f.obj, how = fl, "AddFeature"
			if got := uint(*fl.Address().Feature); got != id {
				fail("numbering/address!=number", "NewFeatureLocal(%d) has feature address %d", id, got)
			}
		} else {
			f.obj, how = e.obj.GetOrAddFeature(t, ro), "GetOrAddFeature"
		}
		f.id = uint(*f.obj.Address().Feature)
		hand(e, f.id, how)
		if f.obj.Type() != t || f.obj.Role() != ro {
			fail("features/created-with-other-type-or-role", "%s(%s,%s) returned a feature %s/%s", how, t, ro, f.obj.Type(), f.obj.Role())
		}
		switch r.Intn(3) {
		case 0: // keep whatever description the API gave it
			if d := f.obj.Description(); d != nil {
				f.desc = util.Ptr(string(*d))
			}
		default:
			s := fmt.Sprintf("desc-%d", r.Intn(10000))
			f.obj.SetDescriptionString(s)
			f.desc = &s
		}
		e.feats = append(e.feats, f)
		fnInfo := addFunctions(e, f, r.Intn(5))
		trace = append(trace, fmt.Sprintf("  %s %s: %s(%s,%s) -> number %d desc=%s functions{%s}", "entity", c06Key(e.addr), how, t, ro, f.id, c06P(f.desc), fnInfo))
		return f
	}
	freshPair := func(e *c07RE) (model.FeatureTypeType, model.RoleType, bool) {
		for try := 0; try < 20; try++ {
			t := c07Types[r.Intn(len(c07Types))]
			ro := []model.RoleType{model.RoleTypeClient, model.RoleTypeServer}[r.Intn(2)]
			if usedPair(e, t, ro) == nil {
				return t, ro, true
			}
		}
		return "", "", false
	}

	// ---- addressing across removals and re-additions (second PRNG: the histories drawn from c.Rand stay what they were)
	//
	// Every entity OBJECT ("incarnation") carries as its first feature a DeviceClassification server feature whose
	// readable manufacturer data names the incarnation. After every AddEntity / RemoveEntity / re-addition (of the same
	// object, or of a NEW object with the same entity address and the same feature numbers) every feature address the
	// case has ever announced is resolved through DeviceLocal.FeatureByAddress with AND without the (optional) device
	// part: it must be the feature object of the entity that is CURRENTLY part of the device, nil if there is none.
	// The same is asked through the message path: a read of the manufacturer data whose addressDestination carries resp.
	// omits the device part is answered with the data of the current incarnation, resp. with one error result (and no
	// reply) if no entity with that address is part of the device.
	aux := c10Aux(c, 7)
	incarnations := 0
	addProbe := func(e *c07RE) {
		incarnations++
		e.tag = fmt.Sprintf("incarnation-%d-of-%s", incarnations, c06Key(e.addr))
		f := &c07RF{typ: model.FeatureTypeTypeDeviceClassification, role: model.RoleTypeServer, ops: map[model.FunctionType][2]bool{}}
		f.obj = e.obj.GetOrAddFeature(f.typ, f.role)
		f.id = uint(*f.obj.Address().Feature)
		hand(e, f.id, "GetOrAddFeature")
		s := "probe of " + e.tag
		f.obj.SetDescriptionString(s)
		f.desc = &s
		f.obj.AddFunctionType(c07ProbeFn, true, false)
		f.ops[c07ProbeFn] = [2]bool{true, false}
		f.obj.SetData(c07ProbeFn, &model.DeviceClassificationManufacturerDataType{DeviceName: util.Ptr(model.DeviceClassificationStringType(e.tag))})
		e.feats = append(e.feats, f)
		e.probe = f
		trace = append(trace, fmt.Sprintf("  entity %s: GetOrAddFeature(DeviceClassification,server) -> number %d, manufacturer data deviceName=%q", c06Key(e.addr), f.id, e.tag))
	}
	// makeTwin builds a NEW entity object with the address of old: the same (type, role) pairs under the same feature
	// numbers with the same functions, but other descriptions and other probe data.
	makeTwin := func(old *c07RE) *c07RE {
		t := &c07RE{addr: old.addr, typ: old.typ, handed: map[uint]bool{}}
		if aux.Intn(3) == 0 {
			t.typ = c07EntTypes[aux.Intn(len(c07EntTypes))]
		}
		t.obj = spine.NewEntityLocal(local, t.typ, spine.NewAddressEntityType(t.addr), 4*time.Second)
		incarnations++
		t.tag = fmt.Sprintf("incarnation-%d-of-%s", incarnations, c06Key(t.addr))
		trace = append(trace, fmt.Sprintf("new entity OBJECT for the address %s (type %s), features with the numbers of the removed one:", c06Key(t.addr), t.typ))
		ofs := append([]*c07RF(nil), old.feats...)
		sort.Slice(ofs, func(i, j int) bool { return ofs[i].id < ofs[j].id })
		for _, of := range ofs {
			var id uint
			for n := 0; n < 64; n++ {
				id = t.obj.NextFeatureId()
				hand(t, id, "NextFeatureId")
				if id >= of.id {
					break
				}
			}
			if id != of.id {
				panic(fmt.Sprintf("harness: NextFeatureId of a fresh entity skipped number %d (got %d)", of.id, id))
			}
			fl := spine.NewFeatureLocal(id, t.obj, of.typ, of.role)
			t.obj.AddFeature(fl)
			nf := &c07RF{obj: fl, id: id, typ: of.typ, role: of.role, ops: map[model.FunctionType][2]bool{}}
			s := fmt.Sprintf("desc-of-%s-%d", t.tag, id)
			fl.SetDescriptionString(s)
			nf.desc = &s
			var fns []model.FunctionType
			for fn := range of.ops {
				fns = append(fns, fn)
			}
			sort.Slice(fns, func(i, j int) bool { return fns[i] < fns[j] })
			for _, fn := range fns {
				fl.AddFunctionType(fn, of.ops[fn][0], of.ops[fn][1])
				nf.ops[fn] = of.ops[fn]
			}
			if of == old.probe {
				fl.SetData(c07ProbeFn, &model.DeviceClassificationManufacturerDataType{DeviceName: util.Ptr(model.DeviceClassificationStringType(t.tag))})
				t.probe = nf
			}
			t.feats = append(t.feats, nf)
			trace = append(trace, fmt.Sprintf("  entity %s: NewFeatureLocal(%d,%s,%s)+AddFeature desc=%s", c06Key(t.addr), id, of.typ, of.role, s))
		}
		return t
	}
	// current returns the entity that is part of the device under that entity address (nil: none) and its feature
	// with that number (nil: none)
	current := func(addrKey string, id uint) (*c07RE, *c07RF) {
		for _, e := range ents {
			if e.present && c06Key(e.addr) == addrKey {
				for _, f := range e.feats {
					if f.id == id {
						return e, f
					}
				}
				return e, nil
			}
		}
		return nil, nil
	}
	ownerOf := func(obj api.FeatureLocalInterface) string {
		for _, e := range ents {
			for _, f := range e.feats {
				if f.obj == obj {
					st := "REMOVED"
					if e.present {
						st = "current"
					}
					return fmt.Sprintf("feature %d (%s/%s, desc=%s) of the %s entity object %q", f.id, f.typ, f.role, c06P(f.desc), st, e.tag)
				}
			}
		}
		return "a feature the harness did not create"
	}
	forms := []struct{ name, dev string }{{"with-device", rig.LocalAddr}, {"without-device", ""}}
	resolutions, probeReads := 0, 0
	// resolveAPI: DeviceLocal.FeatureByAddress for every address ever used, with and without device part
	resolveAPI := func(when string) {
		seen := map[string]bool{}
		for _, e0 := range ents {
			for _, f0 := range e0.feats {
				k := fmt.Sprintf("%s/%d", c06Key(e0.addr), f0.id)
				if seen[k] {
					continue
				}
				seen[k] = true
				ce, cf := current(c06Key(e0.addr), f0.id)
				for _, fo := range forms {
					a := rig.FA(fo.dev, e0.addr, f0.id)
					got := local.FeatureByAddress(a)
					resolutions++
					c.Events(1)
					switch {
					case cf == nil && !rig.IsNil(got) && ce == nil:
						fail("resolve/"+fo.name+"/address-of-a-removed-entity-still-resolves", "%s: FeatureByAddress(%s) returns %s; no entity %s is part of the device", when, rkKey(a), ownerOf(got), c06Key(e0.addr))
					case cf == nil && !rig.IsNil(got):
						fail("resolve/"+fo.name+"/number-the-current-entity-never-handed-out-resolves", "%s: FeatureByAddress(%s) returns %s; the current entity object %q has no feature %d", when, rkKey(a), ownerOf(got), ce.tag, f0.id)
					case cf != nil && rig.IsNil(got):
						fail("resolve/"+fo.name+"/announced-address-does-not-resolve", "%s: FeatureByAddress(%s) is nil; the address is announced for %s", when, rkKey(a), ownerOf(cf.obj))
					case cf != nil && got != cf.obj:
						fail("resolve/"+fo.name+"/announced-address-resolves-to-other-feature", "%s: FeatureByAddress(%s) returns %s; the address is announced for %s", when, rkKey(a), ownerOf(got), ownerOf(cf.obj))
					}
				}
			}
		}
		// the stack-built entity [0]
		if e0 := local.Entity(spine.DeviceInformationAddressEntity); e0 != nil {
			for _, f := range e0.Features() {
				for _, fo := range forms {
					a := rig.FA(fo.dev, []uint{0}, uint(*f.Address().Feature))
					resolutions++
					c.Events(1)
					if got := local.FeatureByAddress(a); got != f {
						fail("resolve/"+fo.name+"/announced-address-resolves-to-other-feature", "%s: FeatureByAddress(%s) does not return the feature %s of entity [0]", when, rkKey(a), f.Address().String())
					}
				}
			}
		}
	}
	// resolveMsg: the same question through the message path, for the probe feature of every entity address ever used
	resolveMsg := func(when string) {
		seen := map[string]bool{}
		for _, e0 := range ents {
			if e0.probe == nil {
				continue
			}
			k := fmt.Sprintf("%s/%d", c06Key(e0.addr), e0.probe.id)
			if seen[k] {
				continue
			}
			seen[k] = true
			ce, cf := current(c06Key(e0.addr), e0.probe.id)
			p := peers[aux.Intn(len(peers))]
			for _, fo := range forms {
				a := rig.FA(fo.dev, e0.addr, e0.probe.id)
				p.Tap.Take()
				mc := p.Send(model.CmdClassifierTypeRead, p.NM(), a, false, nil, model.CmdType{DeviceClassificationManufacturerData: &model.DeviceClassificationManufacturerDataType{}})
				res := rig.Classify(p.Tap.Take(), mc)
				probeReads++
				c.Events(int64(1 + len(res.All)))
				name := "(no deviceName)"
				if res.Replies == 1 && len(res.All) == 1 && len(res.All[0].Payload.Cmd) == 1 {
					if md := res.All[0].Payload.Cmd[0].DeviceClassificationManufacturerData; md != nil && md.DeviceName != nil {
						name = string(*md.DeviceName)
					}
				}
				what := fmt.Sprintf("%s: read of %s with addressDestination %s", when, c07ProbeFn, rig.JS(a))
				switch {
				case cf == nil && res.Replies > 0:
					fail("message/"+fo.name+"/read-to-a-removed-entity-is-answered-with-data", "%s is answered with a reply (deviceName %q); no entity %s is part of the device", what, name, c06Key(e0.addr))
				case cf == nil && (res.Errors != 1 || len(res.All) != 1):
					fail("message/"+fo.name+"/read-to-a-removed-entity-not-rejected-once", "%s: %s; no entity %s is part of the device, expected exactly one error result", what, c07RespClass(res), c06Key(e0.addr))
				case cf != nil && (res.Replies != 1 || len(res.All) != 1):
					fail("message/"+fo.name+"/read-to-an-announced-feature-not-answered", "%s: %s; the address is announced for the entity object %q", what, c07RespClass(res), ce.tag)
				case cf != nil && name != ce.tag:
					fail("message/"+fo.name+"/read-answered-by-a-feature-of-a-removed-entity-object", "%s is answered with deviceName %q; the entity object that is part of the device serves %q", what, name, ce.tag)
				}
			}
		}
	}
	checkResolve := func(when string) {
		if c.Failed() {
			return
		}
		resolveAPI(when)
		if !c.Failed() {
			resolveMsg(when)
		}
	}
	twins := 0
	var addTwin func(old *c07RE, how string) // defined below (needs checkNotify)

	// (c) notifications after AddEntity / RemoveEntity
	var notesAdd, notesRem, reads int
	checkNotify := func(e *c07RE, state model.NetworkManagementStateChangeType) {
		if mute {
			c.Count("entity_notifications_judged_behind_a_mute_subscriber", 1)
		}
		for i, p := range peers {
			outs := p.Tap.Take()
			var disc []model.DatagramType
			for _, d := range outs {
				if len(d.Payload.Cmd) > 0 && d.Payload.Cmd[0].NodeManagementDetailedDiscoveryData != nil {
					disc = append(disc, d)
				} else {
					c.Count("other_datagrams_with_entity_change", 1)
				}
			}
			c.Events(int64(len(outs)))
			if !subscribedNM[i] {
				if len(disc) != 0 {
					fail("notify/"+string(state)+"/sent-to-unsubscribed-peer", "peer%d is not subscribed to NodeManagement and received %d discovery datagrams: %s", i, len(disc), rig.JS(disc))
				}
				continue
			}
			if len(disc) != 1 {
				fail(fmt.Sprintf("notify/%s/subscribed-peer-got-%d", state, len(disc)), "peer%d is subscribed to NodeManagement and received %d discovery datagrams: %s", i, len(disc), rig.JS(disc))
				continue
			}
			d := disc[0]
			cmd := d.Payload.Cmd[0]
			dd := cmd.NodeManagementDetailedDiscoveryData
			fp, _ := cmd.ExtractFilter()
			if d.Header.CmdClassifier == nil || *d.Header.CmdClassifier != model.CmdClassifierTypeNotify || fp == nil || fp.CmdControl == nil || fp.CmdControl.Partial == nil {
				fail("notify/"+string(state)+"/not-a-partial-notify", "peer%d: %s", i, rig.JS(d))
				continue
			}
			if len(dd.EntityInformation) != 1 || dd.EntityInformation[0].Description == nil || dd.EntityInformation[0].Description.EntityAddress == nil {
				fail("notify/"+string(state)+"/entity-count", "peer%d: notification does not describe exactly one entity: %s", i, rig.JS(dd.EntityInformation))
				continue
			}
			ed := dd.EntityInformation[0].Description
			if c06KeyM(ed.EntityAddress.Entity) != c06Key(e.addr) || ed.EntityAddress.Device == nil || string(*ed.EntityAddress.Device) != rig.LocalAddr {
				fail("notify/"+string(state)+"/other-entity", "peer%d: notification describes %s, expected %s of %s", i, rig.JS(ed.EntityAddress), c06Key(e.addr), rig.LocalAddr)
			}
			if ed.LastStateChange == nil || *ed.LastStateChange != state {
				fail("notify/"+string(state)+"/lastStateChange", "peer%d: lastStateChange is %s", i, rig.JS(ed.LastStateChange))
			}
			if state == model.NetworkManagementStateChangeTypeAdded {
				if ed.EntityType == nil || *ed.EntityType != e.typ {
					fail("notify/added/entity-type", "peer%d: entity type %s, expected %s", i, rig.JS(ed.EntityType), e.typ)
				}
				var want, got []string
				for _, f := range e.feats {
					want = append(want, f.line(e))
				}
				for _, fi := range dd.FeatureInformation {
					l, ok := c07InfoLine(fi.Description)
					if !ok {
						fail("notify/added/incomplete-feature-description", "peer%d: %s", i, l)
					}
					got = append(got, l)
				}
				sort.Strings(want)
				sort.Strings(got)
				if strings.Join(want, "\n") != strings.Join(got, "\n") {
					fail("notify/added/features/"+c07DiffSig(want, got), "peer%d: the features of the added entity %s are not announced as built:\n%s", i, c06Key(e.addr), c06Diff(want, got))
				}
				c.Events(int64(len(got)))
			}
		}
	}

	// (a)+(b) discovery read
	checkRead := func(pi int) {
		p := peers[pi]
		p.Tap.Take()
		mc := p.Send(model.CmdClassifierTypeRead, p.NM(), rig.LNM, false, nil, model.CmdType{NodeManagementDetailedDiscoveryData: &model.NodeManagementDetailedDiscoveryDataType{}})
		res := rig.Classify(p.Tap.Take(), mc)
		c.Events(int64(len(res.All)))
		if res.Replies != 1 || res.Errors != 0 {
			fail("read/not-one-reply", "discovery read of peer%d: %s", pi, res)
			return
		}
		reads++
		var dd *model.NodeManagementDetailedDiscoveryDataType
		for _, d := range res.All {
			if len(d.Payload.Cmd) == 1 && d.Payload.Cmd[0].NodeManagementDetailedDiscoveryData != nil {
				dd = d.Payload.Cmd[0].NodeManagementDetailedDiscoveryData
			}
		}
		if dd == nil {
			fail("read/reply-without-discovery-data", "discovery read of peer%d: %s", pi, rig.JS(res.All))
			return
		}
		// entities
		var wantE, gotE []string
		wantE = append(wantE, fmt.Sprintf("%s:[0] type=%s", rig.LocalAddr, model.EntityTypeTypeDeviceInformation))
		for _, e := range present() {
			wantE = append(wantE, fmt.Sprintf("%s:%s type=%s", rig.LocalAddr, c06Key(e.addr), e.typ))
		}
		for _, ei := range dd.EntityInformation {
			if ei.Description == nil || ei.Description.EntityAddress == nil || ei.Description.EntityAddress.Device == nil || ei.Description.EntityType == nil {
				fail("read/incomplete-entity-description", "%s", rig.JS(ei))
				continue
			}
			gotE = append(gotE, fmt.Sprintf("%s:%s type=%s", *ei.Description.EntityAddress.Device, c06KeyM(ei.Description.EntityAddress.Entity), *ei.Description.EntityType))
		}
		sort.Strings(wantE)
		sort.Strings(gotE)
		if strings.Join(wantE, "\n") != strings.Join(gotE, "\n") {
			fail("read/entities", "announced entities differ from the local entities:\n%s", c06Diff(wantE, gotE))
		}
		// features
		byAddr := map[string]api.FeatureLocalInterface{}
		var want, got []string
		if e0 := local.Entity(spine.DeviceInformationAddressEntity); e0 != nil {
			for _, f := range e0.Features() {
				want = append(want, c07ApiLine(f))
				byAddr[f.Address().String()] = f
			}
		}
		for _, e := range present() {
			for _, f := range e.feats {
				want = append(want, f.line(e))
				byAddr[rig.FA(rig.LocalAddr, e.addr, f.id).String()] = f.obj
			}
		}
		for _, fi := range dd.FeatureInformation {
			l, ok := c07InfoLine(fi.Description)
			if !ok {
				fail("read/incomplete-feature-description", "%s", l)
				continue
			}
			got = append(got, l)
			// (b) the announced address resolves to that feature
			a := fi.Description.FeatureAddress
			res := local.FeatureByAddress(a)
			wantObj, known := byAddr[a.String()]
			switch {
			case rig.IsNil(res):
				fail("resolve/announced-address-does-not-resolve", "FeatureByAddress(%s) is nil", a.String())
			case known && res != wantObj:
				fail("resolve/announced-address-resolves-to-other-feature", "FeatureByAddress(%s) returns the feature %s %s/%s", a.String(), res.Address().String(), res.Type(), res.Role())
			case res.Type() != *fi.Description.FeatureType || res.Role() != *fi.Description.Role:
				fail("resolve/announced-address-resolves-to-other-feature", "FeatureByAddress(%s) is %s/%s, announced as %s/%s", a.String(), res.Type(), res.Role(), *fi.Description.FeatureType, *fi.Description.Role)
			}
		}
		sort.Strings(want)
		sort.Strings(got)
		c.Events(int64(len(got) + len(gotE)))
		if strings.Join(want, "\n") != strings.Join(got, "\n") {
			fail("read/features/"+c07DiffSig(want, got), "announced features differ from the tree built through the API:\n%s", c06Diff(want, got))
		}
		if !c.Failed() {
			resolveAPI(fmt.Sprintf("after the discovery read of peer%d", pi))
		}
	}

	addTwin = func(old *c07RE, how string) {
		e := makeTwin(old)
		ents = append(ents, e)
		twins++
		for _, p := range peers {
			p.Tap.Take()
		}
		local.AddEntity(e.obj)
		e.present = true
		trace = append(trace, fmt.Sprintf("AddEntity %s (the new object %q)", c06Key(e.addr), e.tag))
		kinds = append(kinds, fmt.Sprintf("%s%d", how, len(e.feats)))
		checkNotify(e, model.NetworkManagementStateChangeTypeAdded)
		checkFeatures(e)
		notesAdd++
		checkResolve("after AddEntity of a new object for " + c06Key(e.addr))
	}

	nOps := 12 + r.Intn(9)
	for step := 0; step < nOps && !c.Failed(); step++ {
		ps, ab := present(), absent()
		op := r.Intn(20)
		switch {
		case (op < 4 || len(ps) == 0) && len(ps) < 4: // new entity, built completely, then added
			var addr []uint
			for _, i := range r.Perm(len(c07EntDom)) {
				if !addrInUse(c07EntDom[i]) {
					addr = c07EntDom[i]
					break
				}
			}
			e := &c07RE{addr: addr, typ: c07EntTypes[r.Intn(len(c07EntTypes))], handed: map[uint]bool{}}
			e.obj = spine.NewEntityLocal(local, e.typ, spine.NewAddressEntityType(addr), 4*time.Second)
			for _, x := range ents {
				if c06Key(x.addr) == c06Key(addr) {
					c.Count("new_entities_built_for_the_address_of_a_removed_entity_(other_features_under_the_same_numbers)", 1)
					break
				}
			}
			ents = append(ents, e)
			trace = append(trace, fmt.Sprintf("new entity %s type %s", c06Key(addr), e.typ))
			addProbe(e)
			for n := 1 + r.Intn(5); n > 0; n-- {
				if t, ro, ok := freshPair(e); ok {
					newFeature(e, t, ro)
				}
			}
			if r.Intn(3) == 0 {
				e.obj.AddUseCaseSupport(model.UseCaseActorTypeCEM, model.UseCaseNameTypeLimitationOfPowerConsumption, "1.0.0", "release", true, []model.UseCaseScenarioSupportType{1, 2})
				trace = append(trace, "  use case support added")
			}
			for _, p := range peers {
				p.Tap.Take()
			}
			local.AddEntity(e.obj)
			e.present = true
			trace = append(trace, fmt.Sprintf("AddEntity %s", c06Key(addr)))
			kinds = append(kinds, fmt.Sprintf("add%d", len(e.feats)))
			checkNotify(e, model.NetworkManagementStateChangeTypeAdded)
			checkFeatures(e)
			notesAdd++
			checkResolve("after AddEntity " + c06Key(e.addr))
		case op < 7 && len(ps) > 0: // remove entity
			e := ps[r.Intn(len(ps))]
			// three removals in four are preceded by a lookup of every address in both forms (features added since the
			// last entity change have not been looked up yet), the fourth is not (whatever was looked up earlier)
			if aux.Intn(4) > 0 {
				resolveAPI("before RemoveEntity " + c06Key(e.addr))
				c.Count("removals_preceded_by_lookups_of_every_address_in_both_forms", 1)
			}
			for _, p := range peers {
				p.Tap.Take()
			}
			local.RemoveEntity(e.obj)
			e.present = false
			trace = append(trace, fmt.Sprintf("RemoveEntity %s (entity object %q)", c06Key(e.addr), e.tag))
			kinds = append(kinds, "remove")
			checkNotify(e, model.NetworkManagementStateChangeTypeRemoved)
			notesRem++
			checkResolve("after RemoveEntity " + c06Key(e.addr))
			// one removal in four is followed at once by the addition of a NEW entity object with the same address and
			// feature numbers (a device that is unplugged and plugged in again)
			if aux.Intn(4) == 0 && !c.Failed() {
				addTwin(e, "replug-new-object")
			}
		case op < 8 && len(ab) > 0: // re-add a removed entity object (its numbering continues)
			e := ab[r.Intn(len(ab))]
			if addrInUse(e.addr) || len(ps) >= 4 {
				continue
			}
			if aux.Intn(2) == 0 {
				// not the removed object again, but a NEW entity object with the same address and feature numbers
				addTwin(e, "readd-new-object")
				continue
			}
			for _, p := range peers {
				p.Tap.Take()
			}
			local.AddEntity(e.obj)
			e.present = true
			trace = append(trace, fmt.Sprintf("AddEntity %s (again, entity object %q)", c06Key(e.addr), e.tag))
			kinds = append(kinds, "readd")
			checkNotify(e, model.NetworkManagementStateChangeTypeAdded)
			notesAdd++
			checkResolve("after AddEntity (again) " + c06Key(e.addr))
		case op < 10 && len(ents) > 0: // a further feature on an existing entity (added or not)
			e := ents[r.Intn(len(ents))]
			if t, ro, ok := freshPair(e); ok && len(e.feats) < 8 { // 7 + the probe feature
				newFeature(e, t, ro)
				kinds = append(kinds, "feature")
				checkFeatures(e)
			}
		case op < 11 && len(ents) > 0: // asking again yields the same feature
			e := ents[r.Intn(len(ents))]
			if len(e.feats) > 0 {
				f := e.feats[r.Intn(len(e.feats))]
				got := e.obj.GetOrAddFeature(f.typ, f.role)
				trace = append(trace, fmt.Sprintf("entity %s: GetOrAddFeature(%s,%s) again", c06Key(e.addr), f.typ, f.role))
				kinds = append(kinds, "again")
				if got != f.obj {
					fail("features/asking-again-yields-other-feature", "GetOrAddFeature(%s,%s) returned feature number %d, first call returned number %d", f.typ, f.role, uint(*got.Address().Feature), f.id)
				}
				if got2 := e.obj.FeatureOfTypeAndRole(f.typ, f.role); got2 != f.obj {
					fail("features/asking-again-yields-other-feature", "FeatureOfTypeAndRole(%s,%s) does not return the feature created first", f.typ, f.role)
				}
				checkFeatures(e)
				c.Events(1)
			}
		case op < 12 && len(ents) > 0: // a further function on an existing server feature
			e := ents[r.Intn(len(ents))]
			for _, i := range r.Perm(len(e.feats)) {
				if f := e.feats[i]; f.role == model.RoleTypeServer {
					if s := addFunctions(e, f, 1+r.Intn(2)); s != "" {
						trace = append(trace, fmt.Sprintf("entity %s feature %d: AddFunctionType %s", c06Key(e.addr), f.id, s))
						kinds = append(kinds, "function")
					}
					break
				}
			}
		case op < 13 && len(ents) > 0: // description change
			e := ents[r.Intn(len(ents))]
			if len(e.feats) > 0 {
				f := e.feats[r.Intn(len(e.feats))]
				s := fmt.Sprintf("desc-%d", r.Intn(10000))
				f.obj.SetDescriptionString(s)
				f.desc = &s
				trace = append(trace, fmt.Sprintf("entity %s feature %d: SetDescriptionString(%q)", c06Key(e.addr), f.id, s))
				kinds = append(kinds, "describe")
			}
		case op < 14 && len(ents) > 0: // a feature number taken without creating a feature
			e := ents[r.Intn(len(ents))]
			id := e.obj.NextFeatureId()
			trace = append(trace, fmt.Sprintf("entity %s: NextFeatureId() = %d", c06Key(e.addr), id))
			kinds = append(kinds, "nextid")
			hand(e, id, "NextFeatureId")
			c.Events(1)
		case op < 15: // peer2 toggles its NodeManagement subscription
			p := peers[2]
			p.Tap.Take()
			var mc model.MsgCounterType
			if subscribedNM[2] {
				mc = p.Unsubscribe(p.NM(), rig.LNM)
			} else {
				mc = p.Subscribe(p.NM(), rig.LNM, model.FeatureTypeTypeNodeManagement)
			}
			if res := rig.Classify(p.Tap.Take(), mc); res.Success != 1 {
				c.Inconclusive("NodeManagement (un)subscription of peer2 was not acknowledged (%s)", res)
				return
			}
			subscribedNM[2] = !subscribedNM[2]
			trace = append(trace, fmt.Sprintf("peer2 NodeManagement subscription -> %v", subscribedNM[2]))
			kinds = append(kinds, "toggle")
		default:
			pi := r.Intn(3)
			trace = append(trace, fmt.Sprintf("peer%d reads nodeManagementDetailedDiscoveryData", pi))
			kinds = append(kinds, "read")
			checkRead(pi)
		}
	}
	if !c.Failed() {
		trace = append(trace, "final read")
		checkRead(0)
	}

	h := fnv.New64a()
	h.Write([]byte(strings.Join(kinds, ";")))
	c.Shape(fmt.Sprintf("%x mute=%v", h.Sum64(), mute))
	c.NonTrivial(reads >= 2 && notesAdd >= 1 && notesRem >= 1)
	c.Count("discovery_reads", int64(reads))
	c.Count("AddEntity_notifications_checked", int64(notesAdd))
	c.Count("RemoveEntity_notifications_checked", int64(notesRem))
	nf := 0
	for _, e := range ents {
		nf += len(e.feats)
	}
	c.Count("features_created", int64(nf))
	c.Count("entities_created", int64(len(ents)))
	c.Count("re_additions_as_a_new_entity_object_with_the_same_address_and_feature_numbers", int64(twins))
	c.Count("FeatureByAddress_resolutions_judged_(with_and_without_device_part)", int64(resolutions))
	c.Count("probe_reads_judged_(addressDestination_with_and_without_device_part)", int64(probeReads))
	if len(trace) > 30 {
		trace = trace[:30]
	}
	c.Sample(map[string]any{"first_steps": trace, "operation_kinds": kinds, "mute_first_subscriber": mute})
}

// ---- concurrent part

func c07Conc(c *rig.Ctx) {
	r := c.Rand
	w := rig.NewWorld(c.Tag())
	defer w.Close()
	const G = 8
	point := "GetOrAddFeature.afterMiss"

	e := spine.NewEntityLocal(w.Local, model.EntityTypeTypeCEM, spine.NewAddressEntityType([]uint{1}), 4*time.Second)
	if r.Intn(2) == 0 {
		w.Local.AddEntity(e)
	}
	type pair struct {
		t  model.FeatureTypeType
		ro model.RoleType
	}
	nPairs := 2 + r.Intn(2)
	var pairs []pair
	for _, i := range r.Perm(len(c07Types))[:nPairs] {
		pairs = append(pairs, pair{c07Types[i], []model.RoleType{model.RoleTypeClient, model.RoleTypeServer}[r.Intn(2)]})
	}
	if r.Intn(3) == 0 { // same type in both roles
		pairs[1] = pair{pairs[0].t, model.RoleTypeServer}
		pairs[0].ro = model.RoleTypeClient
	}
	// some pairs may exist beforehand (their callers never reach the window)
	pre := 0
	if r.Intn(4) == 0 {
		pre = 1
	}
	before := map[pair]api.FeatureLocalInterface{}
	for _, p := range pairs[:pre] {
		before[p] = e.GetOrAddFeature(p.t, p.ro)
	}
	// every goroutine starts with a pair that does not exist yet, so all of them reach the window
	missing := pairs[pre:]
	k := []int{2, 3, 4, G}[r.Intn(4)]

	h := rig.InstallHooks()
	defer h.Uninstall()
	h.SetMaxWait(10 * time.Second)
	h.Rendezvous(point, k)

	type res struct {
		p   pair
		obj api.FeatureLocalInterface
	}
	var mu sync.Mutex
	var results []res
	var ids []uint
	plan := make([][]int, G) // per goroutine: indexes into pairs, -1 = NextFeatureId
	for g := 0; g < G; g++ {
		// first call: a missing pair, half of the time the same one for everybody
		if r.Intn(2) == 0 {
			plan[g] = append(plan[g], pre)
		} else {
			plan[g] = append(plan[g], pre+(g+r.Intn(2))%len(missing))
		}
		for n := 2 + r.Intn(4); n > 0; n-- {
			if r.Intn(3) == 0 {
				plan[g] = append(plan[g], -1)
			} else {
				plan[g] = append(plan[g], r.Intn(len(pairs)))
			}
		}
		for i := range pairs { // finally everybody asks for every pair
			plan[g] = append(plan[g], i)
		}
	}
	start := make(chan struct{})
	ok, panicked := rig.Guard(60*time.Second, func() {
		var wg sync.WaitGroup
		for g := 0; g < G; g++ {
			wg.Add(1)
			go func(g int) {
				defer wg.Done()
				h.Role(fmt.Sprintf("g%d", g))
				<-start
				for _, x := range plan[g] {
					if x < 0 {
						id := e.NextFeatureId()
						mu.Lock()
						ids = append(ids, id)
						mu.Unlock()
						continue
					}
					f := e.GetOrAddFeature(pairs[x].t, pairs[x].ro)
					mu.Lock()
					results = append(results, res{pairs[x], f})
					mu.Unlock()
				}
			}(g)
		}
		close(start)
		wg.Wait()
	})
	if panicked != "" {
		c.Violate("conc/panic", "%s", panicked)
		return
	}
	if !ok {
		c.Inconclusive("concurrent GetOrAddFeature calls did not return within 60s")
		return
	}
	forced := h.Forced(point)
	tr := h.Trace()

	desc := fmt.Sprintf("pairs=%v existing-before=%d rendezvous k=%d forced=%v", pairs, pre, k, forced)
	// same object for the same (type, role) to all callers
	first := map[pair]api.FeatureLocalInterface{}
	for p, f := range before {
		first[p] = f
	}
	for _, x := range results {
		c.Events(1)
		if rig.IsNil(x.obj) {
			c.Violate("conc/nil-feature", "%s: GetOrAddFeature(%s,%s) returned nil", desc, x.p.t, x.p.ro)
			continue
		}
		if x.obj.Type() != x.p.t || x.obj.Role() != x.p.ro {
			c.Violate("conc/feature-of-other-type-or-role", "%s: GetOrAddFeature(%s,%s) returned %s/%s", desc, x.p.t, x.p.ro, x.obj.Type(), x.obj.Role())
		}
		if f0, seen := first[x.p]; !seen {
			first[x.p] = x.obj
		} else if f0 != x.obj {
			c.Violate("conc/different-objects-for-one-type-and-role", "%s: callers of GetOrAddFeature(%s,%s) received different features (numbers %d and %d)", desc, x.p.t, x.p.ro,
				uint(*f0.Address().Feature), uint(*x.obj.Address().Feature))
		}
	}
	// every feature handed to a caller is a feature of the entity (not an orphan)
	for _, x := range results {
		if rig.IsNil(x.obj) {
			continue
		}
		if got := e.FeatureOfAddress(x.obj.Address().Feature); got != x.obj {
			c.Violate("conc/returned-feature-is-not-in-the-entity", "%s: the feature number %d returned by GetOrAddFeature(%s,%s) does not resolve to that feature through the entity", desc, uint(*x.obj.Address().Feature), x.p.t, x.p.ro)
			break
		}
	}
	// Features() holds one per (type, role), numbers are unique, also against NextFeatureId results
	seenPair := map[pair]int{}
	seenId := map[uint]string{}
	fs := e.Features()
	for _, f := range fs {
		p := pair{f.Type(), f.Role()}
		seenPair[p]++
		id := uint(*f.Address().Feature)
		if prev, dup := seenId[id]; dup {
			c.Violate("conc/two-features-share-a-number", "%s: number %d is used by %s and %s/%s", desc, id, prev, f.Type(), f.Role())
		}
		seenId[id] = string(f.Type()) + "/" + string(f.Role())
		if got := e.FeatureOfAddress(f.Address().Feature); got != f {
			c.Violate("conc/number-resolves-to-other-feature", "%s: FeatureOfAddress(%d) does not return the feature carrying that number", desc, id)
		}
	}
	for p, n := range seenPair {
		if n != 1 {
			c.Violate("conc/two-features-of-one-type-and-role", "%s: Features() holds %d features %s/%s", desc, n, p.t, p.ro)
		}
	}
	if len(fs) != len(pairs) {
		c.Violate("conc/feature-count", "%s: Features() holds %d features for %d distinct (type, role) pairs", desc, len(fs), len(pairs))
	}
	for _, id := range ids {
		c.Events(1)
		if prev, dup := seenId[id]; dup {
			c.Violate("conc/feature-number-handed-out-twice", "%s: NextFeatureId returned %d which is also used by %s", desc, id, prev)
		}
		seenId[id] = "NextFeatureId"
	}
	c.Events(int64(len(fs)))
	if c.Failed() {
		c.Witness(map[string]any{"config": desc, "plan": plan, "hook_trace": tr})
	}

	if forced {
		c.Count("windows_forced", 1)
	} else {
		c.Count("windows_not_forced", 1)
	}
	var arrivals []string
	for _, t := range tr {
		if strings.HasSuffix(t, "@"+point) {
			arrivals = append(arrivals, strings.TrimSuffix(t, "@"+point))
		}
	}
	// the window is only interesting if two of the k goroutines held in it want the same (type, role)
	same := false
	if forced && len(arrivals) >= k {
		seen := map[int]bool{}
		for _, role := range arrivals[:k] {
			var g int
			fmt.Sscanf(role, "g%d", &g)
			if seen[plan[g][0]] {
				same = true
			}
			seen[plan[g][0]] = true
		}
	}
	if same {
		c.Count("windows_forced_with_two_callers_of_one_pair", 1)
	}
	hh := fnv.New64a()
	hh.Write([]byte(strings.Join(arrivals, ",")))
	c.Seen("arrival_orders", fmt.Sprintf("%x", hh.Sum64()))
	c.Count("goroutines_inside_window", int64(len(arrivals)))
	c.Shape(fmt.Sprintf("k=%d pairs=%d pre=%d order=%x", k, nPairs, pre, hh.Sum64()))
	c.NonTrivial(same)
	c.Sample(map[string]any{"config": desc, "arrivals_at_hook": arrivals, "features_after": len(fs), "next_feature_ids": ids})
}

// ---- discovery reads concurrent with entity removal / addition

// c07ReadConc: "at every moment the reply lists exactly the current entities". A peer goroutine reads the
// detailed discovery data in a loop while the application removes and re-adds entities; the calls are
// stamped with the rig's logical clock and every reply must equal one of the entity sets that were
// current at some point between the call and the return of its read.
func c07ReadConc(c *rig.Ctx) {
	r := c.Rand
	w := rig.NewWorld(c.Tag())
	defer w.Close()
	local := w.Local
	nEnt := 4 + r.Intn(3)
	type ent struct {
		obj   *spine.EntityLocal
		key   string
		feats []string // announced lines of its features (static during the case)
	}
	var ents []*ent
	for i := 0; i < nEnt; i++ {
		addr := []uint{uint(i + 1)}
		e := &ent{obj: spine.NewEntityLocal(local, c07EntTypes[r.Intn(len(c07EntTypes))], spine.NewAddressEntityType(addr), 4*time.Second), key: c06Key(addr)}
		for _, ti := range r.Perm(len(c07Types))[:1+r.Intn(2)] {
			f := e.obj.GetOrAddFeature(c07Types[ti], model.RoleTypeServer)
			if fns := c06FnsOf(c07Types[ti]); len(fns) > 0 && fns[0].Fn != model.FunctionTypeDeviceDiagnosisHeartbeatData {
				f.AddFunctionType(fns[0].Fn, true, r.Intn(2) == 0)
			}
			e.feats = append(e.feats, c07ApiLine(f))
		}
		sort.Strings(e.feats)
		local.AddEntity(e.obj)
		ents = append(ents, e)
	}
	p := w.AddPeer(0)
	p.Ctr = 100000
	p.Announce([]rig.FS{rig.NMFS})
	p.Tap.Take()

	// the sequence of entity sets: state i is current after i operations have taken effect
	present := map[string]bool{}
	for _, e := range ents {
		present[e.key] = true
	}
	render := func() string {
		var ks []string
		for k, v := range present {
			if v {
				ks = append(ks, k)
			}
		}
		sort.Strings(ks)
		return strings.Join(ks, " ")
	}
	type opRec struct {
		desc       string
		start, end int64
	}
	nOps := 60 + r.Intn(80)
	states := []string{render()}
	type planned struct {
		e      *ent
		remove bool
	}
	var plan []planned
	order := append([]*ent(nil), ents...) // order of the stack's list, to avoid removing the last one
	for len(plan) < nOps {
		// candidates: present entities that are not the last of the list; absent entities to re-add
		var rm, add []*ent
		for i, e := range order {
			if i < len(order)-1 {
				rm = append(rm, e)
			}
		}
		for _, e := range ents {
			if !present[e.key] {
				add = append(add, e)
			}
		}
		if len(rm) > 0 && (len(add) == 0 || len(order) > 3 && r.Intn(2) == 0) {
			e := rm[r.Intn(len(rm))]
			plan = append(plan, planned{e, true})
			present[e.key] = false
			for i, x := range order {
				if x == e {
					order = append(append([]*ent(nil), order[:i]...), order[i+1:]...)
					break
				}
			}
		} else if len(add) > 0 {
			e := add[r.Intn(len(add))]
			plan = append(plan, planned{e, false})
			present[e.key] = true
			order = append(order, e)
		} else {
			break
		}
		states = append(states, render())
	}
	ops := make([]opRec, len(plan))

	const nReads = 40
	type readRec struct {
		start, end int64
		mc         model.MsgCounterType
	}
	reads := make([]readRec, nReads)
	startC := make(chan struct{})
	var wg sync.WaitGroup
	ok, panicked := rig.Guard(60*time.Second, func() {
		wg.Add(2)
		go func() { // the application
			defer wg.Done()
			<-startC
			for i, pl := range plan {
				ops[i].start = rig.Seq()
				if pl.remove {
					ops[i].desc = "RemoveEntity " + pl.e.key
					local.RemoveEntity(pl.e.obj)
				} else {
					ops[i].desc = "AddEntity " + pl.e.key
					local.AddEntity(pl.e.obj)
				}
				ops[i].end = rig.Seq()
				runtime.Gosched()
			}
		}()
		go func() { // the peer
			defer wg.Done()
			<-startC
			for i := range reads {
				reads[i].start = rig.Seq()
				reads[i].mc = p.Send(model.CmdClassifierTypeRead, p.NM(), rig.LNM, false, nil, model.CmdType{NodeManagementDetailedDiscoveryData: &model.NodeManagementDetailedDiscoveryDataType{}})
				reads[i].end = rig.Seq()
			}
		}()
		close(startC)
		wg.Wait()
	})
	if panicked != "" {
		c.Violate("read-conc/panic", "%s", panicked)
		return
	}
	if !ok {
		c.Inconclusive("concurrent reads / entity changes did not return within 60s")
		return
	}
	if n := p.PanicCount(); n > 0 {
		c.Violate("read-conc/panic", "%s", p.Panics[n-1])
		return
	}
	outs := p.Tap.Take()
	featsOf := map[string][]string{}
	for _, e := range ents {
		featsOf[e.key] = e.feats
	}
	overlapped := 0
	for i, rd := range reads {
		res := rig.Classify(outs, rd.mc)
		c.Events(1)
		if res.Replies != 1 || res.Errors != 0 || len(res.All[0].Payload.Cmd) != 1 || res.All[0].Payload.Cmd[0].NodeManagementDetailedDiscoveryData == nil {
			c.Violate("read-conc/not-one-reply", "read %d: %s", i, res)
			continue
		}
		dd := res.All[0].Payload.Cmd[0].NodeManagementDetailedDiscoveryData
		// states that were current at some point of [start, end]: operations that ended before the read
		// started have taken effect, operations that started after it ended have not
		lo, hi := 0, 0
		for _, o := range ops {
			if o.end < rd.start {
				lo++
			}
			if o.start < rd.end {
				hi++
			}
		}
		if hi > lo {
			overlapped++
		}
		var got []string
		gotFeats := map[string][]string{}
		for _, ei := range dd.EntityInformation {
			if ei.Description == nil || ei.Description.EntityAddress == nil {
				c.Violate("read-conc/incomplete-entity-description", "%s", rig.JS(ei))
				continue
			}
			if k := c06KeyM(ei.Description.EntityAddress.Entity); k != "[0]" {
				got = append(got, k)
			}
		}
		for _, fi := range dd.FeatureInformation {
			if l, okL := c07InfoLine(fi.Description); okL {
				k := c06KeyM(fi.Description.FeatureAddress.Entity)
				gotFeats[k] = append(gotFeats[k], l)
			}
		}
		sort.Strings(got)
		g := strings.Join(got, " ")
		match := false
		for s := lo; s <= hi && s < len(states); s++ {
			if states[s] == g {
				match = true
			}
		}
		if !match {
			var during []string
			for _, o := range ops {
				if !(o.end < rd.start) && o.start < rd.end {
					during = append(during, o.desc)
				}
			}
			dup := ""
			for j := 1; j < len(got); j++ {
				if got[j] == got[j-1] {
					dup = " (an entity is listed twice)"
				}
			}
			c.Violate("read-conc/reply-matches-no-state-of-the-device", "read %d announced the entities {%s}%s; the device had, between the call and the return of that read, one of %q (operations overlapping the read: %v)",
				i, g, dup, states[lo:min(hi+1, len(states))], during)
			c.Witness(map[string]any{"operations": ops, "states": states, "read": i})
			continue
		}
		for _, k := range got {
			fs := gotFeats[k]
			sort.Strings(fs)
			if strings.Join(fs, "\n") != strings.Join(featsOf[k], "\n") {
				c.Violate("read-conc/features-of-announced-entity", "read %d: entity %s announced with\n%s", i, k, c06Diff(featsOf[k], fs))
			}
		}
	}
	c.Count("concurrent_reads", nReads)
	c.Count("reads_overlapping_an_entity_change", int64(overlapped))
	c.Count("entity_changes_during_reads", int64(len(plan)))
	var kinds []string
	for _, pl := range plan {
		if pl.remove {
			kinds = append(kinds, "r"+pl.e.key)
		} else {
			kinds = append(kinds, "a"+pl.e.key)
		}
	}
	h := fnv.New64a()
	h.Write([]byte(strings.Join(kinds, "")))
	c.Shape(fmt.Sprintf("n=%d ops=%x overlapped=%d", nEnt, h.Sum64(), overlapped))
	c.NonTrivial(overlapped > 0)
	c.Sample(map[string]any{"entities": nEnt, "operations": kinds, "reads": nReads, "reads_overlapping_an_operation": overlapped})
}

// ---- reads placed between an entity notification and the return of AddEntity / RemoveEntity

// c07WinPlan is what the reader goroutine of a reactive peer does once it has seen an entity notification
// (drawn by the case's goroutine from c.Rand before the call, so the reader draws nothing itself).
type c07WinPlan struct {
	featAddr *model.FeatureAddressType // a feature of the entity that is about to be added (nil: no feature read)
	featFn   model.FunctionType
}

// c07WinEv is one entity notification as the slow writer saw it.
type c07WinEv struct {
	state model.NetworkManagementStateChangeType
	ent   string                      // "[1,1]"
	seq   int64                       // logical stamp taken after the notification was handed to the connection
	anns  []*model.FeatureAddressType // the feature addresses it announces
	done  chan struct{}
}

// c07Reaction is what the reader goroutine did and saw inside one window.
type c07Reaction struct {
	ev                *c07WinEv
	discMc, featMc    model.MsgCounterType
	discCall, discRet int64
	feat              *c07WinPlan
	unresolved        []string // announced addresses that FeatureByAddress did not resolve to a feature with that address
	resolved          int
}

// c07ReactWriter is the connection writer of a "reactive" peer. Every datagram is handed to the peer's ordinary
// rig.Tap first. If the datagram is a detailed discovery notification describing one entity as added or
// removed and the writer is armed, the write then stays parked (as a socket write under back-pressure does)
// until the peer's reader goroutine has finished its reaction, bounded by max. An expired wait is counted and
// never judged.
type c07ReactWriter struct {
	tap  *rig.Tap
	max  time.Duration
	ev   chan *c07WinEv
	quit chan struct{}
	gone chan struct{}

	mu                   sync.Mutex
	armed                bool
	plan                 c07WinPlan
	dispatched, finished int
	expired              int
	recs                 []*c07Reaction
}

func newC07ReactWriter() *c07ReactWriter {
	return &c07ReactWriter{max: 20 * time.Second, ev: make(chan *c07WinEv, 1), quit: make(chan struct{}), gone: make(chan struct{})}
}

func (x *c07ReactWriter) WriteShipMessageWithPayload(m []byte) {
	x.tap.WriteShipMessageWithPayload(m) // the notification is on the connection from here on
	x.mu.Lock()
	armed := x.armed
	x.mu.Unlock()
	if !armed {
		return
	}
	var d model.Datagram
	if json.Unmarshal(m, &d) != nil {
		return
	}
	h, pl := d.Datagram.Header, d.Datagram.Payload
	if h.CmdClassifier == nil || *h.CmdClassifier != model.CmdClassifierTypeNotify || len(pl.Cmd) != 1 || pl.Cmd[0].NodeManagementDetailedDiscoveryData == nil {
		return
	}
	dd := pl.Cmd[0].NodeManagementDetailedDiscoveryData
	if len(dd.EntityInformation) != 1 || dd.EntityInformation[0].Description == nil || dd.EntityInformation[0].Description.EntityAddress == nil || dd.EntityInformation[0].Description.LastStateChange == nil {
		return
	}
	ed := dd.EntityInformation[0].Description
	if *ed.LastStateChange != model.NetworkManagementStateChangeTypeAdded && *ed.LastStateChange != model.NetworkManagementStateChangeTypeRemoved {
		return
	}
	ev := &c07WinEv{state: *ed.LastStateChange, ent: c06KeyM(ed.EntityAddress.Entity), seq: rig.Seq(), done: make(chan struct{})}
	for _, fi := range dd.FeatureInformation {
		if fi.Description != nil && fi.Description.FeatureAddress != nil {
			ev.anns = append(ev.anns, fi.Description.FeatureAddress)
		}
	}
	x.mu.Lock()
	x.dispatched++
	x.mu.Unlock()
	t := time.NewTimer(x.max)
	defer t.Stop()
	select {
	case x.ev <- ev:
	case <-t.C:
		x.mu.Lock()
		x.expired++
		x.finished++ // nobody will react to this one
		x.mu.Unlock()
		return
	}
	select {
	case <-ev.done:
	case <-t.C:
		x.mu.Lock()
		x.expired++
		x.mu.Unlock()
	}
}

func (x *c07ReactWriter) arm(pl c07WinPlan) {
	x.mu.Lock()
	x.armed, x.plan = true, pl
	x.mu.Unlock()
}

func (x *c07ReactWriter) disarm() { x.mu.Lock(); x.armed = false; x.mu.Unlock() }

func (x *c07ReactWriter) idle() bool {
	x.mu.Lock()
	defer x.mu.Unlock()
	return x.dispatched == x.finished
}

func (x *c07ReactWriter) take() (recs []*c07Reaction, expired int) {
	x.mu.Lock()
	defer x.mu.Unlock()
	recs, expired = x.recs, x.expired
	x.recs, x.expired = nil, 0
	return
}

// reader is the peer's connection-reader goroutine: messages of this connection are delivered by it (inside a
// window) or by the case's goroutine (outside of any window), never by both at once.
func (x *c07ReactWriter) reader(p *rig.Peer, local *spine.DeviceLocal) {
	defer close(x.gone)
	for {
		select {
		case <-x.quit:
			return
		case ev := <-x.ev:
			x.mu.Lock()
			pl := x.plan
			x.mu.Unlock()
			rec := &c07Reaction{ev: ev}
			// 1. the complete detailed discovery data
			rec.discCall = rig.Seq()
			rec.discMc = p.Send(model.CmdClassifierTypeRead, p.NM(), rig.LNM, false, nil, model.CmdType{NodeManagementDetailedDiscoveryData: &model.NodeManagementDetailedDiscoveryDataType{}})
			rec.discRet = rig.Seq()
			if ev.state == model.NetworkManagementStateChangeTypeAdded {
				// 2. every announced address resolves
				for _, a := range ev.anns {
					f := local.FeatureByAddress(a)
					if rig.IsNil(f) {
						rec.unresolved = append(rec.unresolved, a.String()+" -> nil")
					} else if f.Address().String() != a.String() {
						rec.unresolved = append(rec.unresolved, a.String()+" -> "+f.Address().String())
					} else {
						rec.resolved++
					}
					// the same address without its (optional) device part is the same feature
					if f2 := local.FeatureByAddress(rkStripDevice(a)); !rig.IsNil(f) && f2 != f {
						if rig.IsNil(f2) {
							rec.unresolved = append(rec.unresolved, a.String()+" without device part -> nil")
						} else {
							rec.unresolved = append(rec.unresolved, a.String()+" without device part -> another feature object ("+f2.Address().String()+")")
						}
					}
				}
				// 3. a read addressed to a feature of the announced entity
				if pl.featAddr != nil {
					cp := pl
					rec.feat = &cp
					rec.featMc = p.Send(model.CmdClassifierTypeRead, p.NM(), pl.featAddr, false, nil, c07ReadCmd(pl.featFn))
				}
			}
			x.mu.Lock()
			x.recs = append(x.recs, rec)
			x.finished++
			x.mu.Unlock()
			close(ev.done)
		}
	}
}

func c07ReadCmd(fn model.FunctionType) model.CmdType {
	for _, fi := range rig.CmdFields() {
		if fi.Fn == fn {
			return rig.CmdFor(fn, reflect.New(fi.T).Interface())
		}
	}
	panic("harness: no command field for function " + string(fn))
}

// c07RespClass renders how a request was answered: reply / success / error:<number> / none / several.
func c07RespClass(res rig.Resp) string {
	switch {
	case len(res.All) == 0:
		return "none"
	case len(res.All) > 1:
		return fmt.Sprintf("several(%d)", len(res.All))
	case res.Replies == 1:
		return "reply"
	case res.Success == 1:
		return "success"
	case res.Errors == 1:
		d := res.All[0]
		if len(d.Payload.Cmd) == 1 && d.Payload.Cmd[0].ResultData != nil && d.Payload.Cmd[0].ResultData.ErrorNumber != nil {
			s := fmt.Sprintf("error:%d", *d.Payload.Cmd[0].ResultData.ErrorNumber)
			if d.Payload.Cmd[0].ResultData.Description != nil {
				s += fmt.Sprintf("(%s)", *d.Payload.Cmd[0].ResultData.Description)
			}
			return s
		}
		return "error:?"
	}
	return "other"
}

func c07Window(c *rig.Ctx) {
	r := c.Rand
	w := rig.NewWorld(c.Tag())
	defer w.Close()
	local := w.Local

	type ent struct {
		obj     *spine.EntityLocal
		addr    []uint
		key     string
		typ     model.EntityTypeType
		feats   []api.FeatureLocalInterface
		fallbk  map[uint]model.FunctionType // per feature number: a function of its type (used when it has none added)
		present bool
	}
	var ents []*ent
	var trace, kinds []string
	newEntity := func() *ent {
		var addr []uint
		for _, i := range r.Perm(len(c07EntDom)) {
			used := false
			for _, e := range ents {
				if e.key == c06Key(c07EntDom[i]) {
					used = true
				}
			}
			if !used {
				addr = c07EntDom[i]
				break
			}
		}
		if addr == nil {
			return nil
		}
		e := &ent{addr: addr, key: c06Key(addr), typ: c07EntTypes[r.Intn(len(c07EntTypes))], fallbk: map[uint]model.FunctionType{}}
		e.obj = spine.NewEntityLocal(local, e.typ, spine.NewAddressEntityType(addr), 4*time.Second)
		for _, ti := range r.Perm(len(c07Types))[:1+r.Intn(3)] {
			ro := model.RoleTypeServer
			if r.Intn(4) == 0 {
				ro = model.RoleTypeClient
			}
			f := e.obj.GetOrAddFeature(c07Types[ti], ro)
			fns := c06FnsOf(c07Types[ti])
			if len(fns) > 0 {
				e.fallbk[uint(*f.Address().Feature)] = fns[0].Fn
			}
			if ro == model.RoleTypeServer {
				for _, fi := range r.Perm(len(fns)) {
					if len(f.Operations()) >= 2 || r.Intn(3) == 0 {
						break
					}
					if fns[fi].Fn != model.FunctionTypeDeviceDiagnosisHeartbeatData {
						f.AddFunctionType(fns[fi].Fn, r.Intn(3) > 0, r.Intn(2) == 0)
					}
				}
			}
			e.feats = append(e.feats, f)
		}
		ents = append(ents, e)
		return e
	}
	for n := r.Intn(3); n > 0; n-- { // entities that exist before anybody subscribes
		e := newEntity()
		local.AddEntity(e.obj)
		e.present = true
		trace = append(trace, fmt.Sprintf("AddEntity %s (%d features) before the peers connect", e.key, len(e.feats)))
	}

	// peers, all subscribed to NodeManagement; a seeded subset (at least one) is reactive
	nSub := 1 + r.Intn(3)
	forced := r.Intn(nSub)
	writers := make([]*c07ReactWriter, nSub)
	mask := ""
	for i := 0; i < nSub; i++ {
		var p *rig.Peer
		if i == forced || r.Intn(3) > 0 {
			x := newC07ReactWriter()
			p = xAddPeer(w, i, func(tap *rig.Tap) xWriter { x.tap = tap; return x })
			writers[i] = x
			go x.reader(p, local)
			defer func() { x.disarm(); close(x.quit); <-x.gone }()
			mask += "R"
		} else {
			p = w.AddPeer(i)
			mask += "p"
		}
		p.Ctr = uint64(i+1) * 100000
		p.Announce([]rig.FS{rig.NMFS})
		mc := p.Subscribe(p.NM(), rig.LNM, model.FeatureTypeTypeNodeManagement)
		if res := rig.Classify(p.Tap.Take(), mc); res.Success != 1 {
			c.Inconclusive("setup: NodeManagement subscription of peer%d was not acknowledged (%s)", i, res)
			return
		}
	}
	trace = append(trace, fmt.Sprintf("%d peers subscribed to NodeManagement (R = slow writer + reader goroutine, p = plain): %s", nSub, mask))

	fail := func(sig, format string, a ...any) {
		c.Violate(sig, "%s\n history so far (last is the failing step):\n   %s", fmt.Sprintf(format, a...), strings.Join(trace, "\n   "))
		c.Witness(map[string]any{"history": trace})
	}

	// reference rendering of the device tree
	wantTree := func() (wantE, wantF []string) {
		wantE = append(wantE, "[0]")
		if e0 := local.Entity(spine.DeviceInformationAddressEntity); e0 != nil {
			for _, f := range e0.Features() {
				wantF = append(wantF, c07ApiLine(f))
			}
		}
		for _, e := range ents {
			if e.present {
				wantE = append(wantE, e.key)
				for _, f := range e.feats {
					wantF = append(wantF, c07ApiLine(f))
				}
			}
		}
		sort.Strings(wantE)
		sort.Strings(wantF)
		return
	}
	replyTree := func(dd *model.NodeManagementDetailedDiscoveryDataType) (gotE, gotF []string) {
		for _, ei := range dd.EntityInformation {
			if ei.Description != nil && ei.Description.EntityAddress != nil {
				gotE = append(gotE, c06KeyM(ei.Description.EntityAddress.Entity))
			}
		}
		for _, fi := range dd.FeatureInformation {
			l, _ := c07InfoLine(fi.Description)
			gotF = append(gotF, l)
		}
		sort.Strings(gotE)
		sort.Strings(gotF)
		return
	}
	has := func(ks []string, k string) bool {
		for _, x := range ks {
			if x == k {
				return true
			}
		}
		return false
	}

	winAdded, winRemoved := 0, 0
	nOps := 5 + r.Intn(4)
	for step := 0; step < nOps && !c.Failed(); step++ {
		var ps, ab []*ent
		for _, e := range ents {
			if e.present {
				ps = append(ps, e)
			} else {
				ab = append(ab, e)
			}
		}
		var e *ent
		add := false
		switch op := r.Intn(10); {
		case op < 3 && len(ab) > 0 && len(ps) < 4:
			e, add = ab[r.Intn(len(ab))], true
			kinds = append(kinds, fmt.Sprintf("readd%d", len(e.feats)))
		case (op < 6 || len(ps) == 0) && len(ps) < 4 && len(ents) < len(c07EntDom):
			e, add = newEntity(), true
			kinds = append(kinds, fmt.Sprintf("add%d", len(e.feats)))
		case len(ps) > 0:
			e = ps[r.Intn(len(ps))]
			kinds = append(kinds, "remove")
		default:
			continue
		}
		// the planned reaction of every reactive peer
		for i, x := range writers {
			w.Peers[i].Tap.Take()
			if x == nil {
				continue
			}
			pl := c07WinPlan{}
			if add && len(e.feats) > 0 {
				f := e.feats[r.Intn(len(e.feats))]
				id := uint(*f.Address().Feature)
				var fns []model.FunctionType
				for fn := range f.Operations() {
					fns = append(fns, fn)
				}
				sort.Slice(fns, func(i, j int) bool { return fns[i] < fns[j] })
				if len(fns) > 0 {
					pl = c07WinPlan{rig.FA(rig.LocalAddr, e.addr, id), fns[r.Intn(len(fns))]}
				} else if fb, ok := e.fallbk[id]; ok {
					pl = c07WinPlan{rig.FA(rig.LocalAddr, e.addr, id), fb}
				}
			}
			x.arm(pl)
		}
		what := "RemoveEntity " + e.key
		state := model.NetworkManagementStateChangeTypeRemoved
		if add {
			what, state = fmt.Sprintf("AddEntity %s (%d features)", e.key, len(e.feats)), model.NetworkManagementStateChangeTypeAdded
		}
		callSeq := rig.Seq()
		ok, panicked := rig.Guard(90*time.Second, func() {
			if add {
				local.AddEntity(e.obj)
			} else {
				local.RemoveEntity(e.obj)
			}
		})
		retSeq := rig.Seq()
		e.present = add
		trace = append(trace, fmt.Sprintf("[%d,%d] %s", callSeq, retSeq, what))
		if panicked != "" {
			fail("window/panic", "%s: %s", what, panicked)
			return
		}
		if !ok {
			c.Inconclusive("%s did not return within 90s", what)
			return
		}
		for i, x := range writers {
			if x == nil {
				continue
			}
			if !rig.WaitFor(60*time.Second, x.idle) {
				c.Inconclusive("%s: the reader goroutine of peer%d did not finish its reaction within 60s", what, i)
				return
			}
			x.disarm()
		}
		wantE, wantF := wantTree()
		for i, x := range writers {
			p := w.Peers[i]
			if n := p.PanicCount(); n > 0 {
				fail("window/panic", "%s: the stack panicked while handling a message of peer%d: %s", what, i, p.Panics[n-1])
				return
			}
			if x == nil {
				continue
			}
			recs, expired := x.take()
			if expired > 0 {
				c.Count("window_waits_expired", int64(expired))
				c.Inconclusive("%s: the write of the notification to peer%d was released by the watchdog (%v) before the peer's reads had been answered", what, i, x.max)
				return
			}
			if len(recs) == 0 {
				c.Count("windows_not_forced:no_entity_notification_reached_the_reactive_peer", 1)
				continue
			}
			// the control: the same reads once more, now that the call has returned (this goroutine delivers; the reader is idle)
			ctlMc := map[*c07Reaction]model.MsgCounterType{}
			for _, rec := range recs {
				if rec.feat != nil {
					ctlMc[rec] = p.Send(model.CmdClassifierTypeRead, p.NM(), rec.feat.featAddr, false, nil, c07ReadCmd(rec.feat.featFn))
				}
			}
			outs := p.Tap.Take()
			for _, rec := range recs {
				ev := rec.ev
				if ev.ent != e.key || ev.state != state {
					c.Count("windows_on_another_entity_notification", 1)
					continue
				}
				c.Count("windows_forced:"+string(state), 1)
				wd := fmt.Sprintf("peer%d was handed the '%s %s' notification at stamp %d (inside the call [%d,%d]) and sent a discovery read at [%d,%d]", i, state, ev.ent, ev.seq, callSeq, retSeq, rec.discCall, rec.discRet)
				res := rig.Classify(outs, rec.discMc)
				var dd *model.NodeManagementDetailedDiscoveryDataType
				if res.Replies == 1 && res.Errors == 0 && len(res.All) == 1 && len(res.All[0].Payload.Cmd) == 1 {
					dd = res.All[0].Payload.Cmd[0].NodeManagementDetailedDiscoveryData
				}
				if dd == nil {
					fail("window/"+string(state)+"/discovery-read-not-answered-with-one-reply", "%s: %s", wd, c07RespClass(res))
					continue
				}
				gotE, gotF := replyTree(dd)
				c.Events(int64(1 + len(gotE) + len(gotF)))
				switch {
				case add && !has(gotE, e.key):
					fail("window/added/discovery-reply-lacks-the-announced-entity", "%s; the reply lists the entities %v, the device has %v", wd, gotE, wantE)
				case !add && has(gotE, e.key):
					fail("window/removed/discovery-reply-still-lists-the-removed-entity", "%s; the reply lists the entities %v, the device has %v", wd, gotE, wantE)
				case strings.Join(gotE, " ") != strings.Join(wantE, " "):
					fail("window/"+string(state)+"/discovery-reply-entities-differ", "%s; the reply lists the entities %v, the device has %v", wd, gotE, wantE)
				case strings.Join(gotF, "\n") != strings.Join(wantF, "\n"):
					fail("window/"+string(state)+"/discovery-reply-features/"+c07DiffSig(wantF, gotF), "%s; the announced features differ from the tree:\n%s", wd, c06Diff(wantF, gotF))
				}
				if add {
					winAdded++
					c.Events(int64(rec.resolved + len(rec.unresolved)))
					if len(rec.unresolved) > 0 {
						fail("window/added/announced-address-does-not-resolve", "%s; FeatureByAddress inside the window: %v", wd, rec.unresolved)
					}
					if len(ev.anns) != len(e.feats) {
						c.Count("windows_where_the_notification_announced_another_feature_count", 1)
					}
					if rec.feat != nil {
						in, ctl := c07RespClass(rig.Classify(outs, rec.featMc)), c07RespClass(rig.Classify(outs, ctlMc[rec]))
						c.Events(2)
						c.Count("window_feature_reads:"+strings.SplitN(in, "(", 2)[0], 1)
						if strings.SplitN(in, "(", 2)[0] != strings.SplitN(ctl, "(", 2)[0] {
							sig := "window/added/read-to-announced-feature-answered-differently-than-after-the-call"
							if strings.HasPrefix(in, "error") && ctl == "reply" {
								sig = "window/added/read-to-announced-feature-rejected"
							}
							fail(sig, "%s and a read of %s to the announced feature %s: answered with %s inside the window, with %s after AddEntity returned", wd, rec.feat.featFn, rkKey(rec.feat.featAddr), in, ctl)
						}
					}
				} else {
					winRemoved++
				}
			}
		}
	}
	h := fnv.New64a()
	h.Write([]byte(strings.Join(kinds, ";")))
	c.Shape(fmt.Sprintf("%s %x", mask, h.Sum64()))
	c.NonTrivial(winAdded >= 1 && winRemoved >= 1)
	c.Count("window_reactions_judged:added", int64(winAdded))
	c.Count("window_reactions_judged:removed", int64(winRemoved))
	c.Sample(map[string]any{"peers": mask, "history": trace, "operation_kinds": kinds, "windows_added": winAdded, "windows_removed": winRemoved})
}
